"""Rendering and replay of abstract programs exported by spec/AsmCore.tla.

The specification predicts (per link base) success/failure, the image and the symbol values; this
module turns the abstract program into source text, assembles it with the real code and compares.
Nothing here computes an expected value: it renders, runs and compares.
"""
import re
import tempfile
import zlib

from .common import MachineryError, tmp_root, rmtree
from .drive import asm
from .tlc import run_tlc, require_ok

PREC = {"*": 3, "/": 3, "%": 3, "+": 4, "-": 4, "<<": 5, ">>": 5}


def expr(e, branch=False):
    """Abstract expression -> source text.  Sub-expressions are grouped with <...> so that the text means
    exactly the tree (no reliance on precedence); `branch` = operand of br/sob (a bare number there is a
    local-label name, so local names are written bare and numbers never appear bare at the head)."""
    t = e["t"]
    if t == "num":
        v = e["v"]
        if e.get("bad"):
            if not set(str(v)) & set("89"):
                raise MachineryError(f"BadNum({v}) has no digit 8 or 9")
            return "%d" % v
        return ("-%o" % -v) if v < 0 else ("%o" % v)
    if t == "sym":
        n = e["n"]
        if n[0].isdigit():
            return n if branch else n + ":"
        return n
    if t == "dot":
        return "."
    if t == "neg":
        s = expr(e["e"])
        if e["e"]["t"] == "bin":           # the prefix operator binds tighter than any infix operator
            s = "<" + s + (" >" if s.endswith(">") else ">")
        return "<-" + s + (" >" if s.endswith(">") else ">")
    if t == "bin":
        def side(x):
            s = expr(x)
            if x["t"] != "bin":
                return s
            return "<" + s + (" >" if s.endswith(">") else ">")      # '>>' would be read as a shift
        return side(e["l"]) + " " + e["op"] + " " + side(e["r"])
    raise MachineryError(f"unknown expression {e}")


def hoistable(e):
    """index expression written without grouping, e.g. 2+2(r3), -c(r3), -c+2(r3) (exercises the parser's hoisting;
    a prefix operator is legal at the head of the expression and binds tighter than the infix operator)"""
    def atom(x):
        if x["t"] in ("num", "sym"):
            return expr(x)
        if x["t"] == "neg" and x["e"]["t"] in ("num", "sym"):
            return "-" + expr(x["e"])
        return None
    if atom(e) is not None:
        return atom(e)
    if e["t"] == "bin" and e["r"]["t"] in ("num", "sym") and atom(e["l"]) is not None:
        return atom(e["l"]) + e["op"] + expr(e["r"])
    if (e["t"] == "bin" and e["op"] in ("+", "-") and atom(e["l"]) is not None and e["r"]["t"] == "bin" and e["r"]["op"] in ("*", "/")
            and e["r"]["l"]["t"] in ("num", "sym") and e["r"]["r"]["t"] in ("num", "sym")):
        return atom(e["l"]) + e["op"] + expr(e["r"]["l"]) + e["r"]["op"] + expr(e["r"]["r"])       # c+2*3(r3): the tighter operator last
    s = expr(e)
    return "<" + s + (" >" if s.endswith(">") else ">") if e["t"] in ("bin", "neg") else s


def stmt(s, inc_names, indent=""):
    k = s["k"]
    if k == "insn":
        op = s["op"]
        if op == "nop":
            t = "nop"
        elif op == "movi":
            t = f"mov #{expr(s['e'])}, r0"
        elif op == "mova":
            t = f"mov @#{expr(s['e'])}, r1"
        elif op == "movr":
            t = f"mov {expr(s['e'])}, r2"
        elif op == "movx":
            t = f"mov {hoistable(s['e'])}(r3), r4"
        elif op == "clra":
            t = f"clr @#{expr(s['e'])}"
        elif op == "movii":
            t = f"mov #{expr(s['e'])}, @#{expr(s['e2'])}"
        elif op == "movrr":
            t = f"mov {expr(s['e'])}, {expr(s['e2'])}"
        elif op == "br":
            t = f"br {expr(s['e'], branch=True)}"
        elif op == "sob":
            t = f"sob r1, {expr(s['e'], branch=True)}"
        else:
            raise MachineryError(f"unknown insn {op}")
        return [indent + "\t" + t]
    if k in ("word", "byte", "dword"):
        ops = ", ".join(expr(x) for x in s["es"])
        first = ops.split(",")[0]
        if k == "word" and ops and ops[0].isdigit() and "." not in first and ":" not in first and zlib.crc32(ops.encode()) % 3 == 0:
            # every third word list that begins with a plain number in the implicit spelling (no '.word'); a name alone would be read
            # as an instruction, a number with a colon as a label
            return [indent + "\t" + ops]
        return [indent + "\t." + k + (" " + ops if s["es"] else "")]
    if k in ("blkb", "blkw", "align"):
        return [indent + f"\t.{k} {expr(s['e'])}"]
    if k in ("even", "odd", "end", "once"):
        return [indent + "\t." + k]
    if k == "ascii":
        return [indent + '\t.ascii "' + "".join(chr(b) for b in s["bs"]) + '"']
    if k == "asciic":
        parts = [('"' + "".join(chr(b) for b in c["q"]) + '"') if "q" in c else ('"' + "".join(chr(b) for b in c["u"]) + '"') if "u" in c
                 else ("<" + expr(c["e"]) + ">") for c in s["cs"]]
        return [indent + ("\t.asciz " if s.get("z") else "\t.ascii ") + " ".join(parts)]
    if k == "label":
        return [indent + s["n"] + ("::" if s["x"] else ":")]
    if k == "const":
        return [indent + f"{s['n']} {'==' if s['x'] else '='} {expr(s['e'])}"]
    if k == "extern":
        return [indent + "\t.extern " + ", ".join(s["ns"])]
    if k == "externall":
        return [indent + "\t.extern all"]
    if k == "link":
        return [indent + f"\t.link {expr(s['e'])}"]
    if k in ("dotset", "skip"):
        return [indent + f"\t. = {expr(s['e'])}"]
    if k == "insert":
        return [indent + f'\tinsert_file "{insert_name(s)}"']
    if k == "repeat":
        out = [indent + (f"\t.repeat {s['c']} {{" if "c" in s else f"\t.repeat {s['n']:o} {{")]
        for b in s["body"]:
            out += stmt(b, inc_names, indent + "  ")
        out.append(indent + "\t}")
        return out
    if k == "include":
        nm = inc_names[s["f"] - 1]
        if "c" in s:                  # the digit of the name written as <symbol>: "i" <sx> ".mac"
            q = max(i for i, ch in enumerate(nm) if ch.isdigit())
            return [indent + f'\t.include "{nm[:q]}" <{s["c"]}> "{nm[q + 1:]}.mac"']
        return [indent + f'\t.include "{nm}.mac"']
    raise MachineryError(f"unknown statement {s}")


def insert_name(s):
    """the operand of insert_file as written: a name of its own ('nm', looked up next to the file the directive stands in) or one per length"""
    return (s["nm"] + ".bin") if "nm" in s else f"ins{s['len']}.bin"


def inc_path(f):
    """path of an includable file below the scratch root"""
    return (f["dir"] + "/" if f.get("dir") else "") + f["name"] + ".mac"


def insert_bytes(n):
    return bytes((7 * q + n) % 256 for q in range(1, n + 1))


def walk(stmts, inc):
    for s, _ in walk_dir(stmts, inc, ""):
        yield s


def walk_dir(stmts, inc, d):
    """(statement, directory of the file it stands in) for every statement reached from stmts"""
    for s in stmts:
        yield s, d
        if s["k"] == "repeat":
            yield from walk_dir(s["body"], inc, d)
        if s["k"] in ("include", "linkinc"):
            yield from walk_dir(inc[s["f"] - 1]["body"], inc, inc[s["f"] - 1].get("dir", ""))


# the fourth spelling is absolute and not normalised (asm() puts the scratch directory in place of @ROOT@)
INC_SPELLINGS = ["{n}.mac", "./{n}.mac", "sub/../{n}.mac", "@ROOT@/sub/../{n}.mac"]


END_JUNK = ["*** END OF PROGRAM ***", "\t.ascii \"not closed", "=====\x1a"]


def spell_ends(lines, h):
    """every top-level '.end' in one of three spellings; behind the capitalised ones stands text that is not assembly (a banner, an open
    string, a ruler with a Ctrl-Z): whatever follows the directive in its file is discarded, it need not even parse"""
    out = []
    for q, ln in enumerate(lines):
        if ln == "\t.end":
            v = (h + q) % 3
            out.append(["\t.end", "\t.END", "\t.End"][v])
            if v:
                out.append(END_JUNK[(h + q) % len(END_JUNK)])
        else:
            out.append(ln)
    return out


def upcase(text):
    """the text in upper case except for what stands between double quotes (strings, file names): symbols, mnemonics, registers and
    directives are case-insensitive"""
    out, inq = [], False
    for ch in text:
        if ch == '"':
            inq = not inq
        elif ch == "\n":
            inq = False
        out.append(ch if inq else ch.upper())
    return "".join(out)


def link_line(base, h):
    """the harness '.link': a base in the upper half of the address space is written as a negative number in every other program
    ('.link -2' is '.link 177776': the operand is a signed 16-bit value)"""
    if base >= 32768 and h % 2 == 1:
        return "\t.link -%o" % (65536 - base)
    return "\t.link %o" % base


def render(files, inc, base=None, late=None, vary_case=False):
    """-> (sources [(name, text)], fs dict or None).  base: harness link base (a `.link` the harness adds).
    Rendering choices that do not change the meaning are varied deterministically with the program: the harness `.link` stands
    at the start, or (when the program has no '. =' and sets no base itself) at the very end, or is omitted for the default base
    0o1000; successive inclusions of one file spell its path differently (x.mac, ./x.mac, sub/../x.mac)."""
    inc_names = [f["name"] for f in inc]
    fs = {}
    used_fs = False
    h = sum(len(repr(f)) * (i + 3) for i, f in enumerate(files))
    has_dotset = (any(s["k"] in ("dotset", "link") for f in files for s in walk(f, inc))
                  or any(s["k"] == "end" for s in files[-1]))        # text behind .end is discarded, a trailing .link too
    link_at = "start"
    if base is not None and not has_dotset:
        if late is None:
            link_at = ["start", "end", "start", "end", "omit"][h % 5] if base == 512 else ["start", "end"][h % 2]
        elif late in ("mid", "midsym"):
            link_at = "mid"                        # between two top-level statements of the first file (ahead of its '.end')
        elif late:
            link_at = ["end", "omit"][h % 2] if base == 512 else "end"
    counter = {}

    class Names(list):
        def __getitem__(self, i):
            n = list.__getitem__(self, i)
            k = counter.get(n, 0)
            counter[n] = k + 1
            return INC_SPELLINGS[k % 4].format(n=n)[:-4]
    inc_names = Names([inc_path(f)[:-4] for f in inc])
    for f in files:
        for s, d in walk_dir(f, inc, ""):
            if s["k"] == "insert":
                path = (d + "/" if d else "") + insert_name(s)
                if fs.get(path, insert_bytes(s["len"])) != insert_bytes(s["len"]):
                    raise MachineryError(f"two different inserted files at {path}")
                fs[path] = insert_bytes(s["len"])
                used_fs = True
            if s["k"] in ("include", "linkinc"):
                used_fs = True
    if used_fs:
        for f in inc:
            # inside included files the plain spelling is used, relative to the directory of the including file
            plain = [(inc_path(g) if not f.get("dir") else ("../" + inc_path(g) if not g.get("dir") else g["name"] + ".mac"))[:-4] for g in inc]
            lines = []
            for s in f["body"]:
                lines += stmt(s, plain)
            fs[inc_path(f)] = "\n".join(spell_ends(lines, h)) + "\n"
            if vary_case and (h + len(f["name"]) + inc.index(f)) % 3 == 0:
                fs[inc_path(f)] = upcase(fs[inc_path(f)])
        fs["sub/.keep"] = ""
    srcs = []
    if files and len(files[-1]) == 1 and files[-1][0]["k"] == "linkinc" and link_at == "end":
        link_at = "start"                          # the text of a linked includable file is the file's own: no harness line in it
    for i, f in enumerate(files):
        if len(f) == 1 and f[0]["k"] == "linkinc":
            srcs.append((inc_path(inc[f[0]["f"] - 1]), fs[inc_path(inc[f[0]["f"] - 1])]))
            continue
        lines = []
        if i == 0 and base is not None and link_at == "start":
            lines.append(link_line(base, h))
        mid = None
        # "midsym": the base is written as a symbol that the first file defines at its end (so the directive cannot be computed
        # when it is met); only when that end is reached, i.e. the file has no '.end'
        symlink = (late == "midsym" and i == 0 and link_at == "mid" and not any(s["k"] == "end" for s in f))
        if i == 0 and link_at == "mid":
            stop = next((q for q, s in enumerate(f) if s["k"] == "end"), len(f))
            mid = (1 + h % stop) if stop else 0
            if mid == 0:
                lines.append(link_line(base, h) if not symlink else "\t.link hbase9")
        consts, blocked = set(), False
        for q, s in enumerate(f):
            if (s["k"] == "word" and len(s["es"]) == 1 and s["es"][0]["t"] == "sym" and s["es"][0]["n"] in consts and not blocked
                    and not vary_case):
                # a word list that is one constant assigned EARLIER in this file, in the implicit spelling: the bare name is parsed
                # as an instruction and turned into '.word name' when the statement is compiled (compiler.compile_insn)
                lines.append("\t" + s["es"][0]["n"])
            else:
                lines += stmt(s, inc_names)
            if s["k"] == "const" and "." not in s["n"] and not s["n"][0].isdigit():
                consts.add(s["n"])
            elif s["k"] in ("include", "linkinc", "label", "end", "repeat"):
                blocked = blocked or s["k"] != "label" or s["n"] in consts       # keep to the plain case: nothing else could name it
                consts.discard(s.get("n"))
            if mid is not None and q + 1 == mid:
                lines.append(link_line(base, h) if not symlink else "\t.link hbase9")
            if symlink and s["k"] == "end":
                symlink = False
        if symlink:
            lines.append("hbase9 = %o" % base)
        if i == len(files) - 1 and base is not None and link_at == "end":
            lines.append(link_line(base, h))
        text = "\n".join(spell_ends(lines, h + i)) + "\n"
        if vary_case and (h + i) % 2 == 1:
            text = upcase(text)           # every other file spells everything in upper case (names are case-insensitive)
        srcs.append((f"f{i + 1}.mac", text))
    return srcs, (fs if used_fs else None)


LST_LINE = re.compile(r"^(-?[0-7]+) (\S+)$")


def parse_listing(text):
    """-> {file: [(name, value), ...] in listed order}, or None if a line is not understood"""
    out, cur = {}, None
    for line in text.split("\n"):
        if not line:
            cur = None
            continue
        m = LST_LINE.match(line)
        if m and cur is not None:
            out[cur].append((m.group(2), int(m.group(1), 8)))
        elif cur is None:
            cur = line
            out.setdefault(cur, [])
        else:
            return None
    return out


def replay(task):
    """task = (record, incfiles, opts) -> list of problems (dicts).  opts: harness_link, timeout, check_syms"""
    rec, inc, opts = task
    problems = []
    variants = []
    for run in rec["runs"]:
        if opts.get("harness_link", True):
            # an accepted program is assembled with the harness `.link` in front AND with it at the very end / omitted
            # (the base is then unknown during the whole pass): both must give the predicted result
            places = [False, True] if (run["ok"] and rec["own"] != "err" and opts.get("both_link_places", True)) else [None]
            if len(places) == 2 and opts.get("mid_link"):
                places.append("mid")
                if not opts.get("check_syms", True):
                    places.append("midsym")        # adds a symbol of its own: only where the listing is not compared
            for late in places:
                variants.append((run, run["base"], late))
        else:
            variants.append((run, None, None))
    done = set()
    shared_root = None           # the variants of one program are assembled in ONE directory: same include paths, assembly after assembly
    for run, base, late in variants:
        srcs, fs = render(rec["files"], inc, base, late, vary_case=opts.get("vary_case", False))
        key = repr(srcs)
        if key in done:
            continue
        done.add(key)
        to = 1.0 if rec.get("cyc") else opts.get("timeout", 5.0)
        # non-ASCII quoted text ("u" chunks) is specified for the UTF-8 output charset
        charset = "utf-8" if any(s_["k"] == "asciic" and any("u" in c for c in s_["cs"]) for f in rec["files"] for s_ in walk(f, inc)) else "bk"
        if fs is not None and shared_root is None:
            shared_root = tempfile.mkdtemp(prefix="asmv-", dir=tmp_root())
        r = asm(srcs, fs=fs, timeout=to, listing=opts.get("check_syms", True), charset=charset, root=(shared_root if fs is not None else None))
        if r["outcome"] == "hang" and not rec.get("cyc"):
            # a hang nobody predicted is confirmed by a second run with twice the time before it is reported (an overloaded machine can
            # starve a run; a genuine non-termination comes back)
            r = asm(srcs, fs=fs, timeout=2 * to, listing=opts.get("check_syms", True), charset=charset, root=(shared_root if fs is not None else None))
        want_ok = bool(run["ok"]) and rec["own"] != "err"
        p = None
        if r["outcome"] in ("hang", "exception"):
            p = {"kind": "crash", "what": f"real code: outcome={r['outcome']} exc={r['exc']}"}
        elif want_ok:
            if r["outcome"] != "ok":
                p = {"kind": "rejected", "what": f"specification accepts the program, real code fails: {[x[1] for x in r['reports'] if x[0] != 'warning'][:4]}"}
            elif r["base"] != run["base"]:
                p = {"kind": "base", "what": f"base: predicted {run['base']:o}, real {r['base']:o}"}
            elif list(r["code"]) != run["image"]:
                p = {"kind": "image", "what": f"image: predicted {bytes(run['image']).hex()}, real {r['code'].hex()}"}
            elif opts.get("check_syms", True):
                lst = parse_listing(r["listing"] or "")
                if lst is None:
                    p = {"kind": "listing", "what": "listing not understood: " + repr(r["listing"])[:300]}
                else:
                    want = sorted((y["file"] + ".mac", y["name"], y["value"]) for y in run["syms"])
                    got = sorted((f.rsplit("/", 1)[-1], (n.lower() if opts.get("vary_case") else n), v) for f, ys in lst.items() for n, v in ys)
                    if want != got:
                        p = {"kind": "symbols", "what": f"symbol values: predicted {want}, listed {got}"}
        else:
            if r["outcome"] != "error" or r["n_err"] < 1:
                p = {"kind": "accepted", "what": f"specification rejects the program (an error is due), real code: outcome={r['outcome']} errors={r['n_err']} code={r['code'].hex() if r['code'] is not None else None}"}
        if p is not None:
            p.update({"base": run["base"], "outcome": r["outcome"], "exc": r["exc"],
                      "sources": {n: t for n, t in srcs}, "fs": {k: (v if isinstance(v, str) else v.hex()) for k, v in (fs or {}).items()},
                      "reports": [[x[0], x[1]] for x in r["reports"]][:8]})
            problems.append(p)
    if shared_root is not None:
        rmtree(shared_root)
    return problems


def tags_for(rec, p):
    tags = []
    if rec.get("cyc"):
        tags.append("shape:cyclic-symbol-definition")
    if p["outcome"] == "hang":
        tags.append("outcome:hang")
    elif p["outcome"] == "exception":
        tags.append("outcome:exception:" + (p["exc"] or "?").split(":")[0])
    return tags


def cfg_text(alphabet, incfiles, max_stmts, max_files, bases, harness_link=True, extra=()):
    ex = "{" + ", ".join('"%s"' % x for x in extra) + "}"
    return (f"SPECIFICATION Spec\nCONSTANTS\n  Alphabet <- {alphabet}\n  IncFiles <- {incfiles}\n  MaxStmts = {max_stmts}\n"
            f"  MaxFiles = {max_files}\n  Bases = {{{', '.join(str(b) for b in bases)}}}\n  HarnessLink = {'TRUE' if harness_link else 'FALSE'}\n"
            f"  Extra = {ex}\nINVARIANT Inv\nCHECK_DEADLOCK FALSE\n")


def explore(run, alphabet, incfiles, max_stmts, max_files, bases, harness_link=True, simulate=None, depth=None,
            label=None, timeout=1500, seed=None, extra=(), consume=None, batch=25000):
    """Run TLC on AsmCore with the given alphabet; returns (records, incfile pool).
    consume: optional callable(records, incfile pool) -> None called per batch of `batch` records instead of keeping them all
    (big state spaces: the records of a 5-statement exploration do not fit in memory); returns ([], pool) then."""
    state = {"inc": None, "buf": [], "bad": []}

    def flush():
        if state["buf"] and consume is not None:
            if state["inc"] is None:
                raise MachineryError("AsmCore did not print its include-file pool before the first program")
            consume(state["buf"], state["inc"])
            state["buf"] = []

    def on_export(r):
        if "incfiles" in r:
            state["inc"] = r["incfiles"]
            return
        if not all(r["chk"].values()) and len(state["bad"]) < 3:
            state["bad"].append(r)
        state["buf"].append(r)
        if consume is not None and len(state["buf"]) >= batch:
            flush()

    res = require_ok(run_tlc("AsmCore", cfg_text=cfg_text(alphabet, incfiles, max_stmts, max_files, bases, harness_link, extra),
                             simulate=simulate, depth=depth, seed=seed, workers=(1 if simulate else 16), on_export=on_export,
                             label=label or f"AsmCore/{alphabet} <= {max_stmts} stmts x {max_files} files", timeout=timeout))
    run.add_tlc(res)
    if state["inc"] is None:
        raise MachineryError("AsmCore did not print its include-file pool")
    flush()
    if res.violated:
        run.violation(f"model: invariant {res.violated} violated in AsmCore.tla ({alphabet})",
                      {"failing_clauses": state["bad"], "tail": res.tail[-2000:]})
    return state["buf"], state["inc"]


def kinds_of(rec, inc=None):
    kinds = set()

    def walk_(ss):
        for s in ss:
            kinds.add(s["k"])
            if s["k"] == "repeat":
                walk_(s["body"])
    for f in rec["files"]:
        walk_(f)
    return kinds


def replay_all(run, recs, inc, opts, nontrivial, limit_cyc=40):
    """Replay every distinct exported program; report disagreements as violations (with known-finding tags).
    nontrivial(rec) -> bool decides what counts as a non-trivial case in the evidence.
    Programs with a predicted definition cycle hang the real code (open known finding) and cost a watchdog
    timeout each, so only `limit_cyc` of them are replayed."""
    from .drive import pmap
    seen, tasks, ncyc = set(), [], 0
    for r in recs:
        key = repr(r["files"])
        if key in seen:
            continue
        seen.add(key)
        if r.get("skip"):
            run.bump("skipped_outside_declared_domain")
            continue
        if r.get("cyc"):
            ncyc += 1
            if ncyc > limit_cyc:
                run.bump("cyclic_programs_not_replayed")
                continue
        tasks.append((r, inc, opts))
    results = pmap(replay, tasks)
    for (rec, _, _), problems in zip(tasks, results):
        run.add_eval(len(rec["runs"]))
        if nontrivial(rec):
            run.add_nontrivial(repr(rec["files"]))
        run.bump("accepted_programs" if rec["ok"] else "rejected_programs")
        for p in problems:
            run.violation(f"{p['kind']}: {p['what']} | base={p['base']:o} | {' // '.join(p['sources'].values())[:300]!r}",
                          {"problem": {k: v for k, v in p.items() if k not in ("sources", "fs")}, "abstract": rec["files"]},
                          files={**p["sources"], **{("fs/" + k): v for k, v in p["fs"].items()}}, tags=tags_for(rec, p))
    return tasks


def explore_given(run, programs, incfiles, bases, harness_link=True, label=None, timeout=1500):
    """Evaluate harness-generated abstract programs with AsmCore.tla ("given" mode): the specification is the oracle
    for programs that are too large for TLC to enumerate.  programs = list of programs (each a list of files)."""
    import json as _json
    import os as _os
    import tempfile as _tempfile
    from .common import tmp_root
    fd, path = _tempfile.mkstemp(prefix="given-", suffix=".json", dir=tmp_root())
    try:
        with _os.fdopen(fd, "w") as f:
            _json.dump(programs, f)
        res = require_ok(run_tlc("AsmCore", cfg_text=cfg_text("LayoutAlphabet", incfiles, 0, 0, bases, harness_link),
                                 env={"PROGRAMS": path}, label=label or f"AsmCore given programs ({len(programs)})", timeout=timeout))
    finally:
        _os.unlink(path)
    run.add_tlc(res)
    inc, recs = None, []
    for r in res.exports:
        if "incfiles" in r:
            inc = r["incfiles"]
        else:
            recs.append(r)
    if res.violated:
        bad = [r for r in recs if not all(r["chk"].values())]
        run.violation(f"model: invariant {res.violated} violated in AsmCore.tla (given programs)", {"failing_clauses": bad[:3], "tail": res.tail[-2000:]})
    if len(recs) != len({repr(p) for p in programs}):
        raise MachineryError(f"AsmCore evaluated {len(recs)} of {len(programs)} given programs\n{res.tail[-800:]}")
    return recs, inc


def explore_replay(run, alphabet, incfiles, max_stmts, max_files, bases, opts, nontrivial, keep=4000, after=None, **kw):
    """explore() + replay_all() in batches (bounded memory).  Returns up to `keep` replayed tasks (for samples / notes) and the
    include pool.  after(tasks) is called per batch with the replayed tasks (e.g. to replay transformed variants)."""
    kept = []

    def consume(recs, inc):
        tasks = replay_all(run, recs, inc, opts, nontrivial)
        if after is not None:
            after(tasks)
        room = keep - len(kept)
        if room > 0:
            kept.extend(tasks[:room])

    _, inc = explore(run, alphabet, incfiles, max_stmts, max_files, bases, harness_link=opts.get("harness_link", True),
                     consume=consume, **kw)
    return kept, inc
