"""C01  Machine-code fidelity of every instruction form.

spec/ISA.tla enumerates instruction FORMS as a state graph (mnemonic x operand-form combination x
value class x link base); TLC checks on every form that the specification's processor-side decoder
and fetch machine recover the source form from the encoder's words and consume exactly those words
(DecodeRecoversSource), that special cases encode as the operation they stand for, and the static
table properties (NoOverlap, SynonymsShare, ...); mode "words" checks decoder and table against each
other on all 65 536 words.  Every form is exported with the predicted words (or predicted refusal for
out-of-range inline numbers) and assembled by the real code: position-independent forms inside mixed
programs of some hundred instructions (a share of them also alone), the others alone, at every link
base.  Mode "prog" exports whole mixed programs whose image depends on the addresses (TLC checks that its
processor machine walks the whole predicted image statement by statement).  Mode "trace" runs the
processor machine on the REAL words of every form that was assembled alone.
"""
from ..common import MachineryError
from ..drive import asm, pmap
from .. import isa

PAIR_OPS = ["mov", "cmpb", "add", "jsr", "xor", "mul", "ash", "ldf", "stf", "ldexp", "stexp", "ldcdf", "tstd", "jmp", "clrb",
            "push", "pop", "call", "ldfps", "stcdi", "ldcif"]
FP_OPS = ["ldf", "ldd", "stf", "std", "addf", "addd", "subf", "subd", "mulf", "muld", "divf", "divd", "cmpf", "cmpd", "modf", "modd",
          "tstf", "tstd", "clrf", "clrd", "absf", "absd", "negf", "negd", "ldcfd", "ldcdf", "stcfd", "stcdf", "ldcif", "ldcid",
          "ldclf", "ldcld", "stcfi", "stcfl", "stcdi", "stcdl", "ldexp", "stexp", "ldfps", "stfps", "stst"]
BASES = [0o1000, 0o157776, 0o40000]
FORM_INVS = isa.DESIGN_INVS + ["ExportForm"]


def render_prog(rec, variant):
    """every third program writes all its numbers as symbols that are defined at the end of the text (forward references: the
    instruction is completed when the whole program is known)"""
    lines = [".link %o" % rec["base"]]
    symtab = [] if variant % 3 == 0 else None
    for k, ins in enumerate(rec["ins"]):
        r = {"op": ins["op"], "args": ins["args"], "a": ins["a"], "sh": "std"}
        lines.append(isa.instr_text(r, variant + k, symtab=symtab))
    for name, v in (symtab or []):
        lines.append("%s = %s" % (name, isa.octs(v)))
    return "\n".join(lines) + "\n"


def split_prog(src, variant):
    """-> (main text, fs): every fourth program stands in two sibling include files (the instructions are the same, in the same order
    at the same addresses; the symbol definitions stay in the main file and are exported)"""
    lines = src.splitlines()
    ins = [ln for ln in lines[1:] if " = " not in ln]
    defs = [ln.replace(" = ", " == ") for ln in lines[1:] if " = " in ln]
    if variant % 4 == 2 and len(ins) >= 6:
        # ... and every fourth program is linked from three files given side by side on the command line
        a, b = len(ins) // 3, 2 * len(ins) // 3
        return [("p1.mac", "\n".join([lines[0]] + ins[:a]) + "\n"), ("p2.mac", "\n".join(ins[a:b]) + "\n"),
                ("p3.mac", "\n".join(ins[b:] + defs) + "\n")], None
    if variant % 4 != 1 or len(ins) < 4:
        return src, None
    h = len(ins) // 2
    fs = {"part1.mac": "\n".join(ins[:h]) + "\n", "part2.mac": "\n".join(ins[h:]) + "\n"}
    return "\n".join([lines[0], '.include "part1.mac"', '.include "part2.mac"'] + defs) + "\n", fs


def run_prog(task):
    rec, variant = task
    src, fs = split_prog(render_prog(rec, variant), variant)
    r = asm(src if isinstance(src, list) else [("prog.mac", src)], timeout=60, fs=fs)
    if isinstance(src, list):
        src = "\n".join(f"; {n}\n{t}" for n, t in src)
    want = isa.words_bytes(rec["image"])
    if r["outcome"] == "ok" and r["code"] == want and r["base"] == rec["base"]:
        return None
    where = None
    if r["outcome"] == "ok":
        code = r["code"]
        for k, ins in enumerate(rec["ins"]):
            off = ins["a"] - rec["base"]
            if code[off:off + 2 * len(ins["w"])] != isa.words_bytes(ins["w"]):
                got = code[off:off + 2 * len(ins["w"])]
                where = (k, isa.instr_text({"op": ins["op"], "args": ins["args"], "a": ins["a"], "sh": "std"}, variant + k), ins["a"], isa.fmt_words(ins["w"]),
                         isa.fmt_words([int.from_bytes(got[i:i + 2], "little") for i in range(0, len(got) - 1, 2)]))
                break
    return (src, r["outcome"], where, r["exc"], [x[1] for x in r["reports"]][:6], len(r["code"]) if r["code"] is not None else None, len(want))


def main(run):
    thorough = run.tier == "thorough"
    run.rule = ("one case = one state of ISA.tla's form graph: mnemonic x operand-form combination (12 general forms incl. all 8 "
                "modes x 8 registers, immediate/absolute/relative/relative-deferred, accumulators, every inline number, every "
                "encodable branch distance) x value class x link base, each with TLC-predicted words (or predicted refusal for "
                "out-of-range inline numbers) and a TLC-checked decode round trip; non-trivial = distinct (rendered statement, "
                "address) pairs assembled by the real code and compared word by word")
    rp = isa.Replay(run, run.seed)
    nprog, plen = (1500, 40) if thorough else (140, 25)
    jobs = []
    if thorough:
        jobs.append(dict(cfg_text=isa.cfg(invs=FORM_INVS, ops=["*"], gen="all", vals="mid", tgts="full", dists="reach", bases=BASES),
                         label="ISA forms: all mnemonics x full operand-form product", timeout=2400, on_export=rp.add, heap="8g", workers=14))
    else:
        jobs.append(dict(cfg_text=isa.cfg(invs=FORM_INVS, ops=["*"], gen="rep", vals="two", tgts="mid", dists="reach",
                                          bases=[0o157776]),
                         label="ISA forms: all mnemonics x representative forms", timeout=600, on_export=rp.add, workers=6))
        jobs.append(dict(cfg_text=isa.cfg(invs=FORM_INVS, ops=PAIR_OPS, gen="all", vals="one", tgts="one", dists="few", bases=[0o1000]),
                         label="ISA forms: selected mnemonics x all operand-form pairs", timeout=600, on_export=rp.add, workers=5))
    # relative operands written as symbols (the names come from isa.LABEL_NAMES: ordinary symbols, some of which merely begin like a
    # register or accumulator name): every FP-11 mnemonic and the mnemonics of the pair job
    jobs.append(dict(cfg_text=isa.cfg(invs=FORM_INVS, ops=FP_OPS + PAIR_OPS, gen="c04", tgts="c04", shapes=["lbl", "lblp"], bases=[0o1000, 0o157776]),
                     label="ISA forms: relative operands written as symbols", timeout=600, on_export=rp.add, workers=4))
    # decoder and table against each other on every 16-bit word
    jobs.append(dict(cfg_text=isa.cfg(mode="words", invs=["DecoderAgreesWithTable", "NoOverlap", "SynonymsShare", "AliasWithinParent",
                                                           "BaseClean", "NamesDistinct"]),
                     label="ISA words: range decoder vs table on 0..65535", timeout=600, workers=4))
    # mixed programs whose words depend on the addresses (simulation)
    jobs.append(dict(cfg_text=isa.cfg(mode="prog", ops=["*"], gen="all", vals="mid", tgts="full", dists="reach", bases=BASES, proglen=plen,
                                      invs=["TypeOK", "DecodeRecoversSource", "BranchReach", "RelLands", "AliasEncodes", "ImageDecodes",
                                            "ExportProg"]),
                     simulate=nprog, depth=plen * 10 + 5, seed=run.seed + 1, workers=1,
                     label=f"ISA prog: mixed programs of {plen} instructions (simulation)", timeout=1500))
    # programs over the mnemonics with an inline number only (the same mnemonic several times in one program), all written with
    # forward-referenced symbols
    jobs.append(dict(cfg_text=isa.cfg(mode="prog", ops=["emt", "sys", "trap", "mark", "xfc", "spl", "nop"], gen="all", vals="mid", tgts="full", dists="reach",
                                      bases=[0o1000], proglen=10,
                                      invs=["TypeOK", "DecodeRecoversSource", "ImageDecodes", "ExportProg"]),
                     simulate=(300 if thorough else 40), depth=10 * 10 + 5, seed=run.seed + 2, workers=1,
                     label="ISA prog: programs of 10 inline-number instructions (simulation)", timeout=900))
    results = isa.tlc_parallel(jobs)
    for res in results:
        run.add_tlc(res)
        if res.violated:
            run.violation(f"model: invariant {res.violated} violated in ISA.tla ({res.label})", {"tail": res.tail})
    sim, sim_inline = results[-2], results[-1]
    if len(rp.mnemonics) != 252:
        raise MachineryError(f"expected forms of 252 mnemonics, got {len(rp.mnemonics)}")
    rp.replay("C01 form")
    for base, items in rp.by_base.items():
        for it in items:
            run.add_nontrivial((base, it[0]))
    for rec, variant in rp.alone:
        run.add_nontrivial((rec["a"], rec["sh"], isa.render_alone(rec, variant)[0]))
    isa.trace_check(run, rp.trace_cases, "C01 form", "ISA trace: processor machine on the real words of the forms assembled alone")

    ptasks = [(rec, i + run.seed) for i, rec in enumerate(sim.exports)] + [(rec, 3 * (i + run.seed)) for i, rec in enumerate(sim_inline.exports)]
    for (rec, variant), bad in zip(ptasks, pmap(run_prog, ptasks)):
        if bad is not None:
            run.violation(f"C01 mixed program at {rec['base']:o}: outcome={bad[1]} first differing statement={bad[2]} exc={bad[3]} "
                          f"reports={bad[4]} image bytes={bad[5]} expected={bad[6]}",
                          {"outcome": bad[1], "first_difference": bad[2], "expected_image": rec["image"]}, files={"case.mac": bad[0]})
    run.add_eval(sum(len(r["ins"]) for r, _ in ptasks))
    for rec, variant in ptasks:
        run.add_nontrivial(("prog", render_prog(rec, variant)))
    run.note("mixed_programs", len(ptasks))
    run.note("mixed_program_instructions", sum(len(r["ins"]) for r, _ in ptasks))
    run.note("forms_per_format_class", dict(sorted(rp.per_fmt.items())))
    run.note("forms_predicted_accepted", rp.accept)
    run.note("forms_predicted_refused", rp.reject)
    run.note("mnemonics_covered", len(rp.mnemonics))
    run.note("link_bases", ["%o" % b for b in (BASES if thorough else [0o1000, 0o157776])])
    if rp.alone:
        rec, variant = rp.alone[len(rp.alone) // 2]
        run.sample({"source": isa.render_alone(rec, variant)[0], "predicted": isa.fmt_words(rec["w"]) if rec["ok"] else "refused"})
    for base, items in list(rp.by_base.items())[:2]:
        ln, w = items[len(items) // 3][:2]
        run.sample({"source": ln, "base": "%o" % base, "predicted": isa.fmt_words(w)})
    if ptasks:
        run.sample({"mixed_program_head": render_prog(ptasks[0][0], ptasks[0][1]).splitlines()[:6],
                    "predicted_image_head": isa.fmt_words(ptasks[0][0]["image"][:8])})
    run.exhaustive = thorough        # quick enumerates representatives x all mnemonics and all pairs for selected mnemonics
    run.assumptions += [
        "opcode table and field placement as in DESIGN.md Appendix A (authored from the PDP-11 handbooks; for the ten 1801VM2-only "
        "rows start step rd urd rdpc rdps uwr wrpc wrps medlsi/u3000 from the same public notes the assembler's author used: "
        "weaker independence, pinned regression oracle)",
        "emt/trap/sys accept -255..255 (pdpy11's documented rule for signed inline fields); for negative spellings only acceptance "
        "and the operation byte decide, the stored low byte is recorded",
        "an explicitly spelled (pc)+ / @(pc)+ followed by another operand's extension word is compared on the emitted words only "
        "(no decode round trip is claimed: the processor would consume the following operand's word)",
        "renderer maps abstract forms to source text (registers as rN / %N / sp / pc, octal and decimal numbers, @(rN) for @0(rN))",
    ]
    run.not_exercised.append("C->M re-decoding of the 21 corpus programs (optional; the exhaustive M->C product and the mixed programs carry the verdict)")
