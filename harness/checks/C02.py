"""C02  Addresses the program sees equal where its bytes land.

(D)    AsmCore.tla, LayoutAlphabet: TLC checks AddressAgreement / AnnouncedSizeHonest on every program it writes.
(M->C) every program (exhaustive up to the bound + simulated longer ones, 1-2 files, include, repeat, insert_file) is
       rendered and assembled by the real code at each base; image, base and every symbol value (read from the listing)
       must equal the specification's prediction; predicted rejections must be rejected.
(C->M) hook H1 traces of the 21 corpus programs and of generated programs are validated by LayoutTrace.tla.
"""
from ..asmcore import explore, replay_all, kinds_of, render
from ..drive import pmap
from . import layout_trace


def interesting(rec):
    return rec["ok"] and bool(kinds_of(rec) & {"blkb", "blkw", "even", "odd", "align", "dotset", "include", "repeat", "insert"})


def main(run):
    thorough = run.tier == "thorough"
    run.rule = ("programs written by TLC over LayoutAlphabet (instructions of 2/4/6 bytes, .byte/.word lists, .blkb with constant and "
                "symbolic counts, .even/.odd/.align, '. =' skips, .ascii, insert_file, .repeat, .include, labels, constants) at bases "
                "0o1000, 0o1001, 0o170000; non-trivial = accepted program containing a size-bearing directive whose size depends on a "
                "symbol or on the address, or a container (.repeat/.include/insert_file); distinct by abstract program")
    bases = [512, 513, 61440]
    recs, inc = explore(run, "LayoutAlphabet", "LayoutIncFiles", 4 if thorough else 3, 1, bases,
                        label="AsmCore layout exhaustive")
    tasks = replay_all(run, recs, inc, {"harness_link": True}, interesting)
    run.sample({"abstract": tasks[len(tasks) // 2][0]["files"], "predicted": tasks[len(tasks) // 2][0]["runs"][0]})
    recs2, inc2 = explore(run, "LayoutAlphabet", "LayoutIncFiles", 8, 2, bases, simulate=(2500 if thorough else 250), depth=17,
                          seed=run.seed + 7, label="AsmCore layout simulation (<= 8 stmts x 2 files)")
    tasks2 = replay_all(run, recs2, inc2, {"harness_link": True}, interesting)
    big = [t for t in tasks2 if t[0]["ok"] and sum(len(f) for f in t[0]["files"]) >= 6]
    if big:
        run.sample({"abstract": big[0][0]["files"], "predicted": big[0][0]["runs"][0]})
    run.note("exhaustive_bound_statements", 4 if thorough else 3)
    run.exhaustive = False
    # C->M: hook traces of the corpus and of generated accepted programs (preferring containers and symbolic sizes)
    pool = [t[0] for t in tasks2 + tasks if t[0]["ok"] and interesting(t[0])]
    pool = pool[:(3000 if thorough else 400)]
    gen_tasks = [render(r["files"], inc, 512) for r in pool]
    gen = list(zip(pmap(layout_trace.trace_generated, gen_tasks), [repr(srcs[0][1])[:120] for srcs, _ in gen_tasks]))
    layout_trace.validate(run, thorough, gen)
    run.assumptions += ["instruction encodings of the ten instruction forms used in AsmCore.tla are transcribed from the PDP-11 handbook",
                        "renderer harness/asmcore.py turns abstract statements into source text",
                        "hook H1 (PDPY11_VERIF=1) records statement/state/chunk without evaluating anything"]
