"""C03  Symbol values do not depend on definition order.

(D)    AsmCore.tla / OrderAlphabet with the MoveInvariant clause: for every program TLC writes (definition chains, diamonds,
       duplicates and cycles over a, b, c, d and labels l, m; uses as immediate, absolute, index, branch offset, .byte/.word,
       .blkb count, .align modulus, '. =' skip, inside .repeat), moving any constant definition that does not mention '.' to any
       other top-level position leaves outcome and image unchanged.  Chain.tla gives the value of c_n of a chain of n definitions.
(M->C) every placement TLC writes is a separate program with its own prediction: the real image / rejection must match for each,
       hence all placements of the same definitions agree.  Chains of depth 300 (additive) and 30 (through * / %) are written
       forward, backward and shuffled, used in .word, mov #, .blkb, .repeat count, .align, <n> in .ascii and .link position.
       Corpus: every top-level 'name = expr' (expr without '.' and without local labels) of the 21 practice programs is moved
       to random other top-level positions; the image must not change.
"""
import random

from ..asmcore import explore, explore_given, explore_replay, replay_all, kinds_of
from .. import gen as generators
from ..common import MachineryError
from ..drive import asm, mods, pmap
from .. import corpus
from ..tlc import run_tlc, require_ok


def nontrivial(rec):
    k = kinds_of(rec)
    n_const = sum(1 for f in rec["files"] for s in f if s["k"] == "const")
    return rec["ok"] and n_const >= 2 and bool(k - {"const", "label"})


# ------------------------------------------------------------------ chains
def chain_source(kind, n, order, use, rnd):
    defs = ["c0 = 5"]
    for i in range(1, n + 1):
        defs.append(f"c{i} = c{i - 1} + 3" if kind == "add" else f"c{i} = <<<c{i - 1} * 3> / 2> % 1000.> + 1")
    if order == "backward":
        defs.reverse()
    elif order == "shuffled":
        rnd.shuffle(defs)
    uses = {
        "word": f"\t.word c{n}",
        "imm": f"\tmov #c{n}, r0",
        "blkb": f"\t.blkb c{n}\n\t.byte 1",
        "repeat": f"\t.repeat c{n} {{ .byte 2 }}",
        "align": f"\t.byte 1\n\t.align c{n}\n\t.byte 3",
        "ascii": f"\t.ascii <c{n} % 200> \"x\"",
        "link": f"\t.link c{n}\n\t.byte 1",
    }
    body = uses[use]
    pos = rnd.randrange(3)
    parts = [body] + defs if pos == 0 else (defs + [body] if pos == 1 else defs[:len(defs) // 2] + [body] + defs[len(defs) // 2:])
    return "\n".join(parts) + "\n"


def literal_source(v, use):
    uses = {
        "word": f"\t.word {v}.",
        "imm": f"\tmov #{v}., r0",
        "blkb": f"\t.blkb {v}.\n\t.byte 1",
        "repeat": f"\t.repeat {v}. {{ .byte 2 }}",
        "align": f"\t.byte 1\n\t.align {v}.\n\t.byte 3",
        "ascii": f"\t.ascii <{v % 128}.> \"x\"",
        "link": f"\t.link {v}.\n\t.byte 1",
    }
    return uses[use] + "\n"


def run_chain(task):
    kind, n, v, order, use, seed = task
    rnd = random.Random(seed)
    src = chain_source(kind, n, order, use, rnd)
    r = asm([("chain.mac", src)], timeout=60)
    ref = asm([("lit.mac", literal_source(v, use))], timeout=60)
    if ref["outcome"] != "ok":
        raise MachineryError(f"literal reference program fails: {literal_source(v, use)!r} {ref['reports'][:2]}")
    if r["outcome"] == "ok" and r["code"] == ref["code"] and r["base"] == ref["base"]:
        if use != "word" or r["code"] == bytes([v % 256, v // 256]):
            return None
    return {"src": src, "kind": kind, "n": n, "v": v, "order": order, "use": use, "outcome": r["outcome"], "exc": r["exc"],
            "code": r["code"].hex() if r["code"] is not None else None, "ref": ref["code"].hex(), "reports": [x[1] for x in r["reports"]][:4]}


# ------------------------------------------------------------------ corpus moves
def movable_defs(path, text):
    """(start, end) spans of top-level `name = expr` statements whose expression mentions neither '.' nor a local symbol,
    and the start positions of all top-level statements before any .end (the repository's parser is used as a SITE FINDER only)."""
    m = mods()
    types_ = __import__("pdpy11.types", fromlist=["x"])
    sink = lambda *a: None
    with m["reports"].handle_reports(sink):
        f = m["parser"].parse(path, text)
    insns = f.body.insns
    starts, spans = [], []

    def bad(tok):
        if isinstance(tok, types_.InstructionPointer):
            return True
        if isinstance(tok, types_.Symbol) and tok.name[0].isdigit():
            return True
        for attr in ("lhs", "rhs", "operand", "expr", "value"):
            sub = getattr(tok, attr, None)
            if isinstance(sub, types_.Token) and bad(sub):
                return True
        return False

    for ins in insns:
        if isinstance(ins, types_.Instruction) and ins.name.name.lower() in (".end", "end"):
            break
        starts.append(ins.ctx_start.pos)
        if isinstance(ins, types_.Assignment) and isinstance(ins.target, types_.Symbol) and not bad(ins.value):
            seg = text[ins.ctx_start.pos:ins.ctx_end.pos]
            if "\n" not in seg:
                spans.append((ins.ctx_start.pos, ins.ctx_end.pos))
    return spans, starts


def corpus_moves(item):
    name, path, _, nmoves, seed = item
    text = open(path).read()
    base = asm([(path, text)], timeout=120)
    if base["outcome"] != "ok":
        return name, 0, [{"what": f"corpus program {name} does not assemble"}]
    try:
        spans, starts = movable_defs(path, text)
    except Exception as ex:  # parser API changed: not exercised, never a violation
        return name, -1, [f"site finder failed: {type(ex).__name__}: {ex}"]
    rnd = random.Random(seed)
    bad, done = [], 0
    if not spans or len(starts) < 2:
        return name, 0, []
    for _ in range(nmoves):
        a, b = spans[rnd.randrange(len(spans))]
        # a target statement start that is not inside the moved span and whose statement does not begin with an operator
        # character (an expression would otherwise continue across the line break into it)
        cands = [p for p in starts if not (a <= p < b) and text[p] not in "+-*/%^&|!<>_("]
        if not cands:
            continue
        tgt = cands[rnd.randrange(len(cands))]
        seg = text[a:b]
        if tgt > a:
            new = text[:a] + text[b:tgt] + seg + "\n" + text[tgt:]
        else:
            new = text[:tgt] + seg + "\n" + text[tgt:a] + text[b:]
        r = asm([(path, new)], timeout=120)
        done += 1
        if not (r["outcome"] == "ok" and r["code"] == base["code"] and r["base"] == base["base"]):
            bad.append({"what": f"moving {seg!r} of {name} from offset {a} to offset {tgt} changes the result: outcome={r['outcome']} "
                                f"exc={r['exc']} reports={[x[1] for x in r['reports'] if x[0] != 'warning'][:3]}",
                        "moved": seg, "from": a, "to": tgt, "source": new})
    return name, done, bad


def main(run):
    thorough = run.tier == "thorough"
    run.rule = ("(1) programs written by TLC over OrderAlphabet, every statement order being a separate program with its own predicted "
                "image; (2) chains from Chain.tla (additive to depth 300, non-linear to depth 30) x {forward, backward, shuffled} x 7 use "
                "positions; (3) corpus definitions moved to random positions; non-trivial = accepted program with >= 2 constant "
                "definitions and at least one use, chain case, or performed corpus move")
    tasks, inc = explore_replay(run, "OrderAlphabet", "LayoutIncFiles", 3, 1, [512], {"harness_link": True}, nontrivial, extra=("moves",),
                                label="AsmCore order, 1 file x 3 stmts (exhaustive, with MoveInvariant)", timeout=3000)
    t4, _ = explore_replay(run, "OrderCoreAlphabet", "LayoutIncFiles", 5 if thorough else 4, 1, [512], {"harness_link": True}, nontrivial,
                           extra=(("moves",) if thorough else ()),
                           label=f"AsmCore order core, all programs of <= {5 if thorough else 4} statements", timeout=6000)
    tasks += t4
    t5, _ = explore_replay(run, "OrderTwoAlphabet", "LayoutIncFiles", 3 if thorough else 2, 2, [512], {"harness_link": True}, nontrivial,
                           label=f"AsmCore order across 2 linked files x <= {3 if thorough else 2} stmts: an exported name also defined privately (exhaustive)", timeout=6000)
    tasks += t5
    t6, _ = explore_replay(run, "OrderErrAlphabet", "LayoutIncFiles", 4, 1, [512], {"harness_link": True}, lambda r: True,
                           label="AsmCore order, unused definitions whose value is an error or not (all programs of <= 4 statements)", timeout=3000)
    tasks += t6
    t7, _ = explore_replay(run, "LinkAliasAlphabet", "LayoutIncFiles", 4, 1, [512], {"harness_link": False}, nontrivial,
                           label="AsmCore order, chains of aliases used by the program's own .link, defined before or after the labels (all programs of <= 4 statements)", timeout=3000)
    tasks += t7
    recs2, inc2 = explore(run, "OrderAlphabet", "LayoutIncFiles", 7, 1, [512], simulate=(6000 if thorough else 700), depth=8,
                          seed=run.seed + 13, label="AsmCore order simulation (<= 7 stmts)")
    tasks += replay_all(run, recs2, inc2, {"harness_link": True}, nontrivial)
    rnd = random.Random(run.seed + 41)
    progs = [generators.lazy_program(rnd, own_link=False) for _ in range(3000 if thorough else 300)]
    recs3, inc3 = explore_given(run, progs, "LayoutIncFiles", [512], label=f"AsmCore given: {len(progs)} generated lazy-engine programs")
    tasks += replay_all(run, recs3, inc3, {"harness_link": True, "mid_link": True}, nontrivial)
    run.note("lazy_engine_programs", {"generated": len(progs), "accepted_by_spec": sum(1 for r in recs3 if r["ok"])})
    ex = [t for t in tasks if nontrivial(t[0])]
    if ex:
        run.sample({"abstract": ex[len(ex) // 2][0]["files"], "predicted": ex[len(ex) // 2][0]["runs"][0]})

    # chains
    vals = {}
    for kind, n in (("add", 300), ("nl", 30)):
        res = require_ok(run_tlc("Chain", cfg_text=f'SPECIFICATION Spec\nCONSTANTS MaxN = {n}\n Kind = "{kind}"\nINVARIANT Bounded\nINVARIANT Export\nCHECK_DEADLOCK FALSE\n',
                                 label=f"Chain {kind} depth {n}", workers=1))
        run.add_tlc(res)
        if res.violated:
            raise MachineryError(f"Chain.tla: {res.violated}")
        for r in res.exports:
            vals[(kind, r["i"])] = r["v"]
    ctasks = []
    depths = {"add": [1, 2, 3, 10, 100, 299, 300], "nl": [1, 2, 3, 5, 10, 29, 30]}
    if thorough:
        depths = {"add": list(range(1, 301, 7)) + [300], "nl": list(range(1, 31))}
    s = run.seed
    for kind, ds in depths.items():
        for n in ds:
            for order in ("forward", "backward", "shuffled"):
                for use in ("word", "imm", "blkb", "repeat", "align", "ascii", "link"):
                    s += 1
                    ctasks.append((kind, n, vals[(kind, n)], order, use, s))
    for t, bad in zip(ctasks, pmap(run_chain, ctasks)):
        run.add_eval()
        run.add_nontrivial(("chain",) + t[:5])
        if bad:
            run.violation(f"chain {bad['kind']} depth {bad['n']} ({bad['order']}, use {bad['use']}): expected value {bad['v']} / image {bad['ref']}, "
                          f"real outcome={bad['outcome']} code={bad['code']} exc={bad['exc']} {bad['reports']}", bad, files={"chain.mac": bad["src"]})
    run.note("chain_cases", len(ctasks))
    run.sample({"chain": "nl depth 30 backward", "predicted_c30": vals[("nl", 30)], "source_head": chain_source("nl", 30, "backward", "word", random.Random(1))[:200]})

    # corpus moves
    nm = 40 if thorough else 6
    items = [(n, p, None, nm, run.seed * 1000 + i) for i, (n, p, o) in enumerate(corpus.programs())]
    moves = 0
    for name, done, bad in pmap(corpus_moves, items, workers=8):
        if done == -1:
            run.not_exercised.append(f"corpus moves for {name}: {bad[0]}")
            continue
        moves += done
        run.add_eval(done)
        run.add_nontrivial(None, done)
        for b in bad:
            run.violation(b["what"], {k: v for k, v in b.items() if k != "source"}, files={"moved.mac": b.get("source", "")})
    run.note("corpus_moves_performed", moves)
    run.exhaustive = False
    run.assumptions += ["corpus definitions are located with the repository's own parser (site finder only; the oracle is 'image unchanged')",
                        "programs with a definition cycle are predicted 'error'; the real code hangs or raises on them (open known finding), "
                        "only a bounded number of them is replayed"]
