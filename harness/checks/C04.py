"""C04  Branches and PC-relative operands hit their target or are rejected.

spec/ISA.tla enumerates (a) every branch mnemonic x every byte distance -300..+300 from addr+2, (b) SOB x
every distance -140..+6, (c) relative / relative-deferred operands in first and second operand position,
next to operands with and without an extension word, x targets {0, 2, here, here+-2, 100000, 177776} x
link bases that make target - pc wrap, each x spelling shapes (label, label+-k, '.+-k', local label '1',
local label '1:', decimal '. + 10.', decimal number).  TLC checks BranchReach (encodable iff even and in
-256..+254, SOB -126..0; then the processor lands on the target), RelLands and DecodeRecoversSource on
every state and exports the predicted words or the predicted refusal.  The real assembler must accept
exactly the predicted-accept cases (refusal = outcome "error" with at least one error diagnostic), emit
the predicted words, and the specification's processor machine, run by TLC on the REAL words (mode
"trace"), must reach the address written in the source.
"""
from ..common import MachineryError
from .. import isa

REL_SHAPES = ["std", "dot", "dotdec", "dec", "lbl", "lblp", "lblm", "locc", "numlocc", "parlbl", "lblc", "plbl"]
REL_OPS_QUICK = ["mov", "cmpb", "clr", "jmp", "jsr", "mul", "push", "pop", "ldf", "stf", "tstd", "ldexp", "stexp"]
REL_OPS_FULL = REL_OPS_QUICK + ["add", "bisb", "sub", "tstb", "swab", "mtps", "xor", "ash", "div", "call", "callr", "ldd", "std", "cmpf",
                                "absf", "ldfps", "stfps", "stcdi", "ldcif", "ldcdf", "stcfd", "mfpi", "sxt"]
INVS = isa.DESIGN_INVS + ["ExportForm"]


def main(run):
    thorough = run.tier == "thorough"
    run.rule = ("one case = one state of ISA.tla's form graph: branch mnemonic x byte distance -300..+300, SOB x -140..+6, "
                "relative/relative-deferred operand x operand position x neighbour operand (0 or 1 preceding extension words) x target "
                "x link base, each x spelling shape, with TLC-predicted acceptance and words; non-trivial = distinct rendered programs "
                "assembled by the real code (accept <=> predicted accept, words equal, processor machine on the real words lands on "
                "the source target)")
    rp = isa.Replay(run, run.seed)
    jobs = []
    if thorough:
        bases_br = [0o1000, 0o157776, 0o100000]
        bases_rel = [0o1000, 0o157776, 0o77776, 0o177770, 0]
        jobs.append(dict(cfg_text=isa.cfg(invs=INVS, ops=isa.BRANCHES, gen="c04", dists="wide", shapes=isa.ALL_SHAPES, bases=bases_br),
                         label="ISA C04: every branch x every distance x every shape", timeout=1500, on_export=rp.add, workers=8, heap="8g"))
        jobs.append(dict(cfg_text=isa.cfg(invs=INVS, ops=["sob"], gen="c04", dists="wide", shapes=isa.ALL_SHAPES, bases=bases_br),
                         label="ISA C04: sob x every distance x every shape", timeout=900, on_export=rp.add, workers=2))
        jobs.append(dict(cfg_text=isa.cfg(invs=INVS, ops=REL_OPS_FULL, gen="c04", tgts="c04", shapes=REL_SHAPES, bases=bases_rel),
                         label="ISA C04: relative operands x position x target x base x shape", timeout=1500, on_export=rp.add, workers=6,
                         heap="8g"))
    else:
        bases_br = [0o1000, 0o157776]
        bases_rel = [0o1000, 0o157776, 0o77776]
        jobs.append(dict(cfg_text=isa.cfg(invs=INVS, ops=isa.BRANCHES, gen="c04", dists="wide", shapes=["dot"], bases=[0o1000]),
                         label="ISA C04: every branch x every distance ('.+k')", timeout=600, on_export=rp.add, workers=4))
        jobs.append(dict(cfg_text=isa.cfg(invs=INVS, ops=["bne", "bhis"], gen="c04", dists="wide",
                                          shapes=[s for s in isa.ALL_SHAPES if s != "dot"], bases=[0o157776]),
                         label="ISA C04: bne, bhis x every distance x every other shape", timeout=600, on_export=rp.add, workers=4))
        jobs.append(dict(cfg_text=isa.cfg(invs=INVS, ops=["sob"], gen="c04", dists="wide", shapes=isa.ALL_SHAPES, bases=bases_br),
                         label="ISA C04: sob x every distance x every shape", timeout=600, on_export=rp.add, workers=2))
        jobs.append(dict(cfg_text=isa.cfg(invs=INVS, ops=REL_OPS_QUICK, gen="c04", tgts="c04", shapes=REL_SHAPES, bases=bases_rel),
                         label="ISA C04: relative operands x position x target x base x shape", timeout=600, on_export=rp.add, workers=6))
    # the instruction itself at an ODD address (pdpy11 lets instructions stand anywhere): reach and parity are those of the DISTANCE
    jobs.append(dict(cfg_text=isa.cfg(invs=INVS, ops=(isa.BRANCHES + ["sob"]) if thorough else ["br", "bcs", "sob"], gen="c04", dists="wide",
                                      shapes=["dot", "lbl", "lblp"], bases=[0o1001] + ([0o157777] if thorough else [])),
                     label="ISA C04: branches and sob standing at an odd address x every distance", timeout=900, on_export=rp.add, workers=3))
    for res in isa.tlc_parallel(jobs):
        run.add_tlc(res)
        if res.violated:
            run.violation(f"model: invariant {res.violated} violated in ISA.tla ({res.label})", {"tail": res.tail})
    if not rp.alone:
        raise MachineryError("no C04 case exported")
    classes = {}
    for rec, variant in rp.alone:
        cls = "branch" if rec["fmt"] == "br" else ("sob" if rec["fmt"] == "sob" else "relative")
        key = f"{cls}:{'accept' if rec['ok'] else 'refuse'}"
        classes[key] = classes.get(key, 0) + 1
    for need in ("branch:accept", "branch:refuse", "sob:accept", "sob:refuse", "relative:accept"):
        if not classes.get(need):
            raise MachineryError(f"vacuous run: no case of class {need}")
    rp.replay("C04 case")
    for rec, variant in rp.alone:
        run.add_nontrivial(isa.render_alone(rec, variant)[0])
    isa.trace_check(run, rp.trace_cases, "C04 case", "ISA trace: processor machine on the real words of every accepted case")
    run.note("cases_per_class", dict(sorted(classes.items())))
    run.note("cases_per_shape", dict(sorted(rp.per_shape.items())))
    run.note("cases_per_format_class", dict(sorted(rp.per_fmt.items())))
    run.note("mnemonics", sorted(rp.mnemonics))
    run.note("link_bases_branches", ["%o" % b for b in bases_br])
    run.note("link_bases_relative", ["%o" % b for b in bases_rel])
    pick = {}
    for rec, variant in rp.alone:
        k = (rec["fmt"] in ("br", "sob"), rec["ok"], rec["sh"])
        if k not in pick and len(pick) < 6 and rec["sh"] not in [p[2] for p in pick]:
            pick[k] = (rec, variant)
    for rec, variant in pick.values():
        run.sample({"source": isa.render_alone(rec, variant)[0], "predicted": isa.fmt_words(rec["w"]) if rec["ok"] else "refused"})
    run.exhaustive = True
    run.note("exhaustive_over", "every branch mnemonic x every byte distance -300..+300; sob x every distance -140..+6; relative operand "
             "x position x neighbour x 7 targets x bases" + (" x every spelling shape" if thorough else
                                                             "; every spelling shape for bne, bhis, sob and the relative operands"))
    run.assumptions += [
        "reach derived in ISA.tla from the processor's semantics (a displacement field value exists) and stated as BranchReach: "
        "target - (addr+2) even and in -256..+254; SOB -126..0",
        "'.' in an operand is the address of the instruction's first word (MACRO-11 location counter)",
        "distances are measured without wrap-around (branch targets stay inside 0..177777 at the chosen bases)",
        "renderer lays out padding (.blkb) so that labels stand where the specification's label plan says",
    ]
