"""C05  Expression values follow the documented arithmetic.

spec/Expr.tla writes expressions one token per step.  Its state IS the shunting machine (operand /
operator stacks per open group); on every complete token string TLC compares the machine's value
with a recursive-descent reference evaluator written from the documented table (invariant
ShuntEqualsGrammar) and exports the string with the predicted value or "error".  BFS gives every
string up to k tokens, -simulate gives long ones (nesting up to 5 groups, 30+ tokens).

This module renders every exported string to '.dword <expr>' / '.word <expr>' and runs the real
assembler.  Operands are rendered (i) as literals in any spelling that Expr.tla's literal function
maps to the operand's value (modes "table" and "lit", invariants RespellPreservesValue / LitCaseSign),
(ii) as symbols defined before the use, (iii) as symbols defined after the use, (iv) address-valued:
labels at a known address under a link base that is only stated at the end of the source, symbols
defined as label differences (labels before / after), and '.' itself.  The image must hold exactly
the predicted value; a predicted error (8/9 in a bare number, division by zero, negative << >> count)
must make the assembly fail with at least one error diagnostic.

The renderer only chooses among spellings whose value the specification has computed; it never
evaluates an expression.  Strings whose value (or an intermediate) leaves (-2^30, 2^30) are outside
TLC's integers: they are exported as "skip", counted, and not replayed.  The same holds for a shift
whose operand is already erroneous (what the assembler computes after it has reported an error is
unspecified and a shift can make it astronomically large): counted separately, not replayed.
Programs with a predicted error or with '.' are assembled one expression per program; all others
200 lines per program (on a disagreement the lines are assembled one by one to localise it).
"""
import random
import re
import struct
import zlib
import time
from concurrent.futures import ThreadPoolExecutor
from collections import Counter

from ..common import MachineryError
from ..drive import asm, pmap
from ..tlc import run_tlc, require_ok

HIGH = re.compile(r"\{([0-9A-F]{2})\}")
INFIX = ["*", "/", "%", "+", "-", "<<", ">>", "_", "&", "^", "|", "!"]
PREFIX = ["+", "-", "~", "^C"]
BRACKETS = ["paren", "angle", "caret"]
ALL_OPERANDS = ["0", "1", "2", "3", "5", "7", "8.", "10.", "-1", "-7", "100", "0x10", "^B101", "'A", "dqAB", "^RA",
                "8", "19", "sym", "dot"]
CARET_DELIMS = "?[]\\{}=:$_|/<>"
SYM_V = 5

# labels of the address-valued renderings: a<k> / z<k> sit k bytes after the start of their block
LABEL_OFFS = [0, 1, 2, 3, 5, 7, 8]
BLOCK_LEN = 8


def label_block(p):
    return (f"{p}0: .blkb 1\n{p}1: .blkb 1\n{p}2: .blkb 1\n{p}3: .blkb 2\n{p}5: .blkb 2\n{p}7: .blkb 1\n{p}8:\n")


DIFF_PAIRS = {}
for _h in LABEL_OFFS:
    for _l in LABEL_OFFS:
        DIFF_PAIRS.setdefault(_h - _l, []).append((_h, _l))


def tla_set(xs):
    return "{" + ", ".join('"' + x.replace("\\", "\\\\").replace('"', '\\"') + '"' for x in xs) + "}"


def cfg(mode, invs, max_tok=0, max_depth=0, operands=(), infix=INFIX, prefix=PREFIX, brackets=BRACKETS, dot_v=8,
        max_digits=0, dq_chars="few"):
    return ("SPECIFICATION Spec\nCONSTANTS\n"
            f' Mode = "{mode}"\n MaxTok = {max_tok}\n MaxDepth = {max_depth}\n'
            f" Operands = {tla_set(operands)}\n Infix = {tla_set(infix)}\n Prefix = {tla_set(prefix)}\n"
            f" Brackets = {tla_set(brackets)}\n SymV = {SYM_V}\n DotV = {dot_v}\n MaxDigits = {max_digits}\n DqChars = \"{dq_chars}\"\n"
            + "".join(f"INVARIANT {i}\n" for i in invs) + "CHECK_DEADLOCK FALSE\n")


# the evaluators of Expr.tla recurse over the token string; TLC's interpreter needs a deeper Java stack for 30-40 tokens
JVM = {"JAVA_TOOL_OPTIONS": "-Xss64m"}
EXPR_INVS = ["TypeOK", "StackShape", "ShuntEqualsGrammar", "InWindow", "ExportExpr", "ExportWrapped"]


# ------------------------------------------------------------------------------------------ expected bytes

def dword_bytes(v):
    m = v % (1 << 32)
    return struct.pack("<HH", (m >> 16) & 0xFFFF, m & 0xFFFF)      # high word first, each word little-endian


def word_bytes(v):
    return struct.pack("<H", v % 65536)


# ------------------------------------------------------------------------------------------ rendering

class Renderer:
    """Abstract token string -> source text + the symbol definitions it needs."""

    def __init__(self, spell, opd):
        self.spell = spell      # value -> sorted list of literal texts the specification maps to that value
        self.opd = opd          # operand class -> {"txt": str, "st": "ok"|"err", "v": int}
        self.modes = Counter()

    def literal(self, cls, rnd):
        info = self.opd[cls]
        if info["st"] != "ok":
            return info["txt"]
        pool = self.spell.get(info["v"])
        if not pool or rnd.random() < 0.3:
            return info["txt"]
        return pool[rnd.randrange(len(pool))]

    def operand(self, cls, rnd, base0, force=None):
        """-> (text, {name: (place, definition text, label block needed or None)})
        force="pending": the operand is written as something that is not yet known when the expression is first evaluated (a symbol
        defined further down, a difference of labels or of label aliases that follow), wherever its class allows it"""
        if cls == "dot":
            self.modes["dot"] += 1
            return ".", {}
        if cls == "sym":
            v, ok, tag = SYM_V, True, str(SYM_V)
            modes = ["SB", "SA", "AB", "AA", "EA"]
            lit = self.spell[SYM_V][rnd.randrange(len(self.spell[SYM_V]))]
        else:
            info = self.opd[cls]
            ok, v = info["st"] == "ok", info["v"]
            lit = self.literal(cls, rnd)
            if ok:
                tag = str(v) if v >= 0 else "m" + str(-v)
                modes = ["L", "L", "L", "L", "SB", "SA", "HS"]
                if -8 <= v <= 8:
                    modes += ["AB", "AA", "EA"]
                if base0 and v in LABEL_OFFS:
                    modes += ["LB", "LB"]
            else:
                tag = "x" + "".join(ch for ch in info["txt"] if ch.isalnum())
                modes = ["L", "L", "SB", "SA"]
        if force == "pending" and any(m_ in ("SA", "AA", "EA") for m_ in modes):
            modes = [m_ for m_ in modes if m_ in ("SA", "AA", "EA")]
        mode = modes[rnd.randrange(len(modes))]
        self.modes[mode] += 1
        if mode == "L":
            return lit, {}
        if mode == "HS":
            # a HELD SUM: hs = hp + hq, with hp = hx + 1 and hq = hy + 1 written above their own dependencies; hx = -2 stands above
            # the use and hy = <the value> below it, so the sum is first looked at when one half is computable and the other is not
            n = "hs" + tag
            return n, {n + "a": ("before", f"{n}p = {n}x + 1", None), n + "b": ("before", f"{n}q = {n}y + 1", None),
                       n + "c": ("before", f"{n} = {n}p + {n}q", None), n + "d": ("before", f"{n}x = -2", None),
                       n + "e": ("after", f"{n}y = {lit}", None)}
        if mode == "SB":
            return "vb" + tag, {"vb" + tag: ("before", f"vb{tag} = {lit}", None)}
        if mode == "SA":
            return "va" + tag, {"va" + tag: ("after", f"va{tag} = {lit}", None)}
        if mode == "LB":
            return f"a{v}", {f"a{v}": ("label", "", "a")}
        hi, lo = DIFF_PAIRS[v][rnd.randrange(len(DIFF_PAIRS[v]))]
        if mode == "EA":
            # two aliases of addresses, each defined BEFORE the label it names (the labels follow the data), subtracted at the use
            return f"< ez{hi} - ez{lo} >", {f"ez{hi}": ("before", f"ez{hi} = z{hi}", "z"), f"ez{lo}": ("before", f"ez{lo} = z{lo}", "z")}
        if mode == "AB":
            name = f"db{tag}h{hi}l{lo}"
            return name, {name: ("before", f"{name} = a{hi} - a{lo}", "a")}
        name = f"da{tag}h{hi}l{lo}"
        return name, {name: ("after", f"{name} = z{hi} - z{lo}", "z")}

    def expr(self, toks, rnd, base0, force=None):
        """toks: exported token texts.  -> (text, needs)"""
        needs = {}
        stack = [[]]           # pieces of the open groups
        styles = []
        for t in toks:
            if t[0] == "#":
                text, nd = self.operand(t[1:], rnd, base0, force)
                needs.update(nd)
                stack[-1].append(("opd", text))
            elif t[0] == "p":
                op = t[1:]
                if op == "^C" and rnd.random() < 0.5:
                    op = "^c"
                stack[-1].append(("pre", op))
            elif t[0] == "[":
                stack.append([])
                styles.append(t[1:])
            elif t[0] == "]":
                inner = self.join(stack.pop(), rnd)
                style = styles.pop()
                if style == "paren":
                    text = "(" + self.pad(rnd) + inner + self.pad(rnd) + ")"
                elif style == "angle":
                    text = "< " + inner + " >"          # '> >' must never be glued to '>>'
                else:
                    free = [d for d in CARET_DELIMS if d not in inner]
                    if not free:      # every delimiter occurs inside: cannot be written in this style
                        raise MachineryError("no caret delimiter free for " + inner)
                    d = free[rnd.randrange(len(free))]
                    text = "^" + d + " " + inner + " " + d
                stack[-1].append(("opd", text))
            else:
                stack[-1].append(("inf", t))
        return self.join(stack[0], rnd), needs

    @staticmethod
    def pad(rnd):
        return " " if rnd.random() < 0.5 else ""

    @staticmethod
    def join(pieces, rnd):
        out = ""
        for i, (kind, text) in enumerate(pieces):
            if i == 0:
                out = text
            elif pieces[i - 1][0] == "pre" and text[0] not in "+-^~" and (text[0].isalnum() or text[0] in "(<'\".") \
                    and rnd.random() < 0.4:
                out += text                      # '^C5', '-(', '~vb3'
            else:
                out += " " + text
        return out


# ------------------------------------------------------------------------------------------ programs

def build_program(items, link_pos, base_spec, omit_default_link=False):
    """items: [(directive, expr text, needs, expect)]; expect = bytes or None (error predicted).
    base_spec = ("base", b): link base b (b = 0 makes the labels a<k> have the absolute value k), or
    ("dot", v): the base that gives '.' the value v at the (single) data line.
    -> (source, expected image or None, base)."""
    needs = {}
    for it in items:
        needs.update(it[2])
    use_a = any(n[2] == "a" for n in needs.values())
    use_z = any(n[2] == "z" for n in needs.values())
    pre_len = BLOCK_LEN if use_a else 0
    if base_spec[0] == "dot":
        assert len(items) == 1
        base = base_spec[1] - pre_len
    else:
        base = base_spec[1]
    link = f".link {base:o}\n"
    if base == 0o1000 and omit_default_link:
        link = ""
    src = link if link_pos == "top" else ""
    if use_a:
        src += label_block("a")
    for name in sorted(needs):
        if needs[name][0] == "before":
            src += needs[name][1] + "\n"
    for it in items:
        src += f"{it[0]} {it[1]}\n"
    for name in sorted(needs):
        if needs[name][0] == "after":
            src += needs[name][1] + "\n"
    if use_z:
        src += label_block("z")
    if link_pos != "top":
        src += link
    if any(it[3] is None for it in items):
        return src, None, base
    image = bytes(pre_len) + b"".join(it[3] for it in items) + bytes(BLOCK_LEN if use_z else 0)
    return src, image, base


def judge(src, image, base):
    """Run the real assembler.  -> None if it behaves as predicted, else a description.
    Only the image / the refusal decide (the link base itself is C12's observable)."""
    r = asm([("expr.mac", src)], timeout=20)
    if image is None:
        good = r["outcome"] == "error" and r["n_err"] >= 1
    else:
        good = r["outcome"] == "ok" and r["code"] == image
    if good:
        return None
    return {"outcome": r["outcome"], "code": r["code"].hex() if r["code"] is not None else None, "base": r["base"],
            "exc": r["exc"], "reports": [x[:2] for x in r["reports"]][:6], "n_err": r["n_err"]}


RENDERER = None      # set in the parent before the pool forks; the workers render and assemble


def render_item(rec, seed, base0):
    """rec = (tokens, st, v, serial) or ("lit", text, st, v).  -> item (directive, text, needs, expected bytes or None)"""
    if rec[0] == "lit":
        _, text, st, v = rec
        return (".dword", text, {}, dword_bytes(v) if st == "ok" else None)
    toks, st, v, serial = rec[:4]
    rnd = random.Random(seed * 1000003 + serial)
    force = rec[4] if len(rec) > 4 else None
    text, needs = RENDERER.expr(toks, rnd, base0, "pending" if force else None)
    if force == "pending-unused":
        return (f"uq{serial} =", text, needs, None)      # a definition nobody uses: its error is due all the same
    if st != "ok":
        return (".dword", text, needs, None)
    if -32768 <= v <= 65535 and rnd.random() < 0.25:
        return (".word", text, needs, word_bytes(v))
    return (".dword", text, needs, dword_bytes(v))


def run_program(items, link_pos, base_spec, omit):
    """Batch first; on any disagreement every line alone.  -> list of failures"""
    src, image, base = build_program(items, link_pos, base_spec, omit)
    bad = judge(src, image, base)
    if bad is None:
        return []
    if len(items) == 1:
        return [(items[0][:2], src, image.hex() if image is not None else None, bad)]
    out = []
    for it in items:
        s1, im1, b1 = build_program([it], link_pos, base_spec, omit)
        b = judge(s1, im1, b1)
        if b is not None:
            out.append((it[:2], s1, im1.hex() if im1 is not None else None, b))
            if len(out) >= 3:        # enough to show; a wrong tree fails in thousands of lines
                break
    if not out:
        out.append((("<batch only>", ""), src, image.hex() if image is not None else None, bad))
    return out


def run_task(task):
    """task = (kind, seed, programs); a program = (records, link_pos, base_spec, omit, base0).
    kind "batch": one program of many records; kind "single": many programs of one record each.
    -> (failures, rendering-mode counts, rendered lines)"""
    _kind, seed, programs = task
    RENDERER.modes = Counter()
    fails, lines = [], []
    for recs, link_pos, base_spec, omit, base0 in programs:
        items = [render_item(rec, seed, base0) for rec in recs]
        for it, rec in zip(items, recs):
            lines.append(it[0] + " " + it[1])
        for f in run_program(items, link_pos, base_spec, omit):
            toks = None
            for it, rec in zip(items, recs):
                if it[:2] == f[0] and rec[0] != "lit":
                    toks = list(rec[0])
            fails.append(f + (toks,))
    return fails, dict(RENDERER.modes), lines


class Replayer:
    """Collects exported cases, renders and runs them in chunks (in the workers), reports disagreements."""

    BATCH = 200
    CHUNK = 200000

    def __init__(self, run, renderer):
        global RENDERER
        RENDERER = renderer
        self.run = run
        self.r = renderer
        self.batch = []            # records with a predicted value and no '.': many per program
        self.single = []           # (record, dot value or None): one program each (predicted error, or '.' inside)
        self.n = Counter()
        self.modes = Counter()
        self.serial = 0

    def pending(self):
        return len(self.batch) + len(self.single)

    def add_expr(self, rec, dot_v, variants=1):
        st = rec["st"]
        toks = rec["t"]
        self.n["exported"] += 1
        self.n["st_" + st] += 1
        if st == "skip":
            self.n["skip_reason_%d" % rec["v"]] += 1
            return
        if st == "err":
            self.n["err_reason_%d" % rec["v"]] += 1
        ntok = len(toks)
        if ntok > self.n["max_tokens"]:
            self.n["max_tokens"] = ntok
        depth = d = 0
        for t in toks:
            c = t[0]
            if c == "[":
                d += 1
                depth = max(depth, d)
                self.n["bracket_" + t[1:]] += 1
            elif c == "]":
                d -= 1
            elif c == "p":
                self.n["prefix_" + t[1:]] += 1
            elif c != "#":
                self.n["infix_" + t] += 1
        self.n["depth_%d" % depth] += 1
        has_dot = "#dot" in toks
        for vi in range(variants):
            self.serial += 1
            # the rendering choices are a function of the token string (TLC's workers export in a run-dependent order)
            r = (tuple(toks), st, rec["v"], (zlib.crc32(" ".join(toks).encode()) & 0x3FFFFFF) * 4 + vi % 4)
            if st == "ok" and not has_dot:
                self.batch.append(r)
            else:
                self.single.append((r, dot_v if has_dot else None))
                if st == "err" and not has_dot and ntok <= 11:
                    # an error must be reported also when its operands are still unknown at the first evaluation (and whatever the
                    # rest of the expression does with the erroneous value, e.g. multiply it by zero)
                    self.single.append((r + ("pending",), None))
                    self.single.append((r + ("pending-unused",), None))
                    self.n["error_cases_with_pending_operands"] += 2
        if st == "err" and self.n["sampled_err"] < 2 and ntok >= 3:
            self.n["sampled_err"] += 1
            self.sample(r, "error")
        elif st == "ok" and ntok >= 9 and depth >= 2 and self.n["sampled_ok"] < 3:
            self.n["sampled_ok"] += 1
            self.sample(r, rec["v"])
        if self.pending() >= self.CHUNK:
            self.flush()

    def sample(self, r, predicted):
        it = render_item(r, self.run.seed, False)
        self.run.sample({"tokens": list(r[0]), "source": it[0] + " " + it[1],
                         "definitions": sorted(n[1] for n in it[2].values() if n[1]), "predicted": predicted})

    def add_literal(self, rec, seen):
        """a literal written by Expr.tla (modes 'lit' and 'table'): '.dword <text>'"""
        text = HIGH.sub(lambda m_: bytes([int(m_.group(1), 16)]).decode("bk"), "".join(rec["txt"]))    # {XX}: the character of byte XX
        if text in seen:
            return
        seen.add(text)
        self.n["literals"] += 1
        self.n["literal_style_" + rec["style"]] += 1
        if rec["st"] == "ok":
            self.batch.append(("lit", text, "ok", rec["v"]))
        elif rec["st"] == "err":
            self.n["literals_error_predicted"] += 1
            self.single.append((("lit", text, "err", 0), None))
        else:
            self.n["literals_skipped_outside_window"] += 1

    def flush(self):
        if not self.pending():
            return
        seed = self.run.seed
        tasks = []
        self.batch.sort(key=lambda r: (r[0] == "lit", r[3] if r[0] != "lit" else 0, repr(r[:2])))
        self.single.sort(key=lambda x: (x[0][0] == "lit", x[0][3] if x[0][0] != "lit" else 0, repr(x[0][:2]), len(x[0])))
        for i in range(0, len(self.batch), self.BATCH):
            recs = self.batch[i:i + self.BATCH]
            rnd = random.Random(seed * 7919 + zlib.crc32(repr(recs[0][:2]).encode()))
            link_pos = "top" if rnd.random() < 0.3 else "end"
            if rnd.random() < 0.6:       # 'a' block at address 0: labels a<k> have the absolute value k
                prog = (recs, link_pos, ("base", 0), True, True)
            else:
                prog = (recs, link_pos, ("base", (0o1000, 0o1000, 0o2000, 0o60000)[rnd.randrange(4)]), rnd.random() < 0.7, False)
            tasks.append(("batch", seed, [prog]))
        progs = []
        for r, dot_v in self.single:
            rnd = random.Random(seed * 7919 + zlib.crc32(repr(r[:2]).encode()) + len(r))
            link_pos = "top" if rnd.random() < 0.4 else "end"
            if len(r) > 4:
                progs.append(([r], ("top", "end")[r[3] % 2], ("base", 0o1000), False, False))
            elif dot_v is not None:
                progs.append(([r], link_pos, ("dot", dot_v), rnd.random() < 0.5, dot_v == BLOCK_LEN))
            elif rnd.random() < 0.5:
                progs.append(([r], link_pos, ("base", 0), True, True))
            else:
                progs.append(([r], link_pos, ("base", (0o1000, 0o2000, 6)[rnd.randrange(3)]), rnd.random() < 0.5, False))
        for i in range(0, len(progs), 100):
            tasks.append(("single", seed, progs[i:i + 100]))
        self.n["programs_assembled"] += (len(self.batch) + self.BATCH - 1) // self.BATCH + len(progs)
        n_items = self.pending()
        t0 = time.time()
        results = pmap(run_task, tasks, chunksize=1)
        self.n["replay_wall_ms"] += int(1000 * (time.time() - t0))
        for fails, modes, lines in results:
            self.modes.update(modes)
            for ln in lines:
                self.run.add_nontrivial(ln)
            for it, src, image, bad, toks in fails:
                self.n["disagreements"] += 1
                want = "an error" if image is None else f"image {image}"
                self.run.violation(
                    f"expression: '{it[0]} {it[1]}' predicted {want}; real assembler: outcome={bad['outcome']} "
                    f"code={bad['code']} base={bad['base']} exc={bad['exc']} reports={bad['reports']}",
                    {"line": f"{it[0]} {it[1]}", "tokens": toks, "predicted_image": image, "real": bad, "source": src},
                    files={"case.mac": src})
        self.run.add_eval(n_items)
        self.batch, self.single = [], []


# ------------------------------------------------------------------------------------------ main

def law_case(task):
    src, want = task
    r = asm([("law.mac", src)], timeout=10)
    if r["outcome"] == "ok" and r["code"] == want:
        return None
    return (src, want.hex(), r["outcome"], r["code"].hex() if r["code"] is not None else None, r["exc"], [x[1] for x in r["reports"]][:4])


def big_number_laws(run):
    """ArithLaws.tla: TLC checks the division/modulo/shift laws on a small grid; each law is then written as an expression over
    big literals (beyond 2^53 and 2^64, out of reach of TLC's integers) whose value is 0 or 1 by the law, and assembled."""
    res = require_ok(run_tlc("ArithLaws", cfg_text="SPECIFICATION Spec\nINVARIANT Laws\nINVARIANT Export\nCHECK_DEADLOCK FALSE\n", workers=1, label="ArithLaws (grid)"))
    run.add_tlc(res)
    if res.violated:
        run.violation(f"model: ArithLaws {res.violated}", {"tail": res.tail})
        return
    rec = res.exports[0]
    tasks = []
    zero, one = b"\x00\x00", b"\x01\x00"
    def g(x):                       # a group; closers are never glued ('>>' would be the shift operator)
        return "<" + x + " >"
    for a in rec["bigs"]:
        for sa in ("", "-"):
            A = g(f"{sa}{a}.")
            for b in rec["divs"]:
                for sb in ("", "-"):
                    B = g(f"{sb}{b}.")
                    tasks.append(("\t.word " + g(g(g(f"{A} / {B}") + f" * {B}") + " + " + g(f"{A} % {B}")) + f" - {A}\n", zero))     # (a/b)*b + a%b = a
                    rng = g(g(f"{A} % {B}") + f" + {b}.") + f" / {b}." if sb == "" else g(f"{b}. - " + g(f"{A} % {B}")) + f" / {b}."
                    tasks.append((f"\t.word {rng}\n", one))                       # 0 <= a%b < b (b > 0),  b < a%b <= 0 (b < 0)
            for k in (1, 13, 40):
                tasks.append(("\t.word " + g(g(f"{A} << {k}.") + f" >> {k}.") + f" - {A}\n", zero))                                 # (a << k) >> k = a
                tasks.append(("\t.word " + g(f"{A} << {k}.") + " - " + g(f"{A} * " + g(f"1 << {k}.")) + "\n", zero))               # a << k = a * 2^k
                tasks.append(("\t.word " + g(f"{A} _ {k}.") + " - " + g(f"{A} << {k}.") + "\n", zero))
    for t, bad in zip(tasks, pmap(law_case, tasks)):
        run.add_eval()
        run.add_nontrivial(("law", t[0]))
        if bad:
            run.violation(f"big-number law: {bad[0].strip()!r} must assemble to {bad[1]}; real assembler: outcome={bad[2]} code={bad[3]} exc={bad[4]} {bad[5]}",
                          {"source": bad[0], "expected": bad[1], "outcome": bad[2], "code": bad[3]}, files={"law.mac": bad[0]})
    run.note("big_number_law_cases", len(tasks))
    run.sample({"law": "(a/b)*b + a%b = a", "source": tasks[0][0].strip(), "expected_word": 0})


def main(run):
    thorough = run.tier == "thorough"
    run.rule = ("every complete token string written by Expr.tla (BFS: all strings up to the stated number of tokens over "
                "the stated operand classes, all 12 infix and 4 prefix operators, 3 bracket styles; simulation: long strings, "
                "nesting <= 5) whose predicted outcome is a value inside (-2^30, 2^30) or an error, rendered as a '.dword'/'.word' "
                "line with a seeded choice of operand renderings (literal respelling, symbol before/after, label, "
                "label-difference symbol before/after, '.'); plus every literal text of modes 'lit'/'table'; "
                "non-trivial = distinct rendered source lines, each with a predicted image or a predicted refusal")

    # ---- the TLC jobs
    small = ["0", "1", "2", "3", "7", "8.", "-1", "-7", "sym"]        # sym has the value 5
    if not thorough:
        nd = 3
        bfs = [("all strings <= 5 tokens, 9 operand classes", dict(max_tok=5, max_depth=2, operands=small), 8),
               ("all strings <= 4 tokens, all 20 operand classes", dict(max_tok=4, max_depth=2, operands=ALL_OPERANDS), 8)]
        sims = [(100, 30, 5, ["0", "1", "2", "3", "5", "7", "8.", "-1", "-7", "sym", "dot", "'A", "0x10"], INFIX, 512),
                (100, 24, 5, ["1", "3", "-7", "sym", "dot"], ["*", "/", "-", "<<", "&", "|"], 8),
                (100, 24, 5, ["2", "5", "-1", "10.", "^RA"], ["%", "+", ">>", "_", "^", "!"], 8)]
    else:
        nd = 4
        bfs = [("all strings <= 5 tokens, all 20 operand classes", dict(max_tok=5, max_depth=2, operands=ALL_OPERANDS), 8),
               ("all strings <= 6 tokens, operand classes {0, 2, 8., -1, -7, sym, dot}",
                dict(max_tok=6, max_depth=3, operands=["0", "2", "8.", "-1", "-7", "sym", "dot"]), 512),
               ("all strings <= 7 tokens, operand classes {1, 3, -7, sym}",
                dict(max_tok=7, max_depth=3, operands=["1", "3", "-7", "sym"]), 8)]
        sims = [(1200, 34, 5, ["0", "1", "2", "3", "5", "7", "8.", "-1", "-7", "sym", "dot", "'A", "0x10"], INFIX, 512),
                (1200, 26, 5, ["1", "3", "-7", "sym", "dot"], ["*", "/", "-", "<<", "&", "|"], 8),
                (1200, 26, 5, ["2", "5", "-1", "10.", "^RA"], ["%", "+", ">>", "_", "^", "!"], 8),
                (500, 40, 5, [c for c in ALL_OPERANDS if c not in ("8", "19")], INFIX, 8)]
    setup = [
        dict(cfg_text=cfg("table", ["RespellPreservesValue", "ExportTable"]), workers=2, timeout=300,
             label="Expr literal table: values x 9 radix styles x leading zero x case"),
        dict(cfg_text=cfg("lit", ["LitCaseSign", "ExportLit"], max_digits=nd, dq_chars="all" if thorough else "few"), workers=4, timeout=600,
             label=f"Expr literals written digit by digit (<= {nd} digits, hex <= {nd - 1}; every 'c, \"cc over {'all' if thorough else 'a few'} characters, ^R <= 3 chars)"),
        dict(cfg_text=cfg("expr", ["ExportOperands"], max_tok=1, operands=ALL_OPERANDS), workers=1, timeout=300,
             label="Expr operand classes"),
    ]
    jobs = []       # (kind, label, dot value, run_tlc kwargs)
    for label, ck, dot_v in bfs:
        jobs.append(("bfs", label, dot_v,
                     dict(cfg_text=cfg("expr", EXPR_INVS, dot_v=dot_v, **ck), label="Expr " + label,
                          timeout=3000 if thorough else 300, heap="8g" if thorough else "4g")))
    for i, (num, max_tok, max_depth, operands, infix, dot_v) in enumerate(sims):
        jobs.append(("sim", f"simulation {i + 1}", dot_v,
                     dict(cfg_text=cfg("expr", EXPR_INVS, max_tok=max_tok, max_depth=max_depth, operands=operands, infix=infix,
                                       dot_v=dot_v),
                          simulate=num, depth=max_tok + 1, seed=run.seed + 11 + i, workers=1, timeout=1500 if thorough else 300,
                          label=f"Expr simulation {i + 1}: {num} walks, <= {max_tok} tokens, nesting <= {max_depth}")))

    # quick: all TLC runs at once (threads only wait for the JVMs; they are joined before any worker pool forks),
    # exports kept in memory.  thorough: one after the other, exports streamed into the replayer.
    done = {}
    if not thorough:
        with ThreadPoolExecutor(max_workers=len(setup) + len(jobs)) as ex:
            futs = [ex.submit(run_tlc, "Expr", env=JVM, **kw) for kw in setup + [j[3] for j in jobs]]
            results = [f.result() for f in futs]
        setup_res = results[:len(setup)]
        for j, res in zip(jobs, results[len(setup):]):
            done[j[1]] = res
    else:
        setup_res = [run_tlc("Expr", env=JVM, **kw) for kw in setup]
    tab, lit, ot = [require_ok(r) for r in setup_res]

    # ---- literals: respelling table (exhaustive over values x styles x padding x case) and digit-by-digit literals
    for res, mode in ((tab, "table"), (lit, "lit")):
        run.add_tlc(res)
        if res.violated:
            run.violation(f"model: invariant {res.violated} violated in Expr.tla ({mode} mode)", {"tail": res.tail})
    if not tab.exports or not lit.exports:
        raise MachineryError("no literal exports from Expr.tla")
    spell = {}
    for rec in tab.exports + lit.exports:
        if rec["st"] == "ok":
            spell.setdefault(rec["v"], set()).add("".join(rec["txt"]))
    spell = {v: sorted(s) for v, s in spell.items()}
    for rec in tab.exports:
        if rec["st"] != "ok" or rec["v"] != rec["want"]:
            run.violation(f"model: table spelling {''.join(rec['txt'])} of {rec['want']} reads as {rec['st']} {rec['v']}", rec)
    run.note("table_values", sorted({r["want"] for r in tab.exports}))
    run.note("table_spellings", len(tab.exports))
    # the operand classes (text, value / error) as Expr.tla reads them
    opd = {rec["c"]: {"txt": "".join(rec["txt"]), "st": rec["st"], "v": rec["v"]} for rec in ot.exports if rec.get("m") == "opd"}
    if set(opd) != set(ALL_OPERANDS) - {"sym", "dot"}:
        raise MachineryError(f"operand table incomplete: {sorted(opd)}")
    run.note("operand_classes", {c: (o["v"] if o["st"] == "ok" else "error") for c, o in opd.items()})
    rep = Replayer(run, Renderer(spell, opd))

    # ---- expressions
    all_exhaustive = True
    sim_seen = set()
    for kind, label, dot_v, kw in jobs:
        n0 = rep.n["exported"]

        def consume(rec, d=dot_v, kind=kind):
            if kind == "sim":
                key = (tuple(rec["t"]), d)
                if key in sim_seen:
                    return
                sim_seen.add(key)
            rep.add_expr(rec, d, 1)

        if label in done:
            res = done.pop(label)
            for rec in res.exports:
                consume(rec)
            res.exports = []
        else:
            res = run_tlc("Expr", env=JVM, on_export=consume, **kw)
        require_ok(res)
        run.add_tlc(res)
        if res.violated:
            run.violation(f"model: invariant {res.violated} violated in Expr.tla ({label})", {"tail": res.tail})
            all_exhaustive = False
        run.note("strings: " + label + (" (distinct)" if kind == "sim" else ""), rep.n["exported"] - n0)
        if kind == "bfs":
            rep.flush()
    rep.flush()

    # ---- literal texts themselves
    seen = set()
    for rec in tab.exports + lit.exports:
        rep.add_literal(rec, seen)
    rep.flush()

    n = rep.n
    run.note("expressions_exported", n["exported"])
    run.note("predicted_value", n["st_ok"])
    run.note("predicted_error", n["st_err"])
    run.note("predicted_error_by_cause", {"bare 8/9": n["err_reason_1"], "division by zero": n["err_reason_2"],
                                          "negative shift count": n["err_reason_3"]})
    run.note("skipped_outside_tlc_window", n["skip_reason_0"])
    run.note("skipped_shift_of_erroneous_operand", n["skip_reason_1"])
    run.note("max_tokens", n["max_tokens"])
    run.note("by_nesting_depth", {k[6:]: v for k, v in sorted(n.items()) if k.startswith("depth_")})
    run.note("infix_uses", {k[6:]: v for k, v in sorted(n.items()) if k.startswith("infix_")})
    run.note("prefix_uses", {k[7:]: v for k, v in sorted(n.items()) if k.startswith("prefix_")})
    run.note("bracket_uses", {k[8:]: v for k, v in sorted(n.items()) if k.startswith("bracket_")})
    run.note("operand_renderings", dict(rep.modes))
    run.note("literal_texts", n["literals"])
    run.note("literal_texts_by_style", {k[14:]: v for k, v in sorted(n.items()) if k.startswith("literal_style_")})
    run.note("literal_errors_predicted", n["literals_error_predicted"])
    run.note("programs_assembled", n["programs_assembled"])
    run.note("replay_wall_s", round(n["replay_wall_ms"] / 1000, 1))
    run.note("disagreements", n["disagreements"])
    # vacuity: every operator, bracket style, rendering and error cause must have occurred
    missing = [op for op in INFIX if not n["infix_" + op]] + [op for op in PREFIX if not n["prefix_" + op]] \
        + [b for b in BRACKETS if not n["bracket_" + b]] + [c for c in (1, 2, 3) if not n["err_reason_%d" % c]] \
        + [m for m in ("L", "SB", "SA", "AB", "AA", "LB", "dot") if not rep.modes[m]]
    if missing:
        raise MachineryError(f"vacuous run: never exercised {missing}")
    big_number_laws(run)
    run.exhaustive = all_exhaustive
    run.assumptions += [
        "Expr.tla's table of precedence levels, associativity and operator meanings is the documented one (authored from the "
        "property statement, not from operators.py)",
        "the renderer maps tokens to text (spacing, caret delimiter not occurring inside the group, '> >' never glued) and "
        "picks operand spellings only among texts whose value Expr.tla computed",
        "'.dword' stores the high word first, each word little-endian; '.blkb' emits zero bytes (C06/C02 decide those)",
        "values or intermediates outside (-2^30, 2^30) are not predicted (counted in skipped_outside_tlc_window)",
    ]
