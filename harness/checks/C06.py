"""C06  Data directives store exactly the stated value or refuse.

spec/Data.tla is the oracle: a machine whose steps compile one data directive each (state = base,
charset, address, image bytes, outcome).  TLC enumerates, per mode,
  store   every store form (.byte .db .word .dw implicit-list .dword) x operand lists of 0..8 operands
          built from the boundary grid {0, +-1, +-(2^n-1), +-2^n, +-(2^n+1)} (n = 8, 16, 32) and the
          sign-bit neighbourhood, at an even and an odd base; .blkb/.blkw x {-1, 0, 1, 3, 64};
  seq     every sequence of <= 3 directives over a 16-statement alphabet at both bases (thorough: 25 statements,
          also under utf-8; <= 4 over the 16; simulated sequences of 8);
  align   .align 1..64 / .even / .odd at 65 consecutive bases (every residue of every modulus), followed by a word;
  ops     operand lists grown one operand at a time (BFS to 2, simulation to 8);
  string  .ascii/.asciz item strings (characters, escapes, <n>) x 5 charsets (BFS, simulation to 8 items),
checks the invariants TypeOK LenIsSum RoundTrip ZeroOperand RejectIff PadOK ZeroFill AscizEnds, and
exports every state with the predicted outcome and image.  This module renders each exported program
to source text (varied literal spellings, quote styles, chunkings), assembles it with the real code and
compares: predicted ok => outcome ok and identical bytes; predicted Reject => outcome error, n_err >= 1.
"""
import collections
import json
import random

from ..common import MachineryError
from ..drive import asm, pmap
from ..tlc import run_tlc, require_ok

INVS = ["TypeOK", "LenIsSum", "RoundTrip", "ZeroOperand", "RejectIff", "PadOK", "ZeroFill", "AscizEnds", "Export"]

# ---------------------------------------------------------------------------------- rendering tables
# abstract character name -> the character (rendering only; its bytes come from Data.tla)
CHARS = {"A": "A", "z": "z", "d7": "7", "sp": " ", "semi": ";", "dq": '"', "sq": "'", "sl": "/",
         "ya": "я", "eacute": "é", "alpha": "α", "del": "\x7f", "cur": "\u00a4"}
# escape name -> (source spellings, the character it denotes -- used only to cross-check the module's table)
ESCAPES = {"n": (["\\n"], "\n"), "r": (["\\r"], "\r"), "t": (["\\t"], "\t"), "bs": (["\\\\"], "\\"),
           "dq": (['\\"'], '"'), "sq": (["\\'"], "'"), "sl": (["\\/"], "/"),
           "x41": (["\\x41"], "A"), "x7e": (["\\x7e", "\\x7E"], "~"), "x00": (["\\x00"], "\x00"),
           "x7f": (["\\x7f", "\\x7F"], "\x7f")}
NAMES = {"byte": ".byte", "db": ".db", "word": ".word", "dw": ".dw", "dword": ".dword", "list": "",
         "blkb": ".blkb", "blkw": ".blkw", "even": ".even", "odd": ".odd", "align": ".align",
         "ascii": ".ascii", "asciz": ".asciz"}
SPELLINGS = ["oct", "dec", "0x", "^X", "^O", "^D", "^B", "0X"]


def spell(v, rnd, forms=SPELLINGS):
    """an integer in one of the literal spellings of the language (default radix is octal)"""
    m, sign = abs(v), "-" if v < 0 else ""
    f = forms[rnd.randrange(len(forms))]
    if f == "oct":
        body = "%o" % m
    elif f == "dec":
        body = "%d." % m
    elif f == "0x":
        body = "0x%x" % m
    elif f == "0X":
        body = "0x%X" % m
    elif f == "^X":
        body = "^X%X" % m
    elif f == "^O":
        body = "^O%o" % m
    elif f == "^D":
        body = "^D%d" % m
    else:
        body = "^B%s" % bin(m)[2:]
    return sign + body


def value_of(op):
    m = op["hi"] * 65536 + op["lo"]
    return -m if op["neg"] else m


# (character name, charset) -> the bytes Data.tla gives the one-character string (None = refused); filled from the exported table rows
CHAR_TABLE = {}
LITERAL_CHARS = ("A", "z", "d7", "ya", "eacute", "alpha", "del", "cur")


def render_string(items, rnd, cs=None):
    """items -> operand text: runs of characters/escapes become quoted chunks (delimiter chosen among
    \" ' / so that no unescaped copy of it occurs inside), <n> items become angle-bracketed bytes."""
    chunks = []           # ("q", [texts], forbidden delimiters) | ("raw", text)
    for it in items:
        if it["k"] == "raw":
            chunks.append(("raw", "<" + spell(it["v"], rnd) + ">"))
            continue
        if it["k"] == "ch" and cs is not None and it["c"] in LITERAL_CHARS and (it["c"], cs) in CHAR_TABLE and rnd.random() < 0.25 \
                and (CHAR_TABLE[(it["c"], cs)] is None or len(CHAR_TABLE[(it["c"], cs)]) == 1):
            # a character that the charset stores in ONE byte (or refuses) may also be written as the byte <'c>: a character literal
            # has the value of its character's byte under the selected charset
            chunks.append(("raw", "<'" + CHARS[it["c"]] + ">"))
            continue
        if it["k"] == "ch":
            txt = CHARS[it["c"]]
            forb = {txt} if txt in "\"'/" else set()
        else:
            sp = ESCAPES[it["c"]][0]
            txt, forb = sp[rnd.randrange(len(sp))], set()
        if chunks and chunks[-1][0] == "q" and len(chunks[-1][2] | forb) < 3 and rnd.random() > 0.2:
            chunks[-1][1].append(txt)
            chunks[-1][2].update(forb)
        else:
            chunks.append(("q", [txt], set(forb)))
    if not chunks:
        chunks.append(("q", [], set()))
    out = []
    for c in chunks:
        if c[0] == "raw":
            out.append(c[1])
        else:
            allowed = [q for q in "\"'/" if q not in c[2]]
            q = allowed[rnd.randrange(len(allowed))]
            out.append(q + "".join(c[1]) + q)
    return ("" if rnd.random() < 0.6 else " ").join(out)


def render_stmt(s, rnd, idx=0, cs=None):
    d = s["d"]
    name = NAMES[d]
    if d in ("byte", "db", "word", "dw", "dword", "list"):
        sep = ", " if rnd.random() < 0.7 else ","
        ops = sep.join(spell(value_of(o), rnd) for o in s["ops"])
        if s["ops"] and rnd.random() < 0.2:
            # the first operand written as a constant defined just above: 'wq3 = 177777' / '.word wq3, 5' -- for an implicit word list
            # this gives a statement that begins with (or consists only of) a name
            rest = sep.join(spell(value_of(o), rnd) for o in s["ops"][1:])
            first = f"wq{idx}"
            return f"{first} = {spell(value_of(s['ops'][0]), rnd)}\n" + (name + " " + first + (sep + rest if rest else "")).strip()
        if d == "list" and (not ops[0].isdigit() or rnd.random() < 0.15):
            # pdpy11 continues an expression across a newline, so an implicit word list that starts with
            # '-' or '^' would be absorbed by the previous statement's last operand: start the line with a label
            return f"L{idx}: {ops}"
        return (name + " " + ops).strip()
    if d in ("blkb", "blkw", "align"):
        return name + " " + spell(s["n"], rnd)
    if d in ("even", "odd"):
        return name
    return name + " " + render_string(s["items"], rnd, cs)


def render(rec, variant):
    rnd = random.Random(variant)
    lines = [".link " + spell(rec["base"], rnd, ["oct", "dec", "0x"])]
    lines += [render_stmt(s, rnd, i, rec["cs"]) for i, s in enumerate(rec["prog"])]
    return "\n".join(lines) + "\n"


def render_pending(rec, variant):
    """A second rendering of an accepted one-directive string program: every <n> item names a symbol that is defined only AFTER the
    directive (so the directive's contents are not known when its size is needed), and the directive is followed by '.even' and a
    marker byte.  The predicted image is Data.tla's image, the padding '.even' owes at that address, and the marker."""
    rnd = random.Random(variant)
    s = rec["prog"][0]
    items, defs = [], []
    for j, it in enumerate(s["items"]):
        if it["k"] == "raw":
            items.append({"k": "sym", "name": f"fw{j}"})
            defs.append(f"fw{j} = {spell(it['v'], rnd)}")
        else:
            items.append(it)
    chunks, cur = [], []
    for it in items:
        if it["k"] == "sym":
            if cur:
                chunks.append(render_string(cur, rnd))
                cur = []
            chunks.append("<" + it["name"] + ">")
        else:
            cur.append(it)
    if cur:
        chunks.append(render_string(cur, rnd))
    text = "\n".join([".link " + spell(rec["base"], rnd, ["oct", "dec", "0x"]), NAMES[s["d"]] + " " + " ".join(chunks), ".even", ".byte 1"] + defs) + "\n"
    img = bytes(rec["image"])
    pad = b"\x00" if (rec["base"] + len(img)) % 2 else b""
    return text, img + pad + b"\x01"


# ---------------------------------------------------------------------------------- real assembler
def run_case(task):
    src, cs, pred_ok, image = task
    r = asm([("data.mac", src)], charset=cs, timeout=10)
    if pred_ok:
        good = r["outcome"] == "ok" and r["code"] == image
    else:
        good = r["outcome"] == "error" and r["n_err"] >= 1
    if good:
        return None
    return (src, cs, pred_ok, image.hex(), r["outcome"], r["code"].hex() if r["code"] is not None else None,
            r["n_err"], r["exc"], [x[1] for x in r["reports"]][:6])


# ---------------------------------------------------------------------------------- machinery checks
def check_table(recs):
    """The byte table of Data.tla (one-item strings) against Python's standard codecs."""
    n = 0
    for rec in recs:
        s = rec["prog"][0]
        if s["d"] != "ascii" or len(s["items"]) != 1 or s["items"][0]["k"] == "raw":
            continue
        it = s["items"][0]
        ch = CHARS[it["c"]] if it["k"] == "ch" else ESCAPES[it["c"]][1]
        cs = rec["cs"]
        if it["k"] == "ch":
            CHAR_TABLE[(it["c"], cs)] = rec["image"] if rec["outcome"] == "ok" else None
        codec = cs if cs != "bk" else ("ascii" if ord(ch) < 128 else "koi8-r")   # bk: ASCII + KOI8-R Cyrillic
        try:
            want = list(ch.encode(codec))
        except UnicodeEncodeError:
            want = None
        if cs == "bk" and ch == "\u00a4":
            want = [0x24]                        # the one documented alias of the bk table (BkCodec.tla AliasCp / AliasByte)
        if cs == "bk" and ch == "\x7f":
            want = None                          # bk coincides with ASCII on 0x00-0x7E only (property C14): no U+007F
        got = rec["image"] if rec["outcome"] == "ok" else None
        if want != got:
            raise MachineryError(f"Data.tla character table disagrees with Python's codec {codec!r} on {ch!r} "
                                 f"({it}): module {got}, str.encode {want}")
        n += 1
    return n


def cfg(mode, maxlen, maxitems, rich):
    return ("SPECIFICATION Spec\nCONSTANTS Mode = \"%s\"\n MaxLen = %d\n MaxItems = %d\n Rich = %s\n"
            % (mode, maxlen, maxitems, "TRUE" if rich else "FALSE")
            + "".join(f"INVARIANT {i}\n" for i in INVS) + "CHECK_DEADLOCK FALSE\n")


def main(run):
    thorough = run.tier == "thorough"
    run.rule = ("every state of Data.tla with a non-empty program, rendered to source after a leading '.link <base>' "
                "(even and odd bases; 65 consecutive bases for .align) with literals spelled in octal / decimal-dot / "
                "0x / ^X / ^O / ^D / ^B, strings chunked over the three quote styles and <n>; non-trivial = distinct "
                "(source text, charset) pairs, each with a predicted image or a predicted refusal")
    plans = [  # (mode, MaxLen, MaxItems, Rich, simulate, depth)
        ("store", 1, 0, thorough, None, None),
        ("seq", 3, 0, thorough, None, None),
        ("align", 2, 0, thorough, None, None),
        ("ops", 1, 2, False, None, None),
        ("ops", 1, 8, False, 300 if thorough else 20, 12),        # TLC visits ~210 states per unit of num
        ("string", 1, 3 if thorough else 2, False, None, None),
        ("string", 1, 8, False, 300 if thorough else 20, 12),
    ]
    if thorough:
        plans += [("seq", 4, 0, False, None, None), ("seq", 8, 0, True, 200, 10)]
    tasks, meta, seen, seen_recs = [], [], set(), set()
    cls = collections.Counter()
    moduli, charsets, table_rows = set(), set(), 0
    for k, (mode, maxlen, maxitems, rich, sim, depth) in enumerate(plans):
        label = f"Data {mode} len<={maxlen} items<={maxitems}{' rich' if rich else ''}" + (f" simulate {sim}" if sim else " (exhaustive)")
        kw = dict(simulate=sim, depth=depth, seed=run.seed + 1 + k, workers=1) if sim else {}
        res = require_ok(run_tlc("Data", cfg_text=cfg(mode, maxlen, maxitems, rich), label=label, timeout=1500, **kw))
        run.add_tlc(res)
        if res.violated:
            run.violation(f"model: invariant {res.violated} violated in Data.tla ({label})", {"tail": res.tail})
        if not res.exports:
            raise MachineryError(f"no exports from {label}\n{res.tail[-800:]}")
        run.note(f"exports[{label}]", res.n_exports)
        # TLC's 16 workers print in a run-dependent order: fix the order so that a seed reproduces the renderings;
        # a program already exported by an earlier run is not rendered again
        for r in res.exports:
            r.pop("mode", None)
        if mode == "string" and not sim:
            table_rows += check_table(res.exports)
        keys = sorted({json.dumps(r, sort_keys=True) for r in res.exports} - seen_recs)
        seen_recs.update(keys)
        res.exports = None
        recs = [json.loads(x) for x in keys]
        # literal spellings matter where numbers carry the case: two renderings there in the thorough tier
        nvar = 2 if thorough and mode in ("store", "ops", "align") else 1
        for i, rec in enumerate(recs):
            charsets.add(rec["cs"])
            if mode == "align" and rec["prog"][0]["d"] == "align":
                moduli.add(rec["prog"][0]["n"])
            for v in range(nvar):
                src = render(rec, ((run.seed * 7919 + i) * 16 + k) * 4 + v)
                key = (src, rec["cs"])
                if key in seen:
                    continue
                seen.add(key)
                ok = rec["outcome"] == "ok"
                tasks.append((src, rec["cs"], ok, bytes(rec["image"])))
                last = rec["prog"][-1]
                meta.append((mode, len(rec["prog"]) + len(last["ops"]) + len(last["items"])))
                cls[(mode, last["d"], "ok" if ok else "reject")] += 1
                if (v == 0 and mode == "string" and ok and len(rec["prog"]) == 1 and rec["prog"][0]["d"] in ("ascii", "asciz")
                        and any(it["k"] == "raw" for it in rec["prog"][0]["items"])):
                    src2, img2 = render_pending(rec, ((run.seed * 7919 + i) * 16 + k) * 4 + 3)
                    if (src2, rec["cs"]) not in seen:
                        seen.add((src2, rec["cs"]))
                        tasks.append((src2, rec["cs"], True, img2))
                        meta.append((mode + "-pending", len(last["items"])))
                        cls[(mode, last["d"] + "-pending", "ok")] += 1
                if v == 0:
                    run.bump(f"operands={len(last['ops'])}" if last["d"] in ("byte", "db", "word", "dw", "dword", "list") else
                             f"items={len(last['items'])}" if last["d"] in ("ascii", "asciz") else "fill/pad directives")
        del recs, keys
    run.note("charset_table_rows_checked_against_python_codecs", table_rows)
    if table_rows != 5 * 24:
        raise MachineryError(f"only {table_rows} rows of the character table were cross-checked (expected 5 charsets x 24 characters)")
    # vacuity: every directive must occur accepted and (where refusal exists) refused; every modulus; every charset
    ds = {(d, o) for (_, d, o) in cls}
    for d in NAMES:
        if (d, "ok") not in ds:
            raise MachineryError(f"no accepted case for directive {d}")
        if d not in ("even", "odd", "align") and (d, "reject") not in ds:
            raise MachineryError(f"no refused case for directive {d}")
    if moduli != set(range(1, 65)):
        raise MachineryError(f"alignment moduli covered: {sorted(moduli)}")
    if charsets != {"bk", "utf-8", "koi8-r", "latin-1", "cp866"}:
        raise MachineryError("not all five charsets exported")

    # ---- replay
    bad = [b for b in pmap(run_case, tasks) if b is not None]
    bad.sort(key=lambda b: (len(b[0]), b[0]))
    for b in bad[:40]:
        src, cs, pred_ok, want, outcome, code, n_err, exc, reps = b
        pred = f"image {want}" if pred_ok else "refusal (error)"
        run.violation(f"data directive: {src!r} charset={cs}: Data.tla predicts {pred}; real assembler: outcome={outcome} "
                      f"code={code} n_err={n_err} exc={exc} reports={reps}",
                      {"source": src, "charset": cs, "predicted_ok": pred_ok, "predicted_image": want, "outcome": outcome,
                       "code": code, "n_err": n_err, "exc": exc, "reports": reps},
                      files={"case.mac": src},
                      tags=[f"outcome:{outcome}", "predicted:" + ("ok" if pred_ok else "reject")])
    run.note("mismatches_total", len(bad))
    run.add_eval(len(tasks))
    for t in tasks:
        run.add_nontrivial((t[0], t[1]))
    run.note("programs", len(tasks))
    run.note("predicted_refusals", sum(1 for t in tasks if not t[2]))
    run.note("cases_by_mode_directive_prediction", {f"{m}/{d}/{o}": n for (m, d, o), n in sorted(cls.items())})
    shown = set()
    for t, (mode, weight) in zip(tasks, meta):
        if (mode, t[2]) in shown or weight < 4:
            continue
        shown.add((mode, t[2]))
        run.sample({"mode": mode, "source": t[0], "charset": t[1],
                    "predicted": t[3].hex() if t[2] else "refused with an error"}, limit=10)
    run.exhaustive = True
    run.assumptions += [
        "Data.tla semantics: Store(n, v) refuses iff |v| >= 2^n, else v mod 2^n little-endian, .dword high word first; "
        "a store directive without operands stores one zero field; .blkw has no parity requirement",
        "charset byte table of Data.tla (cross-checked at start against Python's ascii/koi8-r/utf-8/latin-1/cp866 codecs; "
        "bk = ASCII + KOI8-R Cyrillic letters)",
        "\\xHH is exercised for HH < 0x80 only (for HH >= 0x80 'character U+00HH' vs 'raw byte' is not fixed by the property); "
        "U+007F is excluded (BK glyph, C14)",
        "renderer maps abstract statements to source text; literal spellings octal / decimal-dot / 0x / ^X / ^O / ^D / ^B",
    ]
    run.not_exercised += ["dotless typo-tolerant spellings 'word 1' / 'byte 1' (accepted with a meta-typo warning; not a documented form)",
                          ".align 0 (outside the quantifier 1..64; C08)", "counts / moduli given as symbolic expressions (C05/C03)"]
