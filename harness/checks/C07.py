"""C07  Errors fail the build; warnings never change it.

spec/Cli.tla is the oracle.  TLC (D) checks FailIffError, NoOutputAfterError, WarningsAreInert,
ErrorsAlwaysShown, OutcomeAutomaton, Balanced, CriticalIsLast, WarningsOnlySucceed on the whole state
graph, and exports SCENARIOS (fault plan x report format x -W selection x output options) with the
predicted exit status, set of files written, use of stdout and presence of an error diagnostic.

(M->C) every selected scenario is materialised in a scratch directory (sources built from a valid
base program + faults of harness/faults.py, chosen by the plan's (phase, severity) classes), run
through the REAL command line, and compared with the prediction; all -W / format variants of one
program must produce byte-identical files and the same exit status.
(C->M) the same scenarios are run in-process through pdpy11's command-line entry point with
recorders on the report path and on file creation; the ordered event traces are validated by
spec/CliTrace.tla (a monitor of the property, not an operational model).
"""
import json
import os
import re
import tempfile
from pathlib import Path

from ..common import MachineryError, tmp_root, rmtree
from ..drive import run_cli, pmap
from ..faults import by_class, plant, base_statements
from ..tlc import run_tlc, require_ok
from .. import clitrace

INVS = ["ReportedErrorFails", "TypeOK", "FailIffError", "NoOutputAfterError", "WarningsAreInert", "ErrorsAlwaysShown", "OutcomeAutomaton",
        "Balanced", "CriticalIsLast", "WarningsOnlySucceed", "Export"]

STALE_NAMES = ["x.bin", "x", "main.bin", "main", "out1.bin", "out2.bin", "out1.dat", "out2.dat",
               "x.lst", "main.lst", "listing.lst", "out1.lst", "out2.lst", "out1.dat.lst", "out2.dat.lst"]
BARE_LINE = re.compile(r"^(?P<file>.+?):(?P<line>\d+):(?P<col>\d+): (?P<sev>Error|Warning): ")
GRAPHICAL_ERROR = "\x1b[91mError\x1b[0m in "


def cfg(max_faults, profile, env, stride, residue, classes):
    inh = "{" + ", ".join('"%s.%s"' % c for c in sorted(classes)) + "}"
    return (f"SPECIFICATION Spec\nCONSTANTS MaxFaults = {max_faults}\n Inhabited = {inh}\n EnvFaults = {env}\n"
            f" OutProfile = \"{profile}\"\n Stride = {stride}\n Residue = {residue}\n"
            + "".join(f"INVARIANT {i}\n" for i in INVS) + "CHECK_DEADLOCK FALSE\n")


# ------------------------------------------------------------------------------------- rendering

def choose_kinds(rec, seed):
    """Plan classes -> concrete catalogue kinds (rotating through each class)."""
    classes = by_class()
    out = []
    used = set()
    for i, f in enumerate(rec["plan"]):
        ks = classes[(f["ph"], f["sev"])]
        j = (rec["prog"] * 7 + i * 3 + seed) % len(ks)
        for _ in range(len(ks)):                      # distinct kinds within one program where the class allows
            if ks[j].name not in used:
                break
            j = (j + 1) % len(ks)
        used.add(ks[j].name)
        out.append(ks[j])
    return out


SLOTSETS = [[1, 3, 5], [0, 2, 7], [2, 4, 6], [0, 3, 7]]


def render_program(rec, seed):
    """-> (files {rel: text}, cli input files, kinds).  Location mode by program index: all faults in
    main.mac | the last fault in a second linked file | the last fault in an included file | in a file included by an included file."""
    kinds = choose_kinds(rec, seed)
    rks = [k.render(i + 1) for i, k in enumerate(kinds)]
    mode = rec["prog"] % 4            # 3: the last fault in a file included by an included file
    slots = SLOTSETS[(rec["prog"] // 3 + seed) % len(SLOTSETS)]
    files, fs = {}, {}
    for rk in rks:
        fs.update(rk["fs"])
    head = []
    for d in rec["dirs"]:
        head.append(("make_bin" if d["fmt"] == "bin" else "make_raw") + (f" /{d['path']}/" if d["explicit"] else ""))
    main_plans = [(slots[i], rk) for i, rk in enumerate(rks)]
    other = None
    if mode != 0 and rks:
        other = main_plans.pop()
    if mode >= 2:
        # the include statement is planted like a fault block of its own, so that it never lands between a fault statement
        # and the set-up statements that belong to it (e.g. '.byte' and its '.even')
        main_plans.append((rec["prog"] % 8, {"pre": [], "stmt": ".include /inc.mac/" if mode == 2 else ".include /outer.mac/", "post": [],
                                             "culprit": (0, 8), "fs": {}}))
    main_text, _ = plant(main_plans, "m")
    infiles = ["main.mac"]
    if mode == 1:
        text2, _ = plant([other] if other else [], "s")
        files["second.mac"] = text2
        infiles.append("second.mac")
    elif mode >= 2:
        text2, _ = plant([other] if other else [], "i")
        files["inc.mac"] = text2
        if mode == 3:
            files["outer.mac"] = "\tnop\nouter1:\t.word outer1\n\t.include /inc.mac/\n\tnop\n"
    files["main.mac"] = "".join(h + "\n" for h in head) + main_text
    if (rec["prog"] // 4) % 2 == 1:
        # every other program: no newline at the end of its files (a fault planted in the last slot then stands on the last line,
        # which is not terminated)
        for n in ("main.mac", "second.mac", "inc.mac"):
            if n in files:
                files[n] = files[n].rstrip("\n")
    files.update(fs)
    return files, infiles, kinds


def render_args(rec, infiles, kinds):
    a = []
    if rec["fmt"] == "bare" or rec["prog"] % 2:
        a.append("--report-format=" + rec["fmt"])
    name = kinds[0].ident if kinds else "legacy-deferred"
    w = {"none": [], "all": ["-Wall"], "default": ["-Wdefault"], "no-all": ["-Wno-all"], "name": ["-W" + name],
         "no-name": ["-Wno-" + name], "unknown": ["-Wfrobnicate"]}[rec["wsel"]]
    a += w
    if rec["oopt"] != "none":
        a += ["-o", {"bin": "x.bin", "raw": "x", "stdout": "-"}[rec["oopt"]]]
    if rec["implicit"]:
        a.append("--implicit-bin")
    if rec["lst"]:
        a.append("--lst")
    return a + infiles


def make_task(rec, seed):
    files, infiles, kinds = render_program(rec, seed)
    return {"prog": rec["prog"], "var": rec["var"], "files": files, "args": render_args(rec, infiles, kinds),
            "stale": bool((rec["prog"] // 2) % 2), "kinds": [k.name for k in kinds]}


def materialise(task):
    d = Path(tempfile.mkdtemp(prefix="c07-", dir=tmp_root()))
    for rel, text in task["files"].items():
        (d / rel).write_text(text, encoding="utf-8")
    if task["stale"]:
        for n in STALE_NAMES:
            (d / n).write_bytes(b"stale contents of " + n.encode())
    return d


def run_task(task):
    d = materialise(task)
    try:
        r = run_cli(task["args"], d, timeout=60)
        root = str(d).encode()
        return {"rc": r["rc"], "hang": r["hang"], "out": r["out"].replace(root, b"<ROOT>").hex(), "err": r["err"].replace(str(d), "<ROOT>"),
                "changed": {k: v.replace(root, b"<ROOT>").hex() for k, v in r["changed"].items()}, "removed": r["removed"]}
    finally:
        rmtree(d)


# make_xxx targets that cannot be written, each for another reason the operating system gives
ENV_TARGETS = [("build", "dir"), ("nodir/out.bin", "missing-dir"), ("notes.txt/out.bin", "through-file"), ("n" * 300, "long-name"),
               (".", "dot"), ("build/", "dir-slash")]


def run_env_task(task):
    d = Path(tempfile.mkdtemp(prefix="c07e-", dir=tmp_root()))
    try:
        for rel, text in task["files"].items():
            (d / rel).write_text(text, encoding="utf-8")
        (d / "build").mkdir()
        (d / "notes.txt").write_text("a regular file\n")
        r = run_cli(task["args"], d, timeout=60)
        return {"rc": r["rc"], "hang": r["hang"], "out": r["out"].hex(), "err": r["err"].replace(str(d), "<ROOT>"),
                "changed": sorted(r["changed"]), "removed": r["removed"]}
    finally:
        rmtree(d)


def run_read_task(task):
    d = Path(tempfile.mkdtemp(prefix="c07r-", dir=tmp_root()))
    try:
        for rel, text in task["files"].items():
            (d / rel).write_text(text, encoding="utf-8")
        if task["kind"] == "not-utf8":
            (d / "bad.mac").write_bytes("\tnop\t; комментарий\n".encode("koi8-r"))
        elif task["kind"] == "directory":
            (d / "bad.mac").mkdir()
        r = run_cli(task["args"], d, timeout=60)
        return {"rc": r["rc"], "hang": r["hang"], "err": r["err"].replace(str(d), "<ROOT>"), "changed": sorted(r["changed"]), "removed": r["removed"]}
    finally:
        rmtree(d)


def run_trace_task(task):
    d = materialise(task)
    try:
        return clitrace.record(task["args"], d)
    finally:
        rmtree(d)


# ------------------------------------------------------------------------------------- judging

def split_stdout(out_bytes, fmt):
    """-> (diagnostic lines, remaining bytes).  Bare reports are printed on stdout, one line per span."""
    lines, rest = [], out_bytes
    while True:
        nl = rest.find(b"\n")
        if nl < 0:
            break
        try:
            ln = rest[:nl].decode("utf-8")
        except UnicodeDecodeError:
            break
        if not BARE_LINE.match(ln):
            break
        lines.append(ln)
        rest = rest[nl + 1:]
    return lines, rest


def judge(rec, task, res):
    """Compare one real run with the specification's prediction.  -> list of (summary, tags)"""
    bad = []
    if res["hang"] or res["rc"] is None:
        return [("the command line did not terminate within 60 s", ["outcome:hang"])]
    out = bytes.fromhex(res["out"])
    diag, image = split_stdout(out, rec["fmt"])
    n_err = sum(1 for ln in diag if BARE_LINE.match(ln).group("sev") == "Error") + res["err"].count(GRAPHICAL_ERROR)
    failed = res["rc"] != 0
    if failed != (rec["exit"] != 0):
        bad.append((f"exit status {res['rc']}, predicted {'non-zero' if rec['exit'] else '0'}", []))
    # An internal-error banner next to a properly reported error is C08's business (recorded in the evidence by the
    # caller); a failure WITHOUT any error diagnostic is caught by the errdiag comparison below.
    want = sorted(f["path"] for f in rec["files"])
    got = sorted(res["changed"])
    if got != want:
        bad.append((f"files created or modified {got}, predicted {want}", []))
    if res["removed"]:
        bad.append((f"files removed: {res['removed']}", []))
    if (n_err >= 1) != rec["errdiag"]:
        bad.append((f"{n_err} error diagnostics printed, predicted {'>= 1' if rec['errdiag'] else 'none'} (exit status {res['rc']})", []))
    if rec["stdout"] and not image:
        bad.append(("-o - : no image on standard output", []))
    if not rec["stdout"] and image:
        bad.append((f"unexpected bytes on standard output: {image[:60]!r}", []))
    return bad


def main(run):
    thorough = run.tier == "thorough"
    classes = by_class()
    run.rule = ("one CLI run of a scenario exported by Cli.tla (fault plan of 0-3 catalogue faults x report format x -W "
                "selection x -o/--implicit-bin/make_*/--lst options) with a predicted exit status and file set; non-trivial = "
                "distinct (program, variant) runs that plant >= 1 fault or configure >= 1 output")
    run.note("catalogue_kinds", sum(len(v) for v in classes.values()))
    run.note("catalogue_classes", {f"{p}.{s}": len(v) for (p, s), v in sorted(classes.items())})

    # ---------------- (D) + scenario export
    recs = {}

    def collect(res, what):
        run.add_tlc(res)
        if res.violated:
            run.violation(f"model: invariant {res.violated} violated in Cli.tla ({what})", {"tail": res.tail[-3000:]})
        for r in res.exports:
            recs.setdefault((r["prog"], r["var"]), r)

    if thorough:
        stride_a, stride_b = 251, 7
        a = require_ok(run_tlc("Cli", cfg_text=cfg(3, "full", "FALSE", stride_a, run.seed % stride_a, classes),
                               label="Cli: <=3 faults x all options (exhaustive)", timeout=1500, heap="8g"))
        collect(a, "<=3 faults, all options")
        b = require_ok(run_tlc("Cli", cfg_text=cfg(1, "full", "TRUE", stride_b, run.seed % stride_b, classes),
                               label="Cli: <=1 fault x all options, environment faults enabled", timeout=900))
        collect(b, "<=1 fault, all options, EnvFaults")
    else:
        stride_a, stride_b = 31, 61
        a = require_ok(run_tlc("Cli", cfg_text=cfg(3, "small", "FALSE", stride_a, run.seed % stride_a, classes),
                               label="Cli: <=3 faults x 6 representative option sets (exhaustive)", timeout=600))
        collect(a, "<=3 faults, small option profile")
        b = require_ok(run_tlc("Cli", cfg_text=cfg(1, "full", "TRUE", stride_b, run.seed % stride_b, classes),
                               label="Cli: <=1 fault x all options, environment faults enabled", timeout=600))
        collect(b, "<=1 fault, all options, EnvFaults")
    # warnings-only plans (the "a run with only warnings succeeds and writes its outputs" half): every plan of <= 3 warnings
    wclasses = {c: v for c, v in classes.items() if c[1] == "warning"}
    stride_c = 1 if thorough else 5
    c = require_ok(run_tlc("Cli", cfg_text=cfg(3, "small", "FALSE", stride_c, run.seed % stride_c, wclasses),
                           label="Cli: <=3 warnings only (exhaustive)", timeout=900))
    collect(c, "<=3 warnings only")
    if not recs:
        raise MachineryError("Cli.tla exported no scenario")
    progs = {}
    for (p, v), r in recs.items():
        progs.setdefault(p, {})[v] = r
    run.note("programs_selected", len(progs))
    run.note("scenarios_exported", len(recs))

    # ---------------- which variants of each program are run
    chosen = []
    for p, vs in sorted(progs.items()):
        if 0 not in vs:
            raise MachineryError(f"program {p}: baseline variant missing in the export")
        keys = sorted(vs)
        if thorough:
            pick = keys
        else:
            others = [k for k in keys if k != 0]
            start = (p + run.seed) % len(others)
            pick = [0] + [others[(start + 3 * j) % len(others)] for j in range(4)]
        for v in sorted(set(pick)):
            chosen.append(vs[v])
    tasks = [make_task(r, run.seed) for r in chosen]
    results = pmap(run_task, tasks)
    run.add_eval(len(tasks))

    run.note("runs_with_internal_error_banner", 0)
    by_prog = {}
    per_class, per_w, n_fail_pred, n_files_pred = {}, {}, 0, 0
    for rec, task, res in zip(chosen, tasks, results):
        by_prog.setdefault(rec["prog"], []).append((rec, task, res))
        if rec["plan"] or rec["files"] or rec["stdout"]:
            run.add_nontrivial((rec["prog"], rec["var"]))
        for f in rec["plan"]:
            per_class[f"{f['ph']}.{f['sev']}"] = per_class.get(f"{f['ph']}.{f['sev']}", 0) + 1
        per_w[rec["wsel"] + "/" + rec["fmt"]] = per_w.get(rec["wsel"] + "/" + rec["fmt"], 0) + 1
        n_fail_pred += rec["exit"] != 0
        n_files_pred += bool(rec["files"])
        if "unexpected internal compiler error" in res["err"]:
            run.bump("runs_with_internal_error_banner")
            if "internal_error_example" not in run.extra:
                run.note("internal_error_example", {"args": task["args"], "kinds": task["kinds"], "files": task["files"],
                                                    "last_stderr_line": res["err"].strip().split("\n")[-1][:200]})
        for summary, tags in judge(rec, task, res):
            run.violation(f"scenario prog={rec['prog']} var={rec['var']} `pdpy11 {' '.join(task['args'])}` kinds={task['kinds']}: {summary}",
                          {"scenario": rec, "args": task["args"], "kinds": task["kinds"], "rc": res["rc"], "stderr": res["err"][-1500:],
                           "stdout": res["out"][:400], "changed": sorted(res["changed"])},
                          files=task["files"], tags=tags)
    run.note("runs_per_fault_class", per_class)
    run.note("runs_per_variant", per_w)
    run.note("runs_predicted_failure", n_fail_pred)
    run.note("runs_predicted_with_files", n_files_pred)

    # ---------------- WarningsAreInert on the real code: all variants of a program agree with the baseline
    n_pairs = 0
    for p, items in sorted(by_prog.items()):
        base = next(((rec, task, res) for rec, task, res in items if rec["var"] == 0), None)
        if base is None:
            continue
        brec, btask, bres = base
        _, bimage = split_stdout(bytes.fromhex(bres["out"]), brec["fmt"])
        for rec, task, res in items:
            if rec["var"] == 0:
                continue
            n_pairs += 1
            diffs = []
            if (res["rc"] != 0) != (bres["rc"] != 0):
                diffs.append(f"exit status {res['rc']} vs {bres['rc']}")
            if sorted(res["changed"]) != sorted(bres["changed"]):
                diffs.append(f"files {sorted(res['changed'])} vs {sorted(bres['changed'])}")
            else:
                for k in res["changed"]:
                    if res["changed"][k] != bres["changed"][k]:
                        diffs.append(f"contents of {k} differ")
            diag, image = split_stdout(bytes.fromhex(res["out"]), rec["fmt"])
            tags = []
            if image != bimage:
                diffs.append("image on standard output differs")
            elif rec["stdout"] and diag:
                # the image is there, but bare diagnostics precede it in the same stream
                diffs.append(f"the byte stream of '-o -' carries {len(diag)} diagnostic line(s) before the image "
                             f"(depends on --report-format / -W)")
                tags = ["shape:bare-diagnostics-on-stdout", "output:stdout"]
            if diffs:
                run.violation(f"variants of program {p} disagree: `pdpy11 {' '.join(task['args'])}` vs `pdpy11 {' '.join(btask['args'])}`: "
                              + "; ".join(diffs),
                              {"variant": rec, "baseline": brec, "args": task["args"], "baseline_args": btask["args"], "kinds": task["kinds"]},
                              files=task["files"], tags=tags)
    run.note("variant_pairs_compared", n_pairs)

    ok_with_files = next(((r, t) for r, t, s in zip(chosen, tasks, results) if r["exit"] == 0 and len(r["files"]) >= 2 and r["plan"]), None)
    if ok_with_files:
        r, t = ok_with_files
        run.sample({"args": t["args"], "kinds": t["kinds"], "predicted_exit": 0, "predicted_files": sorted(f["path"] for f in r["files"])})
    failing = next(((r, t) for r, t, s in zip(chosen, tasks, results) if r["exit"] == 1 and len(r["plan"]) == 3 and r["oopt"] != "none"), None)
    if failing:
        r, t = failing
        run.sample({"args": t["args"], "kinds": t["kinds"], "predicted_exit": 1, "predicted_files": []})

    # ---------------- unwritable directive outputs (Cli.tla: EnvFaultDirective).  Outside the property's quantifier as far as
    # the files of OTHER directives go (an earlier make_xxx of the same run has been written already), but ReportedErrorFails
    # holds in every run: the failure is an issued and shown error, exit status non-zero, and neither -o nor the listing is written
    etasks = []
    for di, directive in enumerate(("make_bin", "make_raw", "make_wav", "make_turbo_wav", "make_bk0010_rom")):
        for ti, (target, setup) in enumerate(ENV_TARGETS):
            for vi, extra in enumerate((["--report-format=bare"], ["-Wall"], ["--report-format=bare", "-Wno-all", "-o", "x.bin", "--lst"], ["--lst", "-o", "x"])):
                if (di + ti + vi + run.seed) % (1 if thorough else 2):
                    continue
                etasks.append({"directive": directive, "target": target, "setup": setup, "args": extra + ["main.mac"],
                               "files": {"main.mac": f"\t.link 1000\n\tmov #1, r0\n\t{directive} \"{target}\"\n\tnop\n"}})
    for t, res in zip(etasks, pmap(run_env_task, etasks)):
        run.add_eval()
        run.add_nontrivial(("env", t["directive"], t["target"][:20], tuple(t["args"])))
        what = f"`pdpy11 {' '.join(t['args'])}` with {t['directive']} \"{t['target'][:40]}\" ({t['setup']})"
        if res["hang"]:
            run.violation(f"unwritable directive output: {what} does not terminate", t, files=t["files"], tags=["outcome:hang"])
            continue
        out = bytes.fromhex(res["out"]).decode("utf-8", "replace")
        n_err = sum(1 for ln in out.split("\n") if BARE_LINE.match(ln) and BARE_LINE.match(ln).group("sev") == "Error") + res["err"].count(GRAPHICAL_ERROR)
        bad = []
        if res["rc"] == 0:
            bad.append("exit status 0")
        if n_err < 1:
            bad.append(f"no error diagnostic printed (exit status {res['rc']}; stderr ends {res['err'][-160:]!r})")
        if res["changed"] or res["removed"]:
            bad.append(f"files created or modified {sorted(res['changed'])}, removed {res['removed']}")
        if bad:
            run.violation(f"unwritable directive output: {what}: " + "; ".join(bad), {"case": {k: t[k] for k in ("directive", "target", "setup", "args")},
                                                                                     "rc": res["rc"], "stderr_tail": res["err"][-600:]}, files=t["files"])
    run.note("unwritable_directive_output_runs", len(etasks))

    # ---------------- unreadable sources (Cli.tla: ReadFail -- the run ends in the Read phase with exit status 1 and nothing written),
    # next to sources that would assemble on their own
    rtasks = []
    for kind in ("not-utf8", "missing", "directory"):
        for pos in (0, 1):
            for extra in (["--report-format=bare", "-o", "x.bin", "--lst"], ["--implicit-bin", "-Wall"], ["-o", "x", "--lst", "-Wno-all"]):
                good = "\t.link 1000\n\tmov #1, r0\n\tmake_raw \"made.raw\"\n"
                names = ["good.mac", "bad.mac"] if pos else ["bad.mac", "good.mac"]
                rtasks.append({"kind": kind, "args": extra + names, "files": {"good.mac": good}})
    for t, res in zip(rtasks, pmap(run_read_task, rtasks)):
        run.add_eval()
        run.add_nontrivial(("read", t["kind"], tuple(t["args"])))
        what = f"`pdpy11 {' '.join(t['args'])}` where bad.mac is {t['kind']}"
        bad = []
        if res["hang"]:
            bad.append("does not terminate")
        if res["rc"] == 0:
            bad.append("exit status 0")
        if res["changed"] or res["removed"]:
            bad.append(f"files created or modified {sorted(res['changed'])}, removed {res['removed']}")
        if "internal compiler error" in res["err"]:
            bad.append("internal compiler error")
        if bad:
            run.violation(f"unreadable source: {what}: " + "; ".join(bad), {"case": {k: t[k] for k in ("kind", "args")}, "rc": res["rc"],
                                                                        "stderr_tail": res["err"][-600:]}, files=t["files"])
    run.note("unreadable_source_runs", len(rtasks))

    # ---------------- (C->M) ordered event traces of in-process runs, validated by CliTrace.tla
    ttasks = [t for r, t in zip(chosen, tasks) if r["var"] in (0, 1, 3, 11)] if not thorough else tasks
    traces = pmap(run_trace_task, ttasks)
    usable = [(t, tr) for t, tr in zip(ttasks, traces) if tr.get("events") is not None]
    missing = [tr.get("why") for tr in traces if tr.get("events") is None]
    if missing:
        run.not_exercised.append(f"C->M trace recording unavailable for {len(missing)} runs: {sorted(set(missing))[:3]}")
    if usable:
        verdicts = clitrace.validate([tr["events"] for _, tr in usable], run)
        run.add_traces(len(usable))
        for (t, tr), ok in zip(usable, verdicts):
            if not ok:
                run.violation(f"trace of `pdpy11 {' '.join(t['args'])}` kinds={t['kinds']} is not accepted by CliTrace.tla: {tr['events']}",
                              {"args": t["args"], "kinds": t["kinds"], "events": tr["events"]}, files=t["files"])
        run.note("trace_events", sum(len(tr["events"]) for _, tr in usable))
        run.note("traces_with_error_then_exit1", sum(1 for _, tr in usable if any(e[0] == "report" and e[1] != "warning" for e in tr["events"])))
        run.note("traces_with_writes", sum(1 for _, tr in usable if any(e[0] == "write" for e in tr["events"])))

    run.exhaustive = False
    run.assumptions += [
        "the table of output NAMES (default = source name without .mac + format extension; -o x.bin => bin else raw; listing "
        "beside the chosen output with the format's own extension replaced by .lst; '-o -' => stdout and listing.lst) is "
        "DESIGN.md 3.6; the property itself speaks only of whether files are written",
        "an error diagnostic is recognised in the output as a bare line '<file>:<l>:<c>: Error: ' or a graphical header 'Error in <file>'",
        "environment faults of the output phases are exempt from the file-set predictions; unwritable DIRECTIVE outputs are generated for "
        "the clause that holds in every run (an issued error fails the run, is shown, and -o / listing are not written)",
        "faults are chosen from harness/faults.py by (phase, severity) class; the classes compile.critical and link.critical are "
        "not inhabited (pdpy11 has critical diagnostics only in the parser)",
    ]
