"""C08  Every input ends in a result or a reported error.

(D)   spec/Lazy.tla -- the lazy evaluation engine at the grain of deferred.py.  Config A (acyclic
      definition graphs) must satisfy Terminates (liveness, WF), NoSpin, NoDivergence,
      NoInternalError, Balanced, SettledIsStable, EagerEqualsLazy.  Config B (all graphs) is
      EXPECTED to violate Terminates / NoSpin / NoInternalError: TLC's counterexample programs are
      rendered and reproduced on the real assembler (open finding KF-cyclic-definition-*).
(M->C) every program Lazy.tla exports carries the model's prediction (ok + symbol values,
      reported failure, DeferredCycle, hang); the real assembler must agree.
      spec/Grammar.tla -- grammar G as a derivation machine: every program with <= k expansions
      (BFS), long programs by simulation, planted faults, <= 3 mutations; rendered by
      harness/grammar.py and run through parse() + compile_and_link_files() under the three report
      handlers with a CPU-time watchdog.
(C->M) every run is a trace  Report(sev)* ; End(outcome)  validated by spec/Outcome.tla (accepts
      iff  ok & no error issued  or  unrecoverable & >= 1 error issued).
"""
import collections
import zlib
import concurrent.futures as cf
import json
import os
import tempfile
import threading
import time

from ..common import MachineryError, tmp_root
from ..drive import pmap
from ..tlc import run_tlc, require_ok
from .. import grammar as G
from .. import lazy as L

BENIGN = ("Error: The behavior up to this point is:", "Error: The following behavior constitutes a counter-example:")


def tlc_ok(res):
    """require_ok, except that the two header lines of a printed counterexample are not machinery errors"""
    res.errors = [e for e in res.errors if not e.startswith(BENIGN)]
    return require_ok(res)


KNOWN_EXAMPLES = ["a = a\n", "a = b\nb = a\n", "a = b\nb = c\nc = a\n", ".blkb a\na:\n", "a = b * 2\nb = a / 2\n",
                  "a = a + 1\n", "a = a / 2\n", ".word a\na = a\n"]

FULL_A = ["TypeOK", "Balanced", "NoSpin", "NoDivergence", "NoInternalError", "EagerEqualsLazy", "Export"]
SAFE_B = ["TypeOK", "Balanced", "Export"]


# ------------------------------------------------------------------------------------------------ TLC jobs
def lazy_jobs(thorough):
    J = []

    def job(name, cfg, expect=None, env=None, workers=4, kind="lazy"):
        J.append({"name": name, "module": "Lazy", "cfg": cfg, "expect": expect, "env": env, "workers": workers, "kind": kind})
    F, K = L.ALL_FORMS, L.ALL_KINDS
    job("A: acyclic, 2 symbols, all statement kinds, <= 3 statements",
        L.cfg(["a", "b"], F, K, 3, False, FULL_A, ["SettledIsStable", "Terminates"], **({} if thorough else {"ks": "{2}", "mulks": "{2}"})), workers=6)
    job("B: all graphs, 2 symbols, definitions + .blkb + labels, <= 2 statements",
        L.cfg(["a", "b"], F, ["def", "label", "blkb"], 2, True, SAFE_B, ["SettledIsStable"]), workers=6)
    job("B3: all graphs, 3 symbols, s | s/k, <= 3 definitions",
        L.cfg(["a", "b", "c"], ["ref", "div"], ["def"], 3, True, SAFE_B, ["SettledIsStable"]))
    job("CE Terminates (all graphs)", L.cfg(["a", "b"], ["ref"], ["def"], 2, True, [], ["Terminates"]), expect="Terminates", workers=2)
    if thorough:
        job("CE NoSpin (all graphs)", L.cfg(["a", "b"], ["ref", "const"], ["def"], 2, True, ["NoSpin"]), expect="NoSpin", workers=2)
    job("CE NoInternalError (all graphs)", L.cfg(["a"], ["ref", "div"], ["def", "label", "blkb"], 2, True, ["NoInternalError"]),
        expect="NoInternalError", workers=2)
    if thorough:
        job("CE NoDivergence (all graphs)", L.cfg(["a"], ["add"], ["def"], 1, True, ["NoDivergence"]), expect="NoDivergence", workers=2)
    job("I: exception injected at every point of evaluation",
        L.cfg(["a", "b"], ["ref", "add", "div"], ["def", "blkb", "label"], 2, True, ["TypeOK", "Balanced"], inject=True))
    job("F1: broken engine (depth leak) must violate Balanced",
        L.cfg(["a", "b"], ["ref", "const"], ["def"], 2, False, ["Balanced"], fault="depth-leak"), expect="Balanced", workers=2, kind="selftest")
    if thorough:
        job("F2: broken engine (awaiting-stack leak) must violate Balanced",
            L.cfg(["a", "b"], ["ref", "const"], ["def"], 2, False, ["Balanced"], fault="stack-leak"), expect="Balanced", workers=2, kind="selftest")
    if thorough:
        job("A3: acyclic, 3 symbols, definitions only, <= 3 statements",
            L.cfg(["a", "b", "c"], F, ["def"], 3, False, FULL_A, ["SettledIsStable", "Terminates"], ks="{2}", mulks="{2}"), workers=8)
        job("B2L: all graphs, 2 symbols, all statement kinds, <= 3 statements",
            L.cfg(["a", "b"], F, K, 3, True, SAFE_B, ["SettledIsStable"]), workers=8)
        job("B3L: all graphs, 3 symbols, s | s+k | s/k, <= 3 definitions",
            L.cfg(["a", "b", "c"], ["ref", "add", "div"], ["def"], 3, True, SAFE_B, ["SettledIsStable"]), workers=8)
    return J


def gcfg(lo, hi, maxexp, maxmut, maxfaults, sim, charmuts=None):
    invs = ["TypeOK", "DepthOK", "StmtBound", "OnlyTerminalsWhenComplete", "Export"]
    return ("SPECIFICATION Spec\nCONSTANTS\n TargetLo = %d\n TargetHi = %d\n MaxExp = %d\n MaxDepth = 8\n MaxMut = %d\n"
            " MaxFaults = %d\n CharMuts = %s\n Sim = %s\n" % (lo, hi, maxexp, maxmut, maxfaults, "TRUE" if (maxmut if charmuts is None else charmuts) else "FALSE",
                                                                "TRUE" if sim else "FALSE")
            + "".join("INVARIANT %s\n" % i for i in invs) + "CHECK_DEADLOCK FALSE\n")


def grammar_jobs(thorough, seed):
    J = []

    def job(name, cfg, sim=None, depth=None, sd=None, workers=4, exhaustive=False):
        J.append({"name": name, "module": "Grammar", "cfg": cfg, "sim": sim, "depth": depth, "seed": sd, "workers": workers,
                  "kind": "grammar", "exhaustive": exhaustive, "expect": None, "env": None})
    if not thorough:
        job("G1: every 1-statement program, <= 3 expansions, <= 1 planted fault", gcfg(1, 1, 3, 0, 1, False), exhaustive=True)
        job("G2: every 2-statement program, <= 3 expansions", gcfg(2, 2, 3, 0, 0, False), exhaustive=True)
        job("GM: every single token mutation of every 1-expansion program", gcfg(1, 1, 1, 1, 0, False, charmuts=False), exhaustive=True)
        job("S1: simulated 1-4 statements, <= 3 mutations", gcfg(1, 4, 100000, 3, 1, True), sim=1800, depth=400, sd=seed * 7 + 1, workers=1)
        job("S2: simulated 5-25 statements, <= 3 mutations", gcfg(5, 25, 100000, 3, 2, True), sim=300, depth=1500, sd=seed * 7 + 2, workers=1)
        job("S3: simulated 26-60 statements, <= 3 mutations", gcfg(26, 60, 100000, 3, 2, True), sim=120, depth=3000, sd=seed * 7 + 3, workers=1)
    else:
        job("G1: every 1-statement program, <= 5 expansions, <= 1 planted fault", gcfg(1, 1, 5, 0, 1, False), workers=8, exhaustive=True)
        job("G2: every 2-statement program, <= 4 expansions", gcfg(2, 2, 4, 0, 0, False), workers=8, exhaustive=True)
        job("GM: every single token mutation of every <= 2-expansion program", gcfg(1, 1, 2, 1, 0, False, charmuts=False), workers=8, exhaustive=True)
        job("GC: every single character mutation of every 1-expansion program", gcfg(1, 1, 1, 1, 0, False, charmuts=True), workers=8, exhaustive=True)
        for i in range(3):
            job("S1.%d: simulated 1-4 statements, <= 3 mutations" % i, gcfg(1, 4, 100000, 3, 1, True), sim=15000, depth=400,
                sd=seed * 7 + 11 + i, workers=1)
        for i in range(3):
            job("S2.%d: simulated 5-25 statements, <= 3 mutations" % i, gcfg(5, 25, 100000, 3, 2, True), sim=2500, depth=1500,
                sd=seed * 7 + 21 + i, workers=1)
        for i in range(2):
            job("S3.%d: simulated 26-60 statements, <= 3 mutations" % i, gcfg(26, 60, 100000, 3, 2, True), sim=1500, depth=3000,
                sd=seed * 7 + 31 + i, workers=1)
    return J


class Texts:
    """distinct rendered texts (bounded by `safe`), with what produced them"""

    def __init__(self, seed):
        self.seed = seed
        self.index = {}
        self.dropped = collections.Counter()
        self.n_records = 0
        self.per_job = collections.Counter()
        self.classes = collections.Counter()
        self.mutkinds = collections.Counter()
        self.long = 0
        self.lock = threading.Lock()

    def add(self, rec, job):
        with self.lock:
            self._add(rec, job)

    def _add(self, rec, job):
        self.n_records += 1
        # the rendering choices are a function of the record itself (TLC's workers export in a run-dependent order)
        text = G.render(rec, (zlib.crc32(json.dumps(rec, sort_keys=True).encode()) ^ (self.seed * 2654435761) ^ zlib.crc32(str(job).encode())) & 0x7fffffff)
        ok, why = G.safe(text)
        if not ok:
            self.dropped[why] += 1
            return
        if text in self.index:
            return
        self.index[text] = len(self.index)
        self.per_job[job] += 1
        for t in set(rec["toks"]):
            self.classes[t] += 1
        for m in rec["muts"]:
            self.mutkinds[m["kind"]] += 1
        if rec["nst"] >= 26:
            self.long += 1


def run_job(job, texts=None):
    kw = {}
    if job["kind"] == "grammar":
        kw = {"simulate": job["sim"], "depth": job["depth"], "seed": job["seed"], "on_export": lambda r: texts.add(r, job["name"][:2])}
    env = job["env"]
    res = run_tlc(job["module"], cfg_text=job["cfg"], workers=job["workers"], timeout=1500, label=job["name"], env=env, **kw)
    return job, res


# ------------------------------------------------------------------------------------------------ traces
_SIG = {}


def trace_sig(o):
    """JSON text of the trace  Report(sev)* ; End(outcome)  of one run"""
    key = (o[0], o[2] if isinstance(o[2], str) else tuple(o[2]))
    sg = _SIG.get(key)
    if sg is None:
        out = {"ok": "ok", "error": "unrecoverable", "exception": "exception", "hang": "hang"}[o[0]]
        sg = _SIG[key] = json.dumps([{"k": "report", "sev": s} for s in G.sev_names(o[2])] + [{"k": "end", "out": out}])
    return sg


def validate_traces(run, shapes, raw, label):
    """shapes: {signature: id}; raw: list of signatures (a batch validated one by one).  Returns
    {signature: (verdict, clause)}; every trace must get a verdict from TLC."""
    traces = []
    sigs = list(shapes)
    for i, sg in enumerate(sigs):
        traces.append({"id": i, "ev": json.loads(sg)})
    base = len(traces)
    for j, sg in enumerate(raw):
        traces.append({"id": base + j, "ev": json.loads(sg)})
    fd, path = tempfile.mkstemp(prefix="c08-traces-", suffix=".json", dir=tmp_root())
    try:
        with os.fdopen(fd, "w") as f:
            json.dump(traces, f)
        res = require_ok(run_tlc("Outcome", cfg_text="SPECIFICATION Spec\nINVARIANT GoodIsAllowed\nINVARIANT Total\nINVARIANT Emit\nCHECK_DEADLOCK FALSE\n",
                                 env={"TRACE_FILE": path}, workers=8, timeout=900, label=label))
    finally:
        os.unlink(path)
    run.add_tlc(res)
    if res.violated:
        raise MachineryError(f"Outcome.tla: invariant {res.violated} violated: {res.tail[-800:]}")
    verdict = {}
    for r in res.exports:
        verdict[r["id"]] = (r["v"], r["clause"])
    if len(verdict) != len(traces):
        raise MachineryError(f"Outcome.tla gave {len(verdict)} verdicts for {len(traces)} traces")
    out = {}
    for i, sg in enumerate(sigs):
        out[sg] = verdict[i]
    for j, sg in enumerate(raw):
        if verdict[base + j] != out[sg]:
            raise MachineryError("Outcome.tla: two verdicts for the same trace")
    return out


# ------------------------------------------------------------------------------------------------ Lazy replay
def lazy_task(arg):
    recs, cpu = arg
    tasks = [(i, L.render(r["prog"])) for i, r in enumerate(recs)]
    out = G.run_chunk((tasks, ("collect",), cpu, True))
    byidx = dict(out)
    return [(recs[i], byidx[i][0]) for i in range(len(recs))]


def report_bad(run, text, o, tags, what, detail=None):
    d = {"outcome": o[0], "exception": o[1], "reports": o[2][:20], "n_err": o[3], "source": text}
    d.update(detail or {})
    run.violation(f"{what}: {text[:120]!r} -> {o[0]}" + (f" ({o[1]})" if o[1] else "") + (f" with {o[3]} error diagnostics" if o[0] in ("ok", "error") else ""),
                  d, files={"case.mac": text}, tags=tags)


def main(run):
    thorough = run.tier == "thorough"
    t_start = time.time()
    run.rule = ("texts: distinct rendered sentences of Grammar.tla (every program with <= k expansions, simulated programs up to 60 "
                "statements, planted faults, <= 3 token/character mutations) inside the bounds of DESIGN section 4, each run under "
                "the collect, bare and graphical report handlers; Lazy.tla programs: every exported program with its predicted "
                "outcome and symbol values; non-trivial = distinct source texts")
    texts = Texts(run.seed)
    jobs = grammar_jobs(thorough, run.seed) + lazy_jobs(thorough)
    # the known examples of the open finding, asked of the model directly
    fd, fixed_path = tempfile.mkstemp(prefix="c08-fixed-", suffix=".json", dir=tmp_root())
    with os.fdopen(fd, "w") as f:
        json.dump([L.parse_source(s) for s in KNOWN_EXAMPLES], f)
    jobs.append({"name": "K: the examples of the open finding, asked of the model", "module": "Lazy", "kind": "lazy", "expect": None, "workers": 2,
                 "cfg": L.cfg(["a", "b", "c"], L.ALL_FORMS, L.ALL_KINDS, 3, True, SAFE_B, [], ks="{0, 1, 2}", addks="{1}", mulks="{2}", divks="{2}"),
                 "env": {"LAZY_PROGS": fixed_path}})
    results = {}
    pool = cf.ThreadPoolExecutor(max_workers=5 if thorough else 6)
    futs = [pool.submit(run_job, j, texts) for j in jobs]
    # ---------------------------------------------------------------- grammar texts (wait for the generators)
    lazy_res = []
    for fu in cf.as_completed(futs):
        job, res = fu.result()
        tlc_ok(res)
        run.add_tlc(res)
        if job["kind"] == "grammar":
            if res.violated:
                run.violation(f"model: Grammar.tla invariant {res.violated} violated ({job['name']})", {"tail": res.tail})
        else:
            lazy_res.append((job, res))
    pool.shutdown()
    os.unlink(fixed_path)
    run.note("grammar_records", texts.n_records)
    run.note("grammar_texts", len(texts.index))
    run.note("grammar_texts_per_job", dict(texts.per_job))
    run.note("grammar_dropped_outside_bounds", dict(texts.dropped))
    run.note("grammar_terminal_classes_used", len(texts.classes))
    run.note("grammar_mutation_kinds", dict(texts.mutkinds))
    run.note("grammar_long_programs_26_60", texts.long)
    missing = {"del", "dup", "swap", "rep", "cdel", "cins", "crep"} - set(texts.mutkinds)
    if missing:
        raise MachineryError(f"mutation kinds never generated: {sorted(missing)} (vacuous generator)")
    if texts.long < 20:
        raise MachineryError(f"only {texts.long} long programs (26-60 statements) were generated")
    unused = sorted(set(G.REPS) - set(texts.classes))
    if unused:
        run.note("grammar_classes_never_generated", unused)
    items = sorted(((i, t) for t, i in texts.index.items()))
    bytext = {i: t for i, t in items}
    cpu = 1.0 if thorough else 0.6
    t0 = time.time()
    # ---------------------------------------------------------------- runs -> traces (folded batch by batch)
    # thorough: every text under all three handlers.  quick: every text under the collecting handler, every third text
    # also under the real bare and graphical handlers (a run that is already bad is not repeated)
    shapes = {}                        # trace (JSON text) -> id
    shape_n = collections.Counter()
    raw = []                           # the first raw_cap traces, validated one by one
    raw_cap = 100000 if thorough else 25000
    suspects = []                      # (text idx, handler, result, trace) of runs that are not good by the harness' own reading
    oc = collections.Counter()
    per_handler = collections.Counter()
    n_runs = 0
    batch = 150000
    bad_idx = set()
    for handlers, subset in ((("collect",), None), (("bare", "graphical"), 1 if thorough else 3)):
        sel = [it for it in items if (subset is None or it[0] % subset == 0) and it[0] not in bad_idx]
        for lo in range(0, len(sel), batch):
            part = sel[lo:lo + batch]
            out = pmap(G.run_chunk, [(c, handlers, cpu) for c in G.chunks(part, 80 if not thorough else 150)])
            for ch in out:
                for idx, res in ch:
                    for h, o in zip(handlers, res):
                        sg = trace_sig(o)
                        shapes.setdefault(sg, len(shapes))
                        shape_n[sg] += 1
                        n_runs += 1
                        per_handler[h] += 1
                        if len(raw) < raw_cap:
                            raw.append(sg)
                        oc[o[0] if not (o[0] == "error" and o[3] == 0) else "silent-failure"] += 1
                        if not G.is_good(o):
                            suspects.append((idx, h, o, sg))
                            bad_idx.add(idx)
            del out
    run.note("runs_per_handler", dict(per_handler))
    run.note("assembling_wall_s", round(time.time() - t0, 1))
    verdict = validate_traces(run, shapes, raw, "Outcome.tla: traces of the grammar runs")
    run.add_traces(n_runs)
    run.add_eval(n_runs)
    run.note("distinct_trace_shapes", len(shapes))
    run.note("traces_validated_one_by_one", len(raw))
    run.note("outcomes", dict(oc))
    for t in bytext.values():
        run.add_nontrivial(t)
    # ---------------------------------------------------------------- rejected traces
    n_bad = sum(n for sg, n in shape_n.items() if verdict[sg][0] == "bad")
    if n_bad != len(suspects) or any(verdict[sg][0] != "bad" for _, _, _, sg in suspects):
        raise MachineryError(f"Outcome.tla rejects {n_bad} runs, the harness' own reading finds {len(suspects)} bad runs: monitor and harness disagree")
    bad = collections.OrderedDict()          # text idx -> (handler, o, clause)
    for idx, h, o, sg in suspects:
        if idx not in bad:
            bad[idx] = (h, (o[0], o[1], G.sev_names(o[2]), o[3]), verdict[sg][1])
    run.note("rejected_traces", n_bad)
    run.note("rejected_traces_texts", len(bad))
    # confirmation in a process of its own (5 s of CPU).  Hangs are expensive to confirm: those of texts with a cyclic
    # definition (the open finding) and, beyond a cap, the longest of the others are reported from the first run
    cyc_cap = 40 if thorough else 3
    hang_cap = 100 if thorough else 32
    for idx, (h, o, clause) in bad.items():
        if clause == "malformed":
            raise MachineryError(f"malformed trace for {bytext[idx]!r}")
    first_tags = dict(pmap(G.classify_task, [(idx, bytext[idx], o[0], o[1]) for idx, (h, o, clause) in bad.items()]))
    tasks = []
    unconfirmed = []
    n_cyc = n_hang = 0
    for idx, (h, o, clause) in sorted(bad.items(), key=lambda kv: len(bytext[kv[0]])):
        text = bytext[idx]
        tags = first_tags[idx]
        if o[0] == "hang":
            if "shape:cyclic-symbol-definition" in tags:
                n_cyc += 1
                if n_cyc > cyc_cap:
                    unconfirmed.append((text, o, tags + ["handler:" + h]))
                    continue
            else:
                n_hang += 1
                if n_hang > hang_cap:
                    unconfirmed.append((text, o, tags + ["handler:" + h, "shape:hang"]))
                    continue
        tasks.append((idx, text, h, 5.0))
    groups = {}                               # signature -> [count, shortest text, o, tags, handler]
    for idx, o2, sig, tags in pmap(G.confirm_task, tasks):
        if sig == "good":
            run.bump("bad_outcomes_not_confirmed_in_fresh_process")
            continue
        text, h = bytext[idx], bad[idx][0]
        cyc = "shape:cyclic-symbol-definition" in tags
        key = (sig, cyc)
        g = groups.setdefault(key, [0, text, o2, tags, h])
        g[0] += 1
        if len(text) < len(g[1]):
            g[1], g[2], g[3], g[4] = text, o2, tags, h
    run.note("hangs_reported_without_confirmation", len(unconfirmed))
    hang_confirmed = any(k[0] == "hang" and not k[1] for k in groups)
    for text, o, tags in unconfirmed:
        if "shape:cyclic-symbol-definition" in tags:
            report_bad(run, text, o, tags, "grammar text with a cyclic definition never terminates (first run; confirmation capped)")
        elif hang_confirmed:
            groups[("hang", False)][0] += 1
        else:
            run.bump("bad_outcomes_not_confirmed_in_fresh_process")
    # shortest example of every kind of bad run, minimised (not for the open finding: its examples are known)
    todo = [(k, g) for k, g in groups.items() if not (k[1] and k[0] in ("hang", "exception:DeferredCycle@deferred.py:__enter__", "exception:RecursionError"))]
    mins = pmap(G.minimise_task, [(g[1], g[4], k[0], 2.0 if k[0] == "hang" else 5.0, 30 if k[0] == "hang" else 120) for k, g in todo])
    for (k, g), small in zip(todo, mins):
        g.append(small)
    for (sig, cyc), g in groups.items():
        cnt, text, o2, tags, h = g[:5]
        small = g[5] if len(g) > 5 else text
        what = {"hang": "never terminates", "exception": "dies with an internal exception", "error": "fails without an error diagnostic",
                "ok": "succeeds although an error was reported"}[o2[0]]
        tags = list(tags) + ["handler:" + h]
        if not cyc:
            tags.append("shape:" + sig)
        report_bad(run, small, o2, tags, f"grammar text ({cnt} texts of this kind; handler {h}) {what}",
                   {"count": cnt, "signature": sig, "unminimised_example": text if small != text else None})
    good_long = [t for t in bytext.values() if t.count("\n") >= 30]
    if good_long:
        run.sample({"source": good_long[0][:600], "note": "a simulated long program (truncated)"})
    # ---------------------------------------------------------------- Lazy.tla: role D verdicts + replay
    lazy_part(run, lazy_res, thorough)
    run.exhaustive = False
    run.assumptions += ["the renderer harness/grammar.py maps token classes to text (trusted)",
                        "bounds of DESIGN section 4: repeat/align/shift counts are small literals (texts outside are dropped and counted)",
                        "hang = 1 s (quick: 0.6 s) of CPU time without finishing in the first pass, confirmed with 5 s of CPU time in a fresh process",
                        "Lazy.tla: MaxHeap/MaxStk/MaxMag bound the model; 'diverged' predictions are confirmed by replay"]
    run.note("wall_total_s", round(time.time() - t_start, 1))


def lazy_part(run, lazy_res, thorough):
    exports = []
    for job, res in lazy_res:
        exp = job["expect"]
        if exp is None:
            if res.violated:
                # a counterexample on the model: decide on the real code
                prog = L.prog_from_tail(res.tail)
                src = L.render(prog) if prog else None
                o = G.fresh(src, cpu=3.0, ) if src else None
                cls = L.real_class(o) if o else None
                if o is not None and cls not in ("ok", "unrecoverable"):
                    report_bad(run, src, o, G.shape_tags(src, o[0], o[1]), f"Lazy.tla {res.violated} violated ({job['name']}) and the real assembler")
                else:
                    raise MachineryError(f"Lazy.tla: {res.violated} violated in '{job['name']}' but the real assembler gives {cls} for {src!r}: "
                                         f"the model is wrong\n{res.tail[-1500:]}")
            exports += [(job["name"], r) for r in res.exports]
            run.bump("lazy_configs_checked")
        else:
            if exp not in res.violated and not (exp == "Terminates" and "temporal" in res.violated):
                if job["kind"] == "selftest":
                    raise MachineryError(f"self-test '{job['name']}': {exp} was not violated (vacuous property?)")
                run.not_exercised.append(f"Lazy.tla no longer violates {exp} in '{job['name']}' (model and finding out of date?)")
                continue
            if job["kind"] == "selftest":
                run.bump("lazy_selftests_passed")
                continue
            prog = L.prog_from_tail(res.tail)
            if not prog:
                raise MachineryError(f"could not read the counterexample program of '{job['name']}'\n{res.tail[-1200:]}")
            src = L.render(prog)
            o = G.fresh(src, cpu=3.0)
            cls = L.real_class(o)
            run.sample({"tlc_counterexample_of": exp, "program": src, "real_outcome": cls})
            run.bump("lazy_counterexamples_replayed")
            if cls in ("ok", "unrecoverable"):
                run.not_exercised.append(f"TLC counterexample of {exp} ({src!r}) is not reproduced by the real assembler ({cls}): model out of date")
            else:
                report_bad(run, src, o, G.shape_tags(src, o[0], o[1]), f"TLC counterexample of {exp} reproduced on the real assembler")
    # ---- replay of every exported prediction
    seen = {}
    for name, r in exports:
        if r["injected"]:
            continue
        key = json.dumps(r["prog"], sort_keys=True)
        if key in seen and seen[key]["outcome"] != r["outcome"] and not {seen[key]["outcome"], r["outcome"]} <= {"spin", "diverged"}:
            raise MachineryError(f"Lazy.tla predicts two outcomes for {key}")
        seen[key] = r
    recs = list(seen.values())
    term = [r for r in recs if r["outcome"] not in ("spin", "diverged")]
    hang = [r for r in recs if r["outcome"] in ("spin", "diverged")]
    import random
    rnd = random.Random(run.seed)
    rnd.shuffle(hang)
    hang_n = len(hang) if thorough and len(hang) <= 600 else min(len(hang), 600 if thorough else 24)
    hang_sel = hang[:hang_n]
    run.note("lazy_programs_exported", len(recs))
    run.note("lazy_predicted", dict(collections.Counter(r["outcome"] for r in recs)))
    run.note("lazy_hang_predictions_replayed", hang_n)
    tasks = [(c, 2.0) for c in G.chunks(term, 100)] + [(c, 1.0 if thorough else 0.6) for c in G.chunks(hang_sel, 3)]
    mism = 0
    agree = collections.Counter()
    groups = {}            # (what, pred, real, acyclic) -> [count, shortest source, o, tags, rec]

    def group(what, pred, real, rec, src, o, tags):
        if run._match_known(tags) is not None:          # the open finding: counted one by one
            report_bad(run, src, o, tags, f"Lazy.tla program (model: {pred})")
            return
        g = groups.setdefault((what, pred, real.split(" ")[0], rec["acyclic"]), [0, src, o, tags, rec, real])
        g[0] += 1
        if len(src) < len(g[1]):
            g[1:] = [src, o, tags, rec, real]
    for part in pmap(lazy_task, tasks):
        for rec, o in part:
            src = L.render(rec["prog"])
            real = L.real_class(o)
            pred = rec["outcome"]
            ok = L.agrees(pred, real)
            if ok and pred == "ok":
                want = rec["vals"] if isinstance(rec["vals"], dict) else {}
                got = L.listing_values(o[5])
                if want != got:
                    ok = False
                    real = f"ok with values {got} (model: {want})"
            run.add_eval(1)
            run.add_nontrivial(src)
            agree[(pred, ok)] += 1
            if not ok:
                mism += 1
            if real not in ("ok", "unrecoverable") and not real.startswith("ok with"):
                tags = G.shape_tags(src, o[0], o[1])
                if not rec["acyclic"] and "shape:cyclic-symbol-definition" not in tags:
                    tags.append("shape:cyclic-symbol-definition")
                if rec["acyclic"]:
                    tags.append("shape:acyclic-definitions")
                group("bad run", pred, real, rec, src, o, tags)
            elif not ok and rec["acyclic"]:
                group("wrong result", pred, real, rec, src, o, ["shape:acyclic-definitions", "outcome:" + real.split(" ")[0]])
            elif not ok:
                run.bump("lazy_model_drift_on_cyclic_programs")
                if len(run.not_exercised) < 12:
                    run.not_exercised.append(f"model prediction {pred} for {src!r} not met by the real assembler ({real}): Lazy.tla out of date for cyclic programs")
    for (what, pred, realc, acyclic), (cnt, src, o, tags, rec, real) in groups.items():
        if what == "bad run":
            report_bad(run, src, o, tags, f"Lazy.tla program ({cnt} programs of this kind; model: {pred})", {"count": cnt, "model": pred})
        else:
            report_bad(run, src, o, tags, f"acyclic program ({cnt} of this kind): the language (Den in Lazy.tla) says {pred} {rec['vals']}, the assembler gives {real}",
                       {"count": cnt, "model": pred, "model_values": rec["vals"]})
    run.note("lazy_replay_agreement", {f"{k[0]}/{'agree' if k[1] else 'DISAGREE'}": v for k, v in agree.items()})
    run.note("lazy_replay_mismatches", mism)
    t_ok = [r for r in term if r["outcome"] == "ok" and r["acyclic"] and len(r["prog"]) >= 3]
    if t_ok:
        run.sample({"program": L.render(t_ok[len(t_ok) // 2]["prog"]), "predicted": "ok", "values": t_ok[len(t_ok) // 2]["vals"]})
    c_ok = [r for r in term if r["outcome"] == "ok" and not r["acyclic"]]
    if c_ok:
        run.sample({"program": L.render(c_ok[0]["prog"]), "predicted": "ok (cyclic text whose dependence cancels)", "values": c_ok[0]["vals"]})
