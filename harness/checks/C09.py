"""C09  Relocation law: only absolute address words move with the base.

(D)    AsmCore.tla / RelocAlphabet: TLC evaluates every program at four link bases and checks RelocationLaw (images have
       equal length and differ, word by word, by 0 or exactly the base difference) on every accepted even-sized program.
(M->C) every program is assembled by the real code at the same four bases (one of them makes addresses wrap through
       0o177777); each real image must equal the image predicted for that base, rejections must be rejected; in
       addition the word-wise differences of the REAL images are compared with the differences of the predicted ones.
"""
import random

from ..asmcore import explore, explore_given, explore_replay, replay_all, kinds_of
from .. import gen as generators

BASES = [512, 16384, 57342, 65534]          # 0o1000, 0o40000, 0o157776, 0o177776 (addresses wrap)


def absrefs(rec):
    """number of word positions that move between the first two bases in the prediction"""
    a, b = sorted(rec["runs"], key=lambda r: r["base"])[:2]
    if not (a["ok"] and b["ok"]) or len(a["image"]) != len(b["image"]):
        return 0
    return sum(1 for i in range(0, len(a["image"]) - 1, 2) if a["image"][i:i + 2] != b["image"][i:i + 2])


def nontrivial(rec):
    return rec["ok"] and absrefs(rec) >= 1 and bool(kinds_of(rec) & {"insn"})


def main(run):
    thorough = run.tier == "thorough"
    run.rule = ("programs written by TLC over RelocAlphabet (immediate/absolute/index/relative operands, branches, sob, .word of "
                "labels, differences and '.', constants, .repeat, .include) assembled at bases 0o1000 0o40000 0o157776 0o177776; "
                "non-trivial = accepted program with at least one instruction and at least one absolute address word (a word whose "
                "predicted value moves with the base); distinct by abstract program")
    opts = {"harness_link": True, "check_syms": False, "mid_link": True}      # harness '.link' at the start, at the end, and in the middle of the text
    tasks, inc = explore_replay(run, "RelocAlphabet", "RelocIncFiles", 3, 1, BASES if thorough else [512, 57342, 65534], opts, nontrivial,
                                keep=40000, label="AsmCore relocation, all programs of <= 3 statements")
    t4, _ = explore_replay(run, "RelocCoreAlphabet", "RelocIncFiles", 5 if thorough else 4, 1, BASES, opts, nontrivial, keep=40000,
                           label=f"AsmCore relocation core, all programs of <= {5 if thorough else 4} statements", timeout=6000)
    tasks += t4
    t5, _ = explore_replay(run, "RelocTwoAlphabet", "RelocIncFiles", 2, 2, BASES if thorough else [512, 57342], opts, nontrivial, keep=40000,
                           label="AsmCore relocation, two linked files x <= 2 statements (exhaustive)", timeout=6000)
    tasks += t5
    recs2, inc2 = explore(run, "RelocAlphabet", "RelocIncFiles", 7, 2, BASES, simulate=(2000 if thorough else 200), depth=15,
                          seed=run.seed + 3, label="AsmCore relocation simulation (<= 7 stmts x 2 files)")
    tasks2 = replay_all(run, recs2, inc2, opts, nontrivial)
    rnd = random.Random(run.seed + 37)
    progs = [generators.lazy_program(rnd, own_link=False) for _ in range(3000 if thorough else 300)]
    recs3, inc3 = explore_given(run, progs, "LayoutIncFiles", [512, 16384, 57342], label=f"AsmCore given: {len(progs)} generated lazy-engine programs")
    tasks2 += replay_all(run, recs3, inc3, opts, nontrivial)
    run.note("lazy_engine_programs", {"generated": len(progs), "accepted_by_spec": sum(1 for r in recs3 if r["ok"])})
    hist = {}
    pic = 0
    for t in tasks + tasks2:
        if t[0]["ok"]:
            n = absrefs(t[0])
            hist[n] = hist.get(n, 0) + 1
            if n == 0 and kinds_of(t[0]) & {"insn"}:
                pic += 1
    run.note("accepted_programs_by_number_of_absolute_words", {str(k): v for k, v in sorted(hist.items())})
    run.note("position_independent_programs_with_instructions", pic)
    ex = [t for t in tasks if nontrivial(t[0])]
    if ex:
        run.sample({"abstract": ex[len(ex) // 2][0]["files"], "predicted_runs": ex[len(ex) // 2][0]["runs"][:2]})
    run.exhaustive = False
    run.assumptions += ["instruction encodings of the ten instruction forms used in AsmCore.tla are transcribed from the PDP-11 handbook",
                        "RelocationLaw is checked by TLC on the predicted images; the real images are compared with the predicted ones base by base"]
