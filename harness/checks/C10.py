"""C10  Spelling does not matter.

spec/Lex.tla models a program as a sequence of abstract tokens and defines the rewrite rules CaseFlip,
Trivia, Radix, Bracket, RegAlias, Synonym, WordListForm and LegacyDeferred, each with its enabling
condition (= where the language is deliberately spelling-sensitive; every exclusion is listed in the module
header with a witness program).

(D)    TLC checks RewritePreservesTokens for every token string up to a bound (Mode "strings") and for the
       abstract token windows of real statements (Mode "sites"): no ENABLED rewrite changes Canon;
       ExclusionsAreNecessary / Controls are ASSUMEs of the module.
(bind) Mode "sites" also returns the enabled sites of every rule for each window; they must equal what the
       independent tokenizer / site finder harness/lex.py computed for the same tokens.
(M->C) TLC simulates rewrite BEHAVIOURS (steps: rule, site selector, parameter, density), checking
       CanonStable along them; they are replayed on real source text -- the 21 practice programs and the
       generated programs below -- each rule alone (projection of a behaviour to one rule) and composed.
       Original and variant are assembled by the real code: success, base and bytes must be identical
       (warnings ignored).
"""
import hashlib
import json
import os
import random
import tempfile
import time
from concurrent.futures import ThreadPoolExecutor

from ..common import MachineryError, tmp_root
from ..drive import asm, pmap
from ..tlc import run_tlc, require_ok
from .. import corpus, lex

# Generated programs: every statement and operand kind (all addressing modes, expressions with all bracket
# styles and radices, data directives, labels / local labels, .repeat, FP instructions, synonyms ...).
GEN_PROGRAMS = {
"escapes": """
; character literals that consist of escapes only: the escape letter and the hex digits are spelling
e:      mov #'\\n, r0
        cmpb (r1)+, #'\\x1b
        .word '\\t, "\\x0a\\x0d, '\\x6e + 1, "\\r\\x4a
        bic #"\\x5f\\n, @#e
        .byte '\\x0a, '\\x0c, 'n, 'X
        .word 'a, "\\x2bc, "xA
""",
"modes": """
start:  mov r0, r1
        mov (r1), (r2)+
        mov @(r3)+, -(r4)
        mov @-(r5), 2(r0)
        mov @4(r1), #5
        mov #177777, @#1000
        mov start, @start
        mov tab(r2), tab+2(r3)
        mov -2(sp), @-4(r5)
        mov (sp)+, -(sp)
        mov pc, sp
tab:    .word 1, 2, 3
""",
"single": """
x:      clr r0
        clrb (r1)
        com @r2
        inc x
        decb @#x
        neg 10(r3)
        adc r4
        sbc (r5)+
        tst -(sp)
        ror r0
        rolb r1
        asr @(r2)+
        asl @-(r3)
        swab r4
        sxt r5
        mfps r0
        mtps #340
""",
"branch": """
top:    br top
1:      bne 1
        beq 2
2:      bge top
1$:     blt 1$
        bgt 2$
2$:     ble 1$
        bpl top
        bmi top
        bhi top
        blos top
        bvc top
        bvs top
        bcc top
        bhis top
        bcs top
        blo top
        sob r1, top
        sob r2, 1$
10$:    sob r3, 10$
""",
"calls": """
        jsr pc, sub1
        jsr r5, @#sub1
        call sub1
        call @(r1)+
        jmp sub1
        jmp @r2
        jmp (r2)
        callr sub1
        rts pc
        rts r5
sub1:   ret
        return
        halt
        hlt
        nop
        wait
        rti
        rtt
        bpt
        iot
        reset
""",
"eis": """
        mul r1, r0
        mul #12, r2
        div (r1)+, r2
        ash #-3, r1
        ash @r3, r1
        ashc 2(r4), r2
        xor r0, (r1)
        xor r3, @#v
        sob r0, .
v:      .word 0
""",
"fp": """
        setf
        setd
        seti
        setl
        cfcc
        ldf (r1), ac0
        ldd (r1)+, ac1
        stf ac2, (r2)
        std ac3, -(r2)
        addf ac1, ac0
        addd #40200, ac1
        subf 2(r1), ac2
        subd @r3, ac3
        mulf ac4, ac0
        muld ac5, ac1
        divf (r4), ac0
        divd ac1, ac2
        cmpf ac1, ac0
        cmpd (r0), ac3
        modf ac2, ac1
        modd (r5), ac0
        clrf ac0
        clrd (r1)
        tstf ac1
        tstd @r2
        absf ac2
        absd (r3)+
        negf ac3
        negd -(r4)
        ldcdf ac1, ac0
        ldcfd (r1), ac2
        stcdf ac0, ac1
        stcfd ac1, (r2)
        stcfi ac0, r1
        stcfl ac1, (r2)
        stcdi ac2, @r3
        stcdl ac3, 2(r4)
        ldcif r0, ac0
        ldclf (r1), ac1
        ldcid @r2, ac2
        ldcld 4(r3), ac3
        ldexp r1, ac0
        stexp ac1, r2
        ldfps #0
        stfps r0
        stst (r1)
        ldf r1, ac0
        clrf r2
""",
"exprs": """
a = 5
b = 3
        .word a + b, a - b, a * b, a / b, a % b
        .word a << 2, a >> 1, a _ 2, a _ -1
        .word a & b, a ^ b, a | b, a ! b
        .word -a, +a, ~a, ^C a, ^Cb
        .word (a + b) * 2, <a + b> * 2, ^/a + b/ * 2
        .word ((a + 1) * (b + 2)), <<a + 1> * <b + 2> >, ^|^/a + 1/ * ^/b + 2/|
        .word a * (b - <a / 2> + ^?1?), -(a), -<b>, ~(a ! b)
        .word (1 + 2) * 3 + <4 - 1> / (2)
        mov #<a + b> * 2, r0
        mov #(a - b), r1
        mov #^/a * b/, r2
        mov <a + b>(r1), r3
        mov (a * 2)(r1), r3
""",
"radix": """
        .word 17, 15., 0xf, 0o17, 0b1111, ^Xf, ^O17, ^B1111, ^D15
        .word 177777, 65535., 0xffff, 0XFFFF, ^xFfFf, ^B1111111111111111
        .word 0, 0., 0x0, 0o0, 0b0, ^X0, ^O0, ^B0, ^D0
        .word -1, -1., -0x1, -^X1, - ^D1
        .byte 377, 255., 0xff, ^O377
        mov #10, r0
        mov #10., r0
        mov #0x10, r0
        mov #^B10, 10(r1)
        mov 0x10(r2), ^D10(r3)
        .blkw 2.
        .blkb ^X4
""",
"data": """
        .byte 1, 2, 3
        .db 4, 5
        .even
        .word 1000, 2000
        .dw 3000
        .dword 100000, 1
        .byte 7
        .odd
        .even
        .blkb 3
        .byte 1
        .align 4
        .blkw 2
        .word
        .byte
        .even
""",
"implicit": """
lab:    1, 2, 3
        lab, lab + 2
        100
        15., 0x10
        .word lab
        . - lab, 7
        -1, 5
        .word 5, lab
        .word lab, 6
""",
"repeat": """
        .repeat 3 { nop }
        .repeat 2 {
            mov r0, r1
            .word 1, 2
        }
        .repeat 2. { .repeat 0x2 { .byte 1 } }
        .repeat 0 { halt }
        .repeat <1 + 1> { inc r0 }
""",
"assign": """
        .link 2000
one = 1
two == 2
Three = one + two
        . = . + 4
beg:    .word one, two, three, beg
        . = beg + 20
fin:    .word fin - beg
sz = fin - beg
        .word sz, .
""",
"strings": """
msg:    .ascii "Hello; World"
        .asciz /a (b) <c> 'd'/
        .even
        mov #msg, r0
        .ascii "ab" <12> <15> "cd"
        .rad50 "abc"
        .rad50 /ABCDEF/
        .even
        .word msg
        .asciz "x"
        .even
        nop
""",
"chars": """
        mov #'a, r0
        mov #'A, r1
        mov #'; , r2
        mov #"ab, r3
        mov #"AB, r4
        cmpb (r0), #' 
        .word 'x, "xy, ^Rabc, ^RABC, ^Rx
        .word 'a + 1, <'b - 'a> * 2, ^R123
        .byte '(, '), '<, '/
""",
"traps": """
        emt 20
        emt 0x10
        trap 377
        sys 1
        trap 0
        mark 2
        spl 7
        spl 0
        xfc 5
""",
"ccodes": """
        clc
        clv
        clz
        cln
        ccc
        clnzvc
        sec
        sev
        sez
        sen
        scc
        senzvc
        clvc
        sezc
        senzv
""",
"legacy": """
        mov @r1, r2
        mov r1, @r2
        mov @%1, @%2
        mov @sp, @pc
        clr @r3
        jmp @r4
        jsr pc, @r5
        mov (r1), (r2)
        cmp (sp), (r0)
        tst (r3)
        jsr r5, (r4)
        ldf @r1, ac0
""",
"pctregs": """
        mov %0, %1
        mov (%2)+, -(%3)
        mov @(%4)+, @-(%5)
        mov 2(%6), @4(%7)
        clr %3
        jsr %7, (%1)
        rts %7
        sob %1, .
        mul %1, %0
        xor %2, (%3)
        mov @%1, (%2)
        mov r6, r7
        mov (r6)+, -(r7)
        mov 2(r6), 4(r7)
""",
"names": """
r10:    .word r10
spx:    .word spx, pcx
pcx = 5
mov1:   .word mov1
        nop
_u2 = 7
        nop
_under: .word _under, _u2
        nop
$dollar: .word $dollar
a.b:    .word a.b, a$b
a$b = 1
R8 = 2
        .word R8, r8
        mov r10, spx
        mov #mov1, _under
        clr $dollar
BigName: .word BigName, bigname, BIGNAME
ac7 = 3
        .word ac7
""",
"dots": """
        .word .
        .word . + 2, . - 2
beg:    mov #., r0
        mov #. - beg, r1
        jmp . + 4
        nop
        br . + 2
        .word . - beg
""",
"multiline": """
        .word 1,
              2,
              3
        mov r0,
            r1
        .byte 1, 2,
              3, 4
tab:    .word tab,
              tab + 2
        mov #1 *
            2, r0
        .word (1 *
               2), <3 *

               4>
""",
"comments": """
; leading comment
        nop             ; trailing
        ; indented comment (r0) "quote

\tmov r0, r1\t;tab

        nop;no space
   ;;; more
        .word 1 ; , 2
        .word 3;4

        halt
""",
"macro11": """
        .TITLE  TEST PROGRAM ; not a comment
        .SBTTL  Sub title, with (brackets)
        .IDENT  /V01/
START:  MOV     #<TABEND-TABLE>/2,R0
        MOV     #TABLE,R1
LOOP:   CLR     (R1)+
        SOB     R0,LOOP
        MOV     #^C<17>,R2
        BIC     #^C377,R2
        MOV     #<1+2>*<3+4>,R3
        HALT
TABLE:  .WORD   1,2,3,4
        .BLKW   10
TABEND:
        .END
""",
"unary": """
a = 12
        .word -a, - a, -(a), - (a + 1)
        .word ~a, ~ a, ~(a), ^C<a>, ^c a
        .word +a, + (a)
        .word - 5, -5, - ^X5
        .word a * -1, a + -2, a - -2
        mov #-1, r0
        mov #- 1, r0
        mov # - <a>, r0
        mov -(r1), r0
        mov - (r1), r0
        mov -2(r1), r0
        mov @-(r1), @ - (r2)
""",
"vm2": """
        med
        med6x
        med74c
        ldsc
        mns
        msn
        mpp
        sta0
        mrs
        stb0
        stq0
        ldub
        start
        step
        rd
        urd
        uwr
        rdpc
        wrpc
        rdps
        wrps
        u3000
        mfpt
""",
"stack": """
        push r0
        push #5
        push (r1)+
        push @#1000
        pop r0
        pop (r1)
        pop @#1000
        mfpi r0
        mtpi (r1)
        mfpd @r2
        mtpd 2(r3)
        csm r0
        tstset (r1)
        wrtlck (r2)
""",
"externs": """
        .extern a1
a1:     .word b1
b1::    .word a1
c1 == 5
        .word c1
        .extern c1x
c1x:    nop
""",
"hoist": """
a = 2
b = 4
        mov 2+2(r1), r0
        mov a+b(r2), r0
        mov a+b*2(r3), r0
        mov -a(r4), r0
        mov @a+2(r5), r0
        mov @-4(r5), r0
        mov <a+b>(r1), @<a-b>(r2)
        mov a(r1), b(r2)
        mov a (r1), b (r2)
        clr @0(r3)
        clr @(r3)
""",
"immexpr": """
beg:    nop
fin:
        mov #<fin-beg>/2, r0
        mov #^/fin-beg/, r1
        mov #(fin - beg) * 2 + 1, r2
        mov @#beg + 2, r3
        mov @#<beg + 2>, r4
        add #fin - beg, r5
        cmp #(1), #<1>
        bit #^/1/, #^|2|
""",
"endjunk": """
        nop
        .word 1
        .END
this is junk (after) .end 'x
""",
"casemix": """
        MoV R0, r1
        mOV (R1)+, -(Sp)
        .WoRd 0X1F, 0B101, 0O17, ^xaB, ^Xab
LaBeL:  JmP lAbEl
        Br LABEL
        .Byte 1
        .EVEN
        LDF (R1), AC0
        AddF Ac1, aC0
        sob R1, label
""",
}


def cfg(mode, maxlen, steps, invs):
    return ("SPECIFICATION Spec\nCONSTANTS Mode = \"%s\"\n MaxLen = %d\n MaxSteps = %d\n" % (mode, maxlen, steps)
            + "".join(f"INVARIANT {i}\n" for i in invs) + "CHECK_DEADLOCK FALSE\n")


# --------------------------------------------------------------------------------------- programs
_PROGRAMS = None


def programs():
    """[(id, file name used for assembling, text, timeout)]"""
    global _PROGRAMS
    if _PROGRAMS is None:
        out = []
        for name, src, _ in corpus.programs():
            out.append(("corpus/" + name, src, open(src, encoding="utf-8").read(), 120.0))
        for name, text in GEN_PROGRAMS.items():
            out.append(("gen/" + name, name + ".mac", text, 10.0))
        _PROGRAMS = out
    return _PROGRAMS


def observe(fname, text, timeout):
    r = asm([(fname, text)], timeout=timeout)
    return (r["outcome"], r["base"], r["code"]), r


def run_original(i):
    pid, fname, text, timeout = programs()[i]
    obs, r = observe(fname, text, timeout)
    lx = lex.tokenize(text)
    sites = {rule: len(lx.ctx.sites(rule)) for rule in lex.RULES}
    wins = lex.windows(lx)
    return {"obs": obs, "sites": sites, "windows": wins, "junk": sum(1 for t in lx.toks if t.k == "junk"),
            "tokens": len(lx.toks), "errors": [x[1] for x in r["reports"] if x[0] != "warning"][:3], "exc": r["exc"]}


def apply_behaviour(text, steps):
    done = []
    for st in steps:
        text, n_done, n_sites = lex.apply_step(text, st)
        done.append([st["r"], n_done, n_sites])
    return text, done


def run_variant(task):
    """task = (program index, behaviour label, steps, expected observation)"""
    i, label, steps, expected = task
    pid, fname, text, timeout = programs()[i]
    new, done = apply_behaviour(text, steps)
    if new == text:
        return {"i": i, "label": label, "same_text": True, "done": done, "ok": True}
    obs, r = observe(fname, new, timeout)
    res = {"i": i, "label": label, "same_text": False, "done": done, "ok": obs == expected, "outcome": obs[0],
           "h": hashlib.blake2b(new.encode(), digest_size=8).hexdigest()}
    if not res["ok"]:
        res["got"] = [obs[0], obs[1], len(obs[2]) if obs[2] is not None else None]
        res["reports"] = [[x[0], x[1], x[2][0][3] if x[2] else None] for x in r["reports"] if x[0] != "warning"][:5]
        res["exc"] = r["exc"]
        res["variant"] = new
    return res


def run_shrink(task):
    i, label, steps, expected = task
    return shrink(i, steps, expected)


def shrink(i, steps, expected):
    """Locate the first step after which the images differ, then a single site of that step that suffices."""
    pid, fname, text, timeout = programs()[i]
    cur = text
    t_end = time.time() + 10.0               # diagnosis only: bounded effort
    for k, st in enumerate(steps):
        nxt, n_done, n_sites = lex.apply_step(cur, st)
        if nxt != cur and observe(fname, nxt, timeout)[0] != expected:
            out = {"first_bad_step": k, "step": st, "before_step": cur, "after_step": nxt}
            for j in range(min(n_sites, 400)):
                if time.time() > t_end:
                    break
                one = dict(st, d=0, n=j)
                cand, d1, _ = lex.apply_step(cur, one)
                if cand != cur and observe(fname, cand, timeout)[0] != expected:
                    out["single_site_step"] = one
                    out["after_step"] = cand
                    a = 0
                    while a < min(len(cur), len(cand)) and cur[a] == cand[a]:
                        a += 1
                    ls = cur.rfind("\n", 0, a) + 1
                    out["line_before"] = cur[ls:cur.find("\n", a) if cur.find("\n", a) >= 0 else len(cur)]
                    out["line_after"] = cand[ls:cand.find("\n", a) if cand.find("\n", a) >= 0 else len(cand)]
                    break
            return out
        cur = nxt
    return {"first_bad_step": None}


# --------------------------------------------------------------------------------------- rewriter conformance
# The exported behaviours carry the abstract program they were generated on (`prog`) and the program TLC's
# ApplyStep produced (`final`).  The abstract program is rendered to text, the same steps are applied by
# harness/lex.py, the result is tokenized again and must equal `final` (token kinds, spellings, register numbers,
# values, bracket styles; trivia and case aside): lex.apply_step implements Lex.tla's ApplyStep.
_MN = {1: ["ret", "return"], 2: ["bcc", "bhis"]}
_DIRS = {0: [".word", ".dw"], 100: [".ascii"], 8: [".repeat"]}
_OPS = {1: "/", 10: "*"}
_PLAIN = {"comma": ",", "hash": "#", "at": "@", "pct": "%", "minus": "-", "plus": "+", "dot": ".", "lbrace": "{", "rbrace": "}"}


def render_tok(x):
    k = x["k"]
    if k == "mn":
        return lex.render_case(_MN[x["v"]][x["s"]], x["u"])
    if k == "dir":
        return lex.render_case(_DIRS[x["v"]][x["s"]], x["u"])
    if k == "reg":
        return lex.render_case(lex.reg_forms(x["v"])[x["s"]], x["u"])
    if k == "num":
        return lex.render_case(lex.render_number(x["v"], x["s"]), x["u"])
    if k == "sym":
        return lex.render_case("ab", x["u"])
    if k == "str":
        return lex.render_case("'\\x1b", x["u"]) if x["s"] == 1 else "'/"
    if k == "loc":
        return "1$"
    if k == "op":
        return _OPS[x["v"]]
    if k == "open":
        return "(" if x["s"] == 0 else "<" if x["s"] == 1 else "^" + lex.DELIMS[x["v"] - 1]
    if k == "close":
        return ")" if x["s"] == 0 else ">" if x["s"] == 1 else lex.DELIMS[x["v"] - 1]
    if k == "colon":
        return "::" if x["s"] else ":"
    if k == "eq":
        return "==" if x["s"] else "="
    if k == "nl":
        return "\n"
    return _PLAIN[k]


def render_abstract(prog):
    out, opaque = [], False
    for x in prog:
        if x["k"] == "nl":
            opaque = False
        out.append('"/"' if (opaque and x["k"] == "str") else render_tok(x))
        if x["k"] == "dir" and x["b"] == 2:
            opaque = True
    return " ".join(out)


def project(toks):
    out, opaque = [], False
    for x in toks:
        k = x["k"]
        if k == "nl":
            opaque = False
            if out and out[-1] != ("nl",):
                out.append(("nl",))
            continue
        if k in ("triv", "blob") or opaque:
            continue
        if k == "dir" and x["b"] == 2:
            opaque = True
            out.append(("strdir",))
        elif k in ("mn", "dir"):
            out.append((k, x["s"], x["b"]))
        elif k in ("reg", "num"):
            out.append((k, x["v"], x["s"]))
        elif k in ("open", "close"):
            out.append((k, x["s"], x["v"]))
        elif k in ("colon", "eq"):
            out.append((k, x["s"]))
        else:
            out.append((k,))
    while out and out[0] == ("nl",):
        out.pop(0)
    return out


def conform(e):
    """-> None if harness/lex.py reproduces TLC's result for this behaviour, else a description"""
    text0 = render_abstract(e["prog"])
    back = project([t.abstract() for t in lex.tokenize(text0).toks])
    if back != project(e["prog"]):
        return {"where": "render/tokenize round trip", "text": text0, "lex_py": back, "lex_tla": project(e["prog"])}
    text = text0
    for st in e["steps"]:
        text, _, _ = lex.apply_step(text, st)
    mine = project([t.abstract() for t in lex.tokenize(text).toks])
    theirs = project(e["final"])
    if mine != theirs:
        return {"where": "result of the steps", "text": text0, "rewritten": text, "steps": e["steps"], "lex_py": mine, "lex_tla": theirs}
    return None


# --------------------------------------------------------------------------------------- behaviours
def dedupe(exports):
    seen, out = set(), []
    for e in exports:
        key = json.dumps(e["steps"][:-1])
        if key in seen:
            continue
        seen.add(key)
        out.append(e["steps"])
    return out


def projections(behaviours):
    """rule -> list of single-rule behaviours (projection of a TLC behaviour to the steps of one rule);
    those that rewrite many sites (density 2, then 1) first."""
    per = {r: [] for r in lex.RULES}
    for b in behaviours:
        for r in lex.RULES:
            sub = [s for s in b if s["r"] == r]
            if sub:
                per[r].append(sub)
    for r in per:
        per[r].sort(key=lambda sub: -max(s["d"] for s in sub))
    return per


def main(run):
    thorough = run.tier == "thorough"
    rnd = random.Random(run.seed)
    run.rule = ("a variant = a program (21 practice programs + %d generated ones) rewritten by one TLC-generated behaviour "
                "(single-rule projection or composition of up to 6 steps; a step rewrites one site, a hashed quarter of the "
                "sites or all sites of its rule); non-trivial = distinct variant texts that differ from the original and were "
                "assembled and compared (outcome, base, bytes)" % len(GEN_PROGRAMS))
    progs = programs()
    n_prog = len(progs)

    # ---------------------------------------------------------------- originals, sites, windows
    orig = pmap(run_original, list(range(n_prog)))
    # The original is one spelling among the others: every variant is compared with it, whatever its outcome.
    not_ok = [pid for (pid, *_), o in zip(progs, orig) if o["obs"][0] != "ok"]
    run.note("originals_not_assembling_on_this_tree", not_ok)
    run.add_eval(n_prog)
    wins = {}
    for (pid, *_), o in zip(progs, orig):
        for w in o["windows"]:
            wins.setdefault(lex.window_key(w), (w, pid.startswith("gen/")))
    win_list = [w for w, g in wins.values() if g]
    corpus_wins = [w for w, g in wins.values() if not g]
    rnd.shuffle(corpus_wins)
    win_list += corpus_wins if thorough else corpus_wins[:250]
    run.note("statement_windows_distinct", len(wins))
    run.note("statement_windows_checked", len(win_list))
    run.note("sites_per_rule_all_programs", {r: sum(o["sites"][r] for o in orig) for r in lex.RULES})
    run.note("statements_not_understood_by_the_tokenizer(opaque)", sum(o["junk"] for o in orig))

    # ---------------------------------------------------------------- TLC: three runs side by side
    case_dir = tempfile.mkdtemp(prefix="c10-", dir=tmp_root())
    case_file = os.path.join(case_dir, "cases.json")
    with open(case_file, "w") as f:
        json.dump(win_list, f)
    n_sim = 600 if thorough else 45
    n_steps = 6

    def tlc_strings():
        return run_tlc("Lex", cfg_text=cfg("strings", 4 if thorough else 3, 0, ["TypeOK", "RewritePreservesTokens"]),
                       label="Lex strings (exhaustive)", timeout=3000 if thorough else 600, workers=16 if thorough else 8)

    def tlc_sites():
        return run_tlc("Lex", cfg_text=cfg("sites", 0, 0, ["TypeOK", "RewritePreservesTokens", "ExportSites"]),
                       env={"CASE_FILE": case_file, "JAVA_TOOL_OPTIONS": "-Xss64m"}, label="Lex sites (real statement windows)",
                       timeout=3000 if thorough else 600,
                       workers=16 if thorough else 6)

    def tlc_behave(k):
        return run_tlc("Lex", cfg_text=cfg("behave", 2, n_steps, ["TypeOK", "CanonStable", "ExportBehaviour"]),
                       simulate=n_sim // 3, depth=n_steps + 5, seed=run.seed * 10 + 1 + k, workers=1,
                       env={"JAVA_TOOL_OPTIONS": "-Xss64m"},        # deep (not unbounded) recursion in ApplyStep
                       label=f"Lex behaviours (simulation {k})", timeout=1800 if thorough else 240)

    try:
        with ThreadPoolExecutor(max_workers=5) as ex:
            futs = [ex.submit(tlc_strings), ex.submit(tlc_sites)] + [ex.submit(tlc_behave, k) for k in range(3)]
            results = [f.result() for f in futs]
    finally:
        try:
            os.remove(case_file)
            os.rmdir(case_dir)
        except OSError:
            pass
    res_strings, res_sites = results[0], results[1]
    for res in results:
        run.add_tlc(res)
        if res.violated:
            # (TLC prints the counterexample after further 'Error:' lines; they are not machinery errors)
            run.violation(f"model: invariant {sorted(set(res.violated))} violated in Lex.tla ({res.label})", {"tail": res.tail[-3000:]})
        else:
            require_ok(res)
    if any(res.violated for res in results):
        return
    run.note("witnessed_exclusions(ASSUME ExclusionsAreNecessary)", 23)

    # ---------------------------------------------------------------- site agreement lex.py <-> Lex.tla
    if res_sites.n_exports != len(win_list):
        raise MachineryError(f"sites mode answered {res_sites.n_exports} of {len(win_list)} windows")
    mism = 0
    enabled_total = {r: 0 for r in lex.RULES}
    for e in res_sites.exports:
        w = win_list[e["cid"] - 1]
        mine = lex.Ctx(w).enabled_table()
        for r in lex.RULES:
            a = [list(x) if isinstance(x, (list, tuple)) else x for x in mine[r]]
            b = [list(x) if isinstance(x, (list, tuple)) else x for x in e["tab"][r]]
            enabled_total[r] += len(b)
            if a != b:
                mism += 1
                run.violation(f"binding: enabled sites of {r} differ between harness/lex.py and Lex.tla on window "
                              f"{[(x['k'], x['s']) for x in w]}: lex.py {a} Lex.tla {b}",
                              {"rule": r, "window": w, "lex_py": a, "lex_tla": b})
    run.note("site_agreement_windows", len(res_sites.exports))
    run.note("site_agreement_mismatches", mism)
    run.note("enabled_rewrites_in_windows_per_rule", enabled_total)
    run.add_traces(len(res_sites.exports))

    # ---------------------------------------------------------------- behaviours
    behaviours = []
    n_conf = 0
    for res in results[2:]:
        behaviours += dedupe(res.exports)
        for e in res.exports:
            n_conf += 1
            bad = conform(e)
            if bad is not None:
                run.violation(f"binding: harness/lex.py applies a behaviour differently from Lex.tla ({bad['where']}): "
                              f"text {bad['text']!r} steps {json.dumps(e['steps'])[:300]} lex.py {bad['lex_py']} Lex.tla {bad['lex_tla']}", bad)
    run.note("rewriter_conformance_behaviours(lex.py result == Lex.tla final)", n_conf)
    run.add_traces(n_conf)
    if len(behaviours) < 8:
        raise MachineryError(f"only {len(behaviours)} behaviours exported")
    per_rule = projections(behaviours)
    for r in lex.RULES:
        if not per_rule[r]:
            raise MachineryError(f"no simulated behaviour contains a step of rule {r}")
    run.note("behaviours", len(behaviours))
    run.note("steps_per_rule", {r: sum(len(sub) for sub in per_rule[r]) for r in lex.RULES})
    run.sample({"behaviour": behaviours[0]})

    # ---------------------------------------------------------------- replay plan
    tasks = []
    for i, (pid, fname, text, _) in enumerate(progs):
        is_corpus = pid.startswith("corpus/")
        n_single = (1 if is_corpus else 2) * (20 if thorough else 1)       # per rule
        n_comp = (4 if is_corpus else 24) * (20 if thorough else 1)
        for r in lex.RULES:
            pool = per_rule[r]
            start = rnd.randrange(len(pool))
            for k in range(min(n_single, len(pool))):
                # the first single-rule behaviour of every program is a mass rewrite when one exists
                sub = pool[0] if (k == 0 and pool[0][0]["d"] == 2 and thorough is False and i % 2 == 0) else pool[(start + k) % len(pool)]
                tasks.append((i, f"{r}#{k}", sub, orig[i]["obs"]))
        start = rnd.randrange(len(behaviours))
        for k in range(min(n_comp, len(behaviours))):
            tasks.append((i, f"comp#{k}", behaviours[(start + k) % len(behaviours)], orig[i]["obs"]))
    # big programs first, spread over the workers
    order = sorted(range(len(tasks)), key=lambda j: -len(progs[tasks[j][0]][2]))
    tasks = [tasks[j] for j in order]
    results = pmap(run_variant, tasks, chunksize=1 if not thorough else 4)

    # ---------------------------------------------------------------- verdicts
    rewritten = {r: 0 for r in lex.RULES}
    variants_per_rule = {r: 0 for r in lex.RULES}
    comp_variants = 0
    unchanged = 0
    failing = []
    some_ok = set()
    for task, res in zip(tasks, results):
        i, label, steps, expected = task
        pid, fname, text, _ = progs[i]
        if res["same_text"]:
            unchanged += 1
            continue
        run.add_eval(1)
        run.add_nontrivial((pid, res["h"]))
        if res["outcome"] == "ok":
            some_ok.add(pid)
        for r, n_done, n_sites in res["done"]:
            rewritten[r] += n_done
        if label.startswith("comp#"):
            comp_variants += 1
        else:
            variants_per_rule[label.split("#")[0]] += 1
        if not res["ok"]:
            failing.append((task, res))
    for pid in not_ok:
        if pid not in some_ok:
            run.not_exercised.append(f"{pid}: fails to assemble in the original and in every variant tried -- nothing to compare")
    # diagnosis (bounded): shrink a few failing cases, small programs and short behaviours first
    failing.sort(key=lambda tr: (len(progs[tr[0][0]][2]), len(tr[0][2])))
    detail = pmap(run_shrink, [t for t, _ in failing[:16]]) if failing else []
    for k, (task, res) in enumerate(failing):
        i, label, steps, expected = task
        pid, fname, text, _ = progs[i]
        d = detail[k] if k < len(detail) else {}
        st = d.get("single_site_step") or d.get("step")
        exp = f"({expected[0]}, base {expected[1]}, {len(expected[2]) if expected[2] is not None else None} bytes)"
        summary = (f"{pid}: variant by {label} {json.dumps(steps)[:200]} assembles differently from the original spelling: original "
                   f"{exp} variant {res['got']} reports={res['reports']} exc={res['exc']}; "
                   f"first differing step {d.get('first_bad_step')} {json.dumps(st)}; line {d.get('line_before')!r} -> {d.get('line_after')!r}")
        files = {"variant.mac": res["variant"], "steps.json": json.dumps(steps, indent=1)}
        if "before_step" in d:
            files["before_step.mac"] = d["before_step"]
            files["after_step.mac"] = d["after_step"]
        if pid.startswith("gen/"):
            files["original.mac"] = text
        run.violation(summary, {"program": pid, "file": fname, "label": label, "steps": steps, "got": res["got"],
                                "reports": res["reports"], "first_bad_step": d.get("first_bad_step"),
                                "single_site_step": d.get("single_site_step"),
                                "line_before": d.get("line_before"), "line_after": d.get("line_after")}, files=files)
    run.note("variants_single_rule", variants_per_rule)
    run.note("variants_composed", comp_variants)
    run.note("variants_with_unchanged_text(skipped)", unchanged)
    run.note("sites_rewritten_per_rule", rewritten)
    for r in lex.RULES:
        if rewritten[r] == 0:
            run.not_exercised.append(f"rule {r}: no site rewritten in this run")
    ex = next((t for t, res in zip(tasks, results) if not res["same_text"] and t[1].startswith("comp#") and progs[t[0]][0].startswith("gen/")), None)
    if ex is not None:
        new, done = apply_behaviour(progs[ex[0]][2], ex[2])
        run.sample({"program": progs[ex[0]][0], "steps": ex[2], "original_head": progs[ex[0]][2][:300], "variant_head": new[:400]})
    run.exhaustive = False
    run.assumptions += [
        "the tokenizer harness/lex.py classifies the tokens of the source text correctly (statements it does not understand "
        "are opaque and never rewritten); its enabling conditions are cross-checked against Lex.tla on every statement window",
        "the synonym table and the register / radix / bracket spellings are those of the property statement (PDP-11 handbooks, MACRO-11)",
        "included files of the corpus programs are not rewritten (only the main file)",
    ]
