"""C11  Symbol scoping and linking.

(D)    AsmCore.tla / ScopeAlphabet: declared scoping (local labels between ordinary labels of their own file instance, private
       symbols per file and per included file, exports by '::', '==', '.extern', '.extern all'; own definition first; invisible
       reference, duplicate definition and duplicate export are errors) evaluated by TLC on every program it writes over 1-3
       linked files and two includable files.
(M->C) each program is assembled by the real code; the image (every reference is a '.word name' / 'br 1' / 'mov #name' probe and
       every definition has a distinct value), the listed symbol values and the accept/reject outcome must match the prediction.
"""
from ..asmcore import explore, replay_all, kinds_of


def nontrivial(rec):
    k = kinds_of(rec)
    multi = len(rec["files"]) > 1 or "include" in k
    return multi and bool(k & {"word", "insn"}) and bool(k & {"label", "const"})


def main(run):
    thorough = run.tier == "thorough"
    run.rule = ("programs written by TLC over ScopeAlphabet: names {a, b}, locals {1, 2}, ':' '::' '=' '==' '.extern a' '.extern a, b' "
                "'.extern all', references by .word / mov # / br, .repeat body referencing a local, includes of two files (one exporting, "
                "one with private and local symbols), 1-3 linked files; non-trivial = multi-file or including program with at least one "
                "definition and one reference; distinct by abstract program")
    bases = [512]
    recs, inc = explore(run, "ScopeAlphabet", "ScopeIncFiles", 3, 1, bases, label="AsmCore scope, 1 file x 3 stmts (exhaustive)")
    tasks = replay_all(run, recs, inc, {"harness_link": True}, nontrivial)
    if thorough:
        recs1, inc1 = explore(run, "ScopeAlphabet", "ScopeIncFiles", 2, 2, bases, label="AsmCore scope, 2 files x 2 stmts (exhaustive)", timeout=3000)
        tasks += replay_all(run, recs1, inc1, {"harness_link": True}, nontrivial)
    recs2, inc2 = explore(run, "ScopeAlphabet", "ScopeIncFiles", 4, 3, bases, simulate=(20000 if thorough else 2500), depth=15,
                          seed=run.seed + 11, label="AsmCore scope simulation (<= 4 stmts x 3 files)")
    tasks += replay_all(run, recs2, inc2, {"harness_link": True}, nontrivial)
    acc = [t for t in tasks if t[0]["ok"] and nontrivial(t[0])]
    rej = [t for t in tasks if not t[0]["ok"] and nontrivial(t[0])]
    if acc:
        run.sample({"abstract": acc[len(acc) // 2][0]["files"], "predicted": acc[len(acc) // 2][0]["runs"][0]})
    if rej:
        run.sample({"abstract": rej[len(rej) // 2][0]["files"], "predicted": "rejected (invisible reference, duplicate definition or duplicate export)"})
    run.note("nontrivial_accepted", len(acc))
    run.note("nontrivial_rejected", len(rej))
    run.exhaustive = False
    run.assumptions += ["exporting a name the file does not define is outside the declared domain (counted as skipped, not replayed)",
                        "one export form per symbol; two forms for one symbol are predicted (and measured) to be a duplicate-export error"]
