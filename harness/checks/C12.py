"""C12  The link base is what the source says, or an error.

(D)    AsmCore.tla / LinkAlphabet: the base is evaluated symbolically as a linear form k*LA + c; it is defined iff k = 0 and no
       non-linear operator was applied to a base-dependent value; a second .link is an error; once the base is set '. = X' is a
       forward zero-filling skip, backward is an error; default base 0o1000.
(M->C) every program TLC writes (the directive at every position, labels before/after/in other files, intermediate symbols,
       shifts, division of differences) is assembled by the real code: predicted base + image + symbol values, or rejection.
"""
from ..asmcore import explore, explore_replay, replay_all, kinds_of


def nontrivial(rec):
    k = kinds_of(rec)
    return bool(k & {"link", "dotset"}) and bool(k & {"label"})


def main(run):
    thorough = run.tier == "thorough"
    run.rule = ("programs written by TLC over LinkAlphabet: 13 .link expressions (constant, negative, K+e-s, K+2*(e-s), (e-s)/2+K, "
                "K+((e-s)<<1), via intermediate symbol, e, e/2, K+e-2, .+8, (e<<1)-(s<<1), (e-s)>>0), 7 '. =' forms (base-setting when "
                "leading, else skips of 0..64 forward or backward), labels s/e, data; 1-2 files; non-trivial = program with a "
                ".link/'. =' and at least one label; distinct by abstract program")
    recs, inc = explore(run, "LinkAlphabet", "LayoutIncFiles", 3, 1, [512], harness_link=False, label="AsmCore link, 1 file x 3 stmts (exhaustive)")
    tasks = replay_all(run, recs, inc, {"harness_link": False}, nontrivial)
    t4, _ = explore_replay(run, "LinkCoreAlphabet", "LayoutIncFiles", 5 if thorough else 4, 1, [512], {"harness_link": False}, nontrivial, keep=100000,
                           label=f"AsmCore link core, all programs of <= {5 if thorough else 4} statements", timeout=6000)
    tasks += t4
    if thorough:
        t1, _ = explore_replay(run, "LinkAlphabet", "LayoutIncFiles", 4, 1, [512], {"harness_link": False}, nontrivial, keep=100000,
                               label="AsmCore link, 1 file x 4 stmts (exhaustive)", timeout=6000)
        tasks += t1
    recs2, inc2 = explore(run, "LinkAlphabet", "LayoutIncFiles", 5, 2, [512], harness_link=False, simulate=(15000 if thorough else 2000),
                          depth=12, seed=run.seed + 5, label="AsmCore link simulation (<= 5 stmts x 2 files)")
    tasks += replay_all(run, recs2, inc2, {"harness_link": False}, nontrivial)
    own_ok = [t for t in tasks if t[0]["own"] == "ok" and t[0]["ok"] and nontrivial(t[0])]
    own_err = [t for t in tasks if t[0]["own"] == "err"]
    run.note("programs_setting_their_base", len(own_ok))
    run.note("programs_with_rejected_base", len(own_err))
    run.note("distinct_predicted_bases", sorted({r["base"] for t in own_ok for r in t[0]["runs"]})[:40])
    if own_ok:
        run.sample({"abstract": own_ok[len(own_ok) // 2][0]["files"], "predicted": own_ok[len(own_ok) // 2][0]["runs"][0]})
    if own_err:
        run.sample({"abstract": own_err[len(own_err) // 2][0]["files"], "predicted": "rejected: base depends on itself / second .link"})
    run.exhaustive = False
    run.assumptions += ["a base expression that involves a size unknown before the base is known (.even/.align/'. =' between the labels) is "
                        "outside the declared domain: exported with skip=TRUE and not replayed",
                        "'. =' as the FIRST base-setting statement is only generated in leading position (the property speaks of a leading '. =')"]
