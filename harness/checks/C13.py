"""C13  Output containers carry exactly the image.

spec/Tape.tla      record formats (raw, bin, RIFF header), the BK-0010 tape READER (normal and turbo) as a
                   state machine over periods, a writer for role (D), and ChooseOutput (which files a CLI run
                   writes, where, in which format, with which tape name).
spec/TapeTrace.tla instantiates Tape.tla with the tape extracted from a file written by the REAL code.

(D)    TLC: ReadWriteRoundTrip over all images of 0-2 bytes x 3 bases x 2 names x {normal, turbo} x {real counts,
       lower bounds}, payloads whose sum is 65535 / 2*65535 / 65790 / 0; mutant writers must be refused.
(M->C) every ChooseOutput scenario exported by TLC is run through the real CLI in a scratch directory; the set of
       files written must be the predicted set, and every file goes into the trace batch with the predicted format
       and tape name.
(C->M) WAV/bin/raw files produced by pdpy11.formats.file_formats and by CLI runs are thresholded at 128,
       run-length-encoded into periods (this module does nothing else with them) and validated by TLC: the reader
       must end in Done with header = (base, len, name padded to 16 with spaces), data = image, checksum =
       end-around-carry sum, RIFF header consistent.  Corrupted copies must be REJECTED (self-test).
"""
import concurrent.futures
import hashlib
import json
import os
import random
import re
import tempfile
from pathlib import Path

from ..common import MachineryError, tmp_root, rmtree
from ..drive import asm, mods, pmap, run_cli, snapshot
from ..tlc import run_tlc, require_ok

# ------------------------------------------------------------------------------ samples -> periods
_TH = bytes(1 if b >= 128 else 0 for b in range(256))
_PERIOD = re.compile(rb"\x01*\x00*")


def periods(samples):
    """Threshold at 128, split into (high run, low run) periods, run-length encode identical periods.
    -> flat list h, l, n, h, l, n, ...   Nothing else is interpreted here."""
    out = []
    for m in _PERIOD.finditer(samples.translate(_TH)):
        s = m.group()
        if not s:
            continue
        h = s.count(b"\x01")
        l = len(s) - h
        if out and out[-3] == h and out[-2] == l:
            out[-1] += 1
        else:
            out += [h, l, 1]
    return out


def file_record(fmt, base, name, img, content):
    """Trace record for one written file.  fmt: n | t | bin | raw."""
    if fmt in ("n", "t"):
        return {"mode": fmt, "base": base, "name": list(name), "img": list(img), "riff": list(content[:44]),
                "p": periods(content[44:])}
    return {"mode": fmt, "base": base, "name": [], "img": list(img), "riff": [], "p": list(content)}


# ------------------------------------------------------------------------------ direct file_formats cases
def payload(rnd, kind, n):
    if kind == "zero":
        return bytes(n)
    if kind == "ff":
        return b"\xff" * n
    if kind == "asc":
        return bytes((i * 7 + 1) & 255 for i in range(n))
    if kind == "bits":
        return bytes([0x01, 0x80, 0x02, 0x40, 0x55, 0xAA, 0x0F, 0xF0][i % 8] for i in range(n))
    if kind.startswith("sum") or kind.startswith("tot"):      # byte sum = k * 65535, or exactly the given total
        k = int(kind[3:])
        target = k * 65535 if kind.startswith("sum") else k
        if not (0 < target <= 255 * n):
            return bytes(rnd.randrange(256) for _ in range(n))
        b = [rnd.randrange(256) for _ in range(n)]
        diff = target - sum(b)
        order = list(range(n))
        rnd.shuffle(order)
        for i in order:
            if diff == 0:
                break
            d = max(-b[i], min(255 - b[i], diff))
            b[i] += d
            diff -= d
        assert sum(b) == target
        return bytes(b)
    return bytes(rnd.randrange(256) for _ in range(n))


def tape_name(rnd, n):
    if n == 0:
        return b""
    alphabet = b"ABCXYZabcz0189 .-_$" + bytes([0xC1, 0xD1, 0xFF, 0xA0, 0x00, 0x7F])
    return bytes(rnd.choice(alphabet) for _ in range(n))


def direct_cases(run):
    rnd = random.Random(1000 + run.seed)
    thorough = run.tier == "thorough"
    bases = [0, 0o1000, 0o177776, 0o40000, 0o100000, 0o777, 0xFFFF]
    kinds = ["rand", "rand", "zero", "ff", "asc", "bits", "rand"]
    cases = []

    def add(mode, n, kind, base=None, name=None):
        i = len(cases)
        cases.append({"mode": mode, "base": bases[i % len(bases)] if base is None else base,
                      "name": tape_name(rnd, (i * 5) % 17) if name is None else name,
                      "img": payload(rnd, kind, n), "kind": kind})

    if thorough:
        for n in range(0, 65):
            for mode in ("n", "t"):
                add(mode, n, kinds[(n + (mode == "t")) % len(kinds)])
        for n in sorted(rnd.sample(range(65, 1025), 250) + rnd.sample(range(1025, 4097), 100) + [256, 257, 258, 4095, 4096]):
            add(rnd.choice("nt"), n, rnd.choice(kinds))
    else:
        small = [0, 1, 2, 3, 7, 8, 9, 15, 16, 17, 20, 31, 32, 33, 63, 64] + rnd.sample(range(4, 63), 4)
        for j, n in enumerate(small):
            add("nt"[j % 2], n, kinds[j % len(kinds)])
            if n <= 2 or n == 64:
                add("tn"[j % 2], n, kinds[(j + 3) % len(kinds)])
    # payloads whose byte sum is a non-zero multiple of 65535 (checksum must be 0xFFFF, not 0), all-zero (checksum 0)
    add("n", 257, "ff", base=0o1000, name=b"FF257")
    add("t", 257, "ff", base=0, name=b"")
    add("n", 64, "zero", base=0o177776, name=b"0123456789ABCDEF")
    add("t", 300, "sum1")
    add("t", 258, "ff", name=b"CARRY")              # sum 65790 > 65535: one end-around carry (distinguishes % 65536)
    add("n", 520, "rand")
    # byte sums whose two 16-bit halves add up to a second carry: 0x1ffff, 0x2fffe, 0x2ffff (a checksum that folds the carry
    # only once is one too small there although it is right for every multiple of 65535)
    add("n", 515, "tot131071", name=b"FOLD1")
    add("t", 772, "tot196606", name=b"FOLD2")
    add("n", 771 + 2, "tot196607")
    add("n", 600 if thorough else 300, "sum1")
    if thorough:
        add("n", 514, "ff")
        add("t", 514, "ff")
        for n, k in ((300, 1), (700, 2), (1500, 3), (2000, 5), (4096, 8), (4096, 15), (1029, 4)):
            add(rnd.choice("nt"), n, f"sum{k}")
        add("n", 4096, "zero")
        add("t", 4096, "ff")
    # two large ones in every tier
    add("n", 4096, "rand", name=b"BIG NORMAL")
    add("t", 4096, "sum8", name=b"BIG TURBO")
    return cases


def gen_direct(case):
    ff = mods()["formats"].file_formats
    fn = ff["bk_wav" if case["mode"] == "n" else "bk_turbo_wav"]
    name16 = case["name"].ljust(16, b" ")          # the API takes the 16-byte field; padding is add_emitted_bk_wav's job (CLI cases)
    wav = fn(case["base"], case["img"], name16)
    rec = file_record(case["mode"], case["base"], case["name"], case["img"], bytes(wav))
    recs = [rec]
    if case.get("also_bin"):
        recs.append(file_record("bin", case["base"], b"", case["img"], bytes(ff["bin"](case["base"], case["img"]))))
        recs.append(file_record("raw", case["base"], b"", case["img"], bytes(ff["raw"](case["base"], case["img"]))))
    return recs


# ------------------------------------------------------------------------------ CLI scenarios (ChooseOutput)
def _join(dir_, name):
    return "/".join(list(dir_) + [".".join(name)])


def render_directive(d, root, variant=0):
    p = d["p"]
    d = dict(d, cmd=[d["cmd"], d["cmd"].upper(), d["cmd"], d["cmd"].title()][variant % 4])      # directive names are case-insensitive
    if p["k"] == "none":
        return d["cmd"]
    path = _join(p["dir"], p["name"])
    if p["k"] == "abs":
        # an absolute path names the same file however it is spelled: plain, with a doubled slash, through '.', through 'dir/..'
        # (the first directory of the path exists: the harness creates the parents of every expected output)
        sep = ["/", "//", "/./", "/" + p["dir"][0] + "/../" if p["dir"] else "/./"][(variant // 4) % 4]
        path = root + sep + path
    line = f'{d["cmd"]} "{path}"'
    if d["tape"]["k"] == "text":
        line += f', "{d["tape"]["text"]}"'
    return line


def run_scenario(task):
    idx, rec = task
    sc = rec["sc"]
    root = tempfile.mkdtemp(prefix="c13-", dir=tmp_root())
    try:
        a, b, c = (idx * 37 + 1) & 255, (idx * 11 + 200) & 255, (idx // 256 + 3) & 255
        main = [".link 1000", f".byte {a:o}, {b:o}, {c:o}, 377"]
        inc = [f".byte {c:o}, {a:o}"]
        for d in sc["ds"]:
            (inc if d["inc"] else main).append(render_directive(d, root, idx + len(main) + len(inc)))
        uses_inc = any(d["inc"] for d in sc["ds"])
        if uses_inc:
            main.append('.include "lib/part.mac"')
        main_text, inc_text = "\n".join(main) + "\n", "\n".join(inc) + "\n"
        src_rel = _join(sc["srcDir"], sc["srcName"])
        inc_rel = "/".join(sc["srcDir"]) + "/lib/part.mac"
        files = {src_rel: main_text}
        if uses_inc:
            files[inc_rel] = inc_text
        # the image the containers must carry
        r0 = asm([(src_rel, main_text)], fs=({inc_rel: inc_text} if uses_inc else {}), timeout=20)
        asm_failed = r0["outcome"] != "ok"
        # '.link 1000' + '.byte's: if the in-process run fails (it must not), fall back to the image as written in the source
        by_construction = (0o1000, bytes([a, b, c, 255] + ([c, a] if uses_inc else [])))
        base, img = by_construction if asm_failed else (r0["base"], r0["code"])
        for rel, text in files.items():
            p = Path(root, rel)
            p.parent.mkdir(parents=True, exist_ok=True)
            if rel == src_rel and idx % 3 == 1:
                # every third scenario names its source through a symbolic link: the text lives elsewhere under another name; paths
                # are relative to the source file AS NAMED (defaults take the name given, includes are found beside it)
                real = Path(root, "_elsewhere", f"engine{idx}.mac")
                real.parent.mkdir(parents=True, exist_ok=True)
                real.write_text(text, encoding="utf-8")
                p.symlink_to(os.path.relpath(real, p.parent))
                continue
            p.write_text(text, encoding="utf-8")
        cwd = Path(root, *sc["cwd"])
        cwd.mkdir(parents=True, exist_ok=True)
        want = {_join(f["dir"], f["name"]): f for f in rec["files"]}
        for rel in want:
            Path(root, rel).parent.mkdir(parents=True, exist_ok=True)
            if idx % 2 == 0:
                # every other scenario finds an older, LONGER file at each output path (the previous build's): the new file replaces it
                Path(root, rel).write_bytes(bytes([0xEE]) * (400000 if want[rel]["fmt"] in ("n", "t") else 5000))
        src_arg = str(Path(root, src_rel)) if sc["srcAbs"] else os.path.relpath(Path(root, src_rel), cwd)
        args = [src_arg]
        o = sc["o"]
        if o["k"] == "rel":
            args += ["-o", _join(o["dir"], o["name"])]
        elif o["k"] == "abs":
            args += ["-o", root + "/" + _join(o["dir"], o["name"])]
        elif o["k"] == "stdout":
            nm = ".".join(o["name"])
            args += ["-o", "-"] if nm == "-" else ["-o" + nm]
        if sc["impl"]:
            args.append("--implicit-bin")
        before = snapshot(root)
        r = run_cli(args, cwd)
        after = snapshot(root)
        written = {rel for rel, sig in after.items() if before.get(rel) != sig}
        problems, records = [], []
        if asm_failed:
            # the scenario programs are plain valid programs; if the library entry point refuses one and the CLI refuses it
            # too, no requested output is written: a violation.  If the CLI builds it, its files are checked against the
            # image as written in the source.
            why = f"scenario source does not assemble: {r0['outcome']} {r0['exc']} {[x[1] for x in r0['reports']]}"
            if r["rc"] != 0 or r["hang"]:
                return {"idx": idx, "records": [], "files": files, "args": args, "cwd": "/".join(sc["cwd"]), "problems": [
                    (f"a valid program with output directives does not build (rc={r['rc']}): no requested output is written; {why}",
                     {"stderr": r["err"][-600:]})]}
        if r["hang"] or r["rc"] != 0:
            problems.append((f"CLI run failed (rc={r['rc']}, hang={r['hang']})", {"stderr": r["err"][-600:]}))
        missing, extra = sorted(set(want) - written), sorted(written - set(want))
        if missing or extra:
            problems.append((f"files written differ from the prediction: missing {missing}, unexpected {extra}",
                             {"predicted": sorted(want), "written": sorted(written), "stderr": r["err"][-600:]}))
        for rel, f in want.items():
            if rel not in written:
                continue
            content = Path(root, rel).read_bytes()
            t = f["tape"]
            name = (".".join(t["parts"]) if t["k"] == "parts" else t["text"]).encode("ascii") if f["fmt"] in ("n", "t") else b""
            x = file_record(f["fmt"], base, name, img, content)
            x["tag"] = f"scenario {idx}: {rel} as {f['fmt']}"
            records.append(x)
        if rec["stdout"] != "none":
            x = file_record(rec["stdout"], base, b"", img, r["out"])
            x["tag"] = f"scenario {idx}: stdout as {rec['stdout']}"
            records.append(x)
        return {"idx": idx, "records": records, "problems": problems, "files": files, "args": args, "cwd": "/".join(sc["cwd"]),
                "base": base, "img": img.hex()}
    finally:
        rmtree(root)


# ------------------------------------------------------------------------------ end-to-end make_wav cases
def e2e_cases(run):
    rnd = random.Random(2000 + run.seed)
    thorough = run.tier == "thorough"
    out = []
    specs = [("make_wav", 0o1000, "HELLO", 5, "rand"), ("make_turbo_wav", 0, "", 0, "rand"), ("make_wav", 0o177776, "0123456789ABCDEF", 2, "ff"),
             ("make_turbo_wav", 0o1000, "A", 257, "ff"), ("make_wav", 0o40000, None, 33, "bits"), ("make_turbo_wav", 0o100000, None, 64, "zero")]
    if thorough:
        for i in range(34):
            n = rnd.choice([0, 1, 2, 3, 10, 16, 17, 64, 65, 100, 257, 300, 512])
            nm = "".join(rnd.choice("ABCxyz019 .-") for _ in range(rnd.randrange(0, 17))) if i % 5 else None
            base = rnd.choice([0, 0o1000, 0o2000, 0o40000, 0o157000])
            specs.append((rnd.choice(["make_wav", "make_turbo_wav"]), base, nm, n, rnd.choice(["rand", "ff", "zero", "sum1", "asc"])))
    for i, (cmd, base, nm, n, kind) in enumerate(specs):
        out.append({"i": i, "cmd": cmd, "base": base, "name": nm, "img": payload(rnd, kind, n)})
    return out


def run_multi(case):
    """One program with several output directives of the same kind (each file must carry ITS tape name), or two source
    files with --implicit-bin (the implicit output is named after the FIRST source)."""
    root = tempfile.mkdtemp(prefix="c13m-", dir=tmp_root())
    try:
        img = case["img"]
        lines = [f".link {case['base']:o}"]
        for i in range(0, len(img), 16):
            lines.append(".byte " + ", ".join(f"{b:o}" for b in img[i:i + 16]))
        for cmd, rel, name in case["directives"]:
            lines.append(f'{cmd} "{rel}"' + (f', "{name}"' if name is not None else ""))
        text = "\n".join(lines) + "\n"
        second = case.get("second")
        srcs = [("main.mac", text)] + ([("data.mac", second)] if second else [])
        r0 = asm(srcs, timeout=30)
        if r0["outcome"] != "ok":
            return {"machinery": f"multi source does not assemble: {r0['outcome']} {r0['exc']} {[x[1] for x in r0['reports']]}", "src": text}
        for n, t in srcs:
            Path(root, n).write_text(t, encoding="utf-8")
        r = run_cli(case.get("args", []) + [n for n, _ in srcs], root)
        problems, records = [], []
        want = {rel: (cmd, name) for cmd, rel, name in case["directives"]}
        if case.get("implicit"):
            want[case["implicit"]] = ("implicit-bin", None)
        if r["rc"] != 0 or r["hang"]:
            problems.append((f"CLI run failed (rc={r['rc']})", {"stderr": r["err"][-600:]}))
        if sorted(r["changed"]) != sorted(want):
            problems.append((f"files written {sorted(r['changed'])}, expected {sorted(want)}", {"stderr": r["err"][-600:]}))
        for rel, (cmd, name) in want.items():
            if rel not in r["changed"]:
                continue
            fmt = {"make_wav": "n", "make_turbo_wav": "t", "make_bin": "bin", "implicit-bin": "bin", "make_raw": "raw"}[cmd]
            nm = b"" if fmt in ("bin", "raw") else (name.encode("ascii") if name is not None else rel.rsplit("/", 1)[-1].rsplit(".wav", 1)[0].encode("ascii"))
            x = file_record(fmt, r0["base"], nm, r0["code"], r["changed"][rel])
            x["tag"] = f"multi {case['i']}: {cmd} {rel} name={name!r}"
            records.append(x)
        return {"records": records, "problems": problems, "src": text}
    finally:
        rmtree(root)


def multi_cases(run):
    rnd = random.Random(3000 + run.seed)
    return [
        {"i": 0, "base": 0o1000, "img": payload(rnd, "rand", 9), "directives": [("make_wav", "first.wav", "ALPHA"), ("make_wav", "second.wav", "BETA")]},
        {"i": 1, "base": 0o2000, "img": payload(rnd, "rand", 5), "directives": [("make_turbo_wav", "t1.wav", "GAMMA"), ("make_turbo_wav", "t2.wav", None),
                                                                               ("make_wav", "n3.wav", "DELTA")]},
        {"i": 2, "base": 0o1000, "img": payload(rnd, "rand", 4), "directives": [("make_bin", "a.bin", None), ("make_bin", "b.bin", None), ("make_raw", "c.raw", None)]},
        {"i": 3, "base": 0o1000, "img": payload(rnd, "rand", 6), "directives": [], "second": "\t.byte 1, 2\n", "args": ["--implicit-bin"], "implicit": "main.bin"},
        {"i": 4, "base": 0o1000, "img": payload(rnd, "rand", 4), "directives": [], "second": "\t.word 5\n", "args": ["-o", "both.bin"], "implicit": "both.bin"},
        # the '.bin' suffix of '-o' selects the bin container whatever its letter case (pinned: DESIGN 3.6 only says "-o x.bin => bin")
        {"i": 5, "base": 0o2000, "img": payload(rnd, "rand", 7), "directives": [], "args": ["-o", "PROG.BIN"], "implicit": "PROG.BIN"},
        {"i": 6, "base": 0o1000, "img": payload(rnd, "rand", 5), "directives": [], "args": ["-o", "Mixed.Bin"], "implicit": "Mixed.Bin"},
        {"i": 7, "base": 0o1000, "img": payload(rnd, "rand", 5), "directives": [("make_wav", "empty.wav", ""), ("make_turbo_wav", "tempty.wav", "")]},
    ]


def run_e2e(case):
    root = tempfile.mkdtemp(prefix="c13e-", dir=tmp_root())
    try:
        img = case["img"]
        lines = [f".link {case['base']:o}"]
        for i in range(0, len(img), 16):
            lines.append(".byte " + ", ".join(f"{b:o}" for b in img[i:i + 16]))
        if case["name"] is None:
            lines.append(case["cmd"])
            out_rel, name = "tape.wav", b"tape"
        else:
            lines.append(f'{case["cmd"]} "out/t{case["i"]}.wav", "{case["name"]}"')
            out_rel, name = f"out/t{case['i']}.wav", case["name"].encode("ascii")
        text = "\n".join(lines) + "\n"
        r0 = asm([("tape.mac", text)], timeout=30)
        if r0["outcome"] != "ok":
            return {"machinery": f"e2e source does not assemble: {r0['outcome']} {r0['exc']} {[x[1] for x in r0['reports']]}", "src": text}
        Path(root, "out").mkdir()
        Path(root, "tape.mac").write_text(text, encoding="utf-8")
        r = run_cli(["tape.mac"], root)
        problems, records = [], []
        if r["rc"] != 0 or r["hang"]:
            problems.append((f"CLI run failed (rc={r['rc']})", {"stderr": r["err"][-600:]}))
        if sorted(r["changed"]) != [out_rel]:
            problems.append((f"files written {sorted(r['changed'])}, expected [{out_rel}]", {"stderr": r["err"][-600:]}))
        if out_rel in r["changed"]:
            fmt = "n" if case["cmd"] == "make_wav" else "t"
            x = file_record(fmt, r0["base"], name, r0["code"], r["changed"][out_rel])
            x["tag"] = f"e2e {case['i']}: {case['cmd']} base={case['base']:o} name={case['name']!r} len={len(img)}"
            records.append(x)
        return {"records": records, "problems": problems, "src": text}
    finally:
        rmtree(root)


# ------------------------------------------------------------------------------ self-test: corrupted traces
def corrupted(records):
    """Copies of recorded traces with one period / one header byte / one file byte changed.  TLC must reject all."""
    out = []

    def clone(r, what, **kw):
        x = {k: (list(v) if isinstance(v, list) else v) for k, v in r.items()}
        x.update(kw)
        x["tag"] = "self-test: " + what
        x["expect_reject"] = what
        out.append(x)
        return x

    n = next((r for r in records if r["mode"] == "n" and 3 <= len(r["img"]) <= 64 and any(r["img"])), None)
    t = next((r for r in records if r["mode"] == "t" and 3 <= len(r["img"]) <= 64 and any(r["img"])), None)
    b = next((r for r in records if r["mode"] == "bin" and len(r["img"]) >= 1), None)
    w = next((r for r in records if r["mode"] == "raw" and len(r["img"]) >= 1), None)
    if n:
        p = n["p"]
        longs = [i for i in range(0, len(p), 3) if (p[i], p[i + 1], p[i + 2]) == (4, 4, 1)]
        if len(longs) >= 5:
            for which, what in ((2, "first 1-bit of the header turned into a 0-bit"), (len(longs) // 2, "a 1-bit in the middle turned into a 0-bit"),
                                (len(longs) - 1, "last 1-bit turned into a 0-bit"), (1, "long period after the second marker shortened")):
                q = list(p)
                q[longs[which]], q[longs[which] + 1] = 2, 2
                clone(n, "normal tape, " + what, p=q)
        marks = [i for i in range(0, len(p), 3) if p[i] + p[i + 1] >= 12]
        if len(marks) >= 3:
            q = list(p)
            del q[marks[2]:marks[2] + 3]
            clone(n, "normal tape, third marker removed", p=q)
        riff = list(n["riff"])
        riff[22] = 2
        clone(n, "RIFF header says stereo", riff=riff)
        riff = list(n["riff"])
        riff[40] = (riff[40] + 1) & 255
        clone(n, "RIFF data length off by one", riff=riff)
        nm = list(n["name"]) or [65]
        nm[0] ^= 1
        clone(n, "expected name differs in one byte (header byte)", name=nm)
        clone(n, "expected base differs", base=n["base"] ^ 0x100)
        img = list(n["img"])
        img[-1] ^= 0x80
        clone(n, "expected image differs in one bit", img=img)
    if t:
        p = t["p"]
        ones = [i for i in range(0, len(p), 3) if p[i] == 3 and p[i + 1] == 2]
        if len(ones) >= 3:
            for which, what in ((0, "first 1-bit turned into a 0-bit"), (len(ones) - 1, "last 1-bit turned into a 0-bit")):
                q = list(p)
                if q[ones[which] + 2] == 1:
                    q[ones[which]] = 1
                else:                                   # split the run: change its first period only
                    q[ones[which] + 2] -= 1
                    q[ones[which]:ones[which]] = [1, 2, 1]
                clone(t, "turbo tape, " + what, p=q)
        pauses = [i for i in range(0, len(p), 3) if p[i] in (1, 3) and p[i + 1] >= 6]
        if pauses:
            q = list(p)
            q[pauses[0] + 1] = 2
            clone(t, "turbo tape, pause after the header removed", p=q)
    if b:
        q = list(b["p"])
        q[0] ^= 1
        clone(b, "bin file, base byte changed", p=q)
        q = list(b["p"])
        q[2] = (q[2] + 1) & 255
        clone(b, "bin file, length byte changed", p=q)
        q = list(b["p"])
        q[-1] ^= 4
        clone(b, "bin file, last image byte changed", p=q)
    if w:
        clone(w, "raw file with one extra byte", p=list(w["p"]) + [0])
    return out


# ------------------------------------------------------------------------------ TLC batches
TRACE_CFG = "SPECIFICATION Spec\nINVARIANT Accepted\nINVARIANT Verdict\nPOSTCONDITION Post\nCHECK_DEADLOCK FALSE\n"


def validate_shard(args):
    k, recs = args
    fd, path = tempfile.mkstemp(prefix=f"c13-shard{k}-", suffix=".json", dir=tmp_root())
    try:
        with os.fdopen(fd, "w") as f:
            json.dump([{kk: r[kk] for kk in ("id", "mode", "base", "name", "img", "riff", "p")} for r in recs], f, separators=(",", ":"))
        return run_tlc("TapeTrace", cfg_text=TRACE_CFG, workers=1, env={"TRACE_FILE": path}, timeout=1500, heap="3g",
                       label=f"TapeTrace shard {k}: {len(recs)} files, {sum(len(r['p']) for r in recs) // 3} events")
    finally:
        try:
            os.unlink(path)
        except OSError:
            pass


def design_check(full):
    invs = ["TypeOK", "ReadWriteRoundTrip", "MutantsRefused", "MutantsInvisible", "ChecksumNeverZeroOnCarry", "ChecksumClosedForm",
            "ExportDesign"]
    cfg = ("SPECIFICATION Spec\nCONSTANTS Mode = \"tape\"\n Full = %s\n" % ("TRUE" if full else "FALSE")
           + "".join(f"INVARIANT {i}\n" for i in invs) + "VIEW View\nCHECK_DEADLOCK FALSE\n")
    return run_tlc("Tape", cfg_text=cfg, workers=8, timeout=1500, label="Tape.tla role (D): writer vs reader, mutant writers")


def img_info(img):
    img = bytes(img)
    return {"len": len(img), "sum": sum(img), "hex": img.hex() if len(img) <= 400 else img[:64].hex() + "...",
            "sha1": hashlib.sha1(img).hexdigest()}


def main(run):
    thorough = run.tier == "thorough"
    run.rule = ("a file written by the real code (file_formats call or CLI run) whose decoding by Tape.tla's reader / record "
                "definitions was checked by TLC against (base, image, padded name, end-around-carry checksum, RIFF header); "
                "non-trivial = distinct (format, base, name, image) plus distinct CLI selector scenarios; images: lengths 0-64, "
                "sampled up to 4096, all-zero, all-0xFF, byte sums k*65535")

    # ---- (M->C) ChooseOutput scenarios, enumerated by TLC
    sel = require_ok(run_tlc("Tape", cfg_text="SPECIFICATION Spec\nCONSTANTS Mode = \"select\"\n Full = FALSE\nINVARIANT ExportScenario\n"
                             "CHECK_DEADLOCK FALSE\n", workers=4, timeout=300, label="Tape.tla ChooseOutput scenarios"))
    run.add_tlc(sel)
    scen = sorted((e for e in sel.exports if e.get("k") == "S"), key=lambda e: json.dumps(e, sort_keys=True))
    if len(scen) < 500:
        raise MachineryError(f"only {len(scen)} ChooseOutput scenarios exported\n{sel.tail[-800:]}")
    if not thorough:
        step = 3
        scen = [s for i, s in enumerate(scen) if i % step == run.seed % step or len(s["sc"]["ds"]) > 1
                or s["sc"]["o"]["k"] == "stdout" or any(d["tape"]["k"] != "none" for d in s["sc"]["ds"])]
    tasks = list(enumerate(scen))

    # ---- run the real code: scenarios, end-to-end tapes, direct file_formats calls
    scen_res = pmap(run_scenario, tasks)
    e2e = e2e_cases(run)
    multi = multi_cases(run)
    e2e_res = pmap(run_e2e, e2e) + pmap(run_multi, multi)
    e2e = e2e + [dict(m, cmd="multi:" + "+".join(d[0] for d in m["directives"]) + (" " + " ".join(m.get("args", [])) if m.get("args") else ""), name=None) for m in multi]
    direct = direct_cases(run)
    for i, c in enumerate(direct):
        c["also_bin"] = i % 4 == 0 or len(c["img"]) <= 2
    direct_res = pmap(gen_direct, direct)

    records, meta = [], {}

    def take(rec, m):
        rec["id"] = len(records) + 1
        records.append(rec)
        meta[rec["id"]] = m

    n_files = {"n": 0, "t": 0, "bin": 0, "raw": 0}
    for (idx, s), res in zip(tasks, scen_res):
        if "machinery" in res:
            raise MachineryError(f"scenario {idx}: {res['machinery']}")
        run.add_nontrivial(("scenario", json.dumps(s["sc"], sort_keys=True)))
        for what, detail in res["problems"]:
            run.violation(f"CLI scenario args={res['args']} cwd={res['cwd']} sources={list(res['files'])}: {what}",
                          {"scenario": s["sc"], "predicted_files": s["files"], "predicted_stdout": s["stdout"], "args": res["args"],
                           "cwd": res["cwd"], **detail}, files=res["files"])
        for x in res["records"]:
            take(x, {"kind": "scenario", "scenario": s["sc"], "args": res["args"], "cwd": res["cwd"], "files": res["files"]})
    run.note("cli_scenarios_run", len(tasks))
    run.note("cli_scenarios_by_selector", {
        "-o file": sum(1 for s in scen if s["sc"]["o"]["k"] in ("rel", "abs")), "-o stdout": sum(1 for s in scen if s["sc"]["o"]["k"] == "stdout"),
        "--implicit-bin": sum(1 for s in scen if s["sc"]["impl"]), "directive in included file": sum(1 for s in scen if any(d["inc"] for d in s["sc"]["ds"])),
        "cwd elsewhere": sum(1 for s in scen if s["sc"]["cwd"] != s["sc"]["srcDir"]),
        **{c: sum(1 for s in scen if any(d["cmd"] == c for d in s["sc"]["ds"])) for c in ("make_bin", "make_raw", "make_bk0010_rom", "make_wav", "make_turbo_wav")}})
    for c, res in zip(e2e, e2e_res):
        if "machinery" in res:
            raise MachineryError(res["machinery"])
        for what, detail in res["problems"]:
            run.violation(f"end-to-end {c['cmd']} base={c['base']:o} name={c['name']!r} len={len(c['img'])}: {what}", detail,
                          files={"tape.mac": res["src"]})
        for x in res["records"]:
            take(x, {"kind": "e2e", "files": {"tape.mac": res["src"]}})
    for c, recs in zip(direct, direct_res):
        for x in recs:
            x["tag"] = f"file_formats[{x['mode']}] base={c['base']:o} name={c['name']!r} len={len(c['img'])} kind={c['kind']}"
            take(x, {"kind": "direct", "case": c})
    real_n = len(records)
    for x in records:
        n_files[x["mode"]] += 1
        run.add_nontrivial((x["mode"], x["base"], bytes(x["name"]), hashlib.sha1(bytes(x["img"])).hexdigest()))
    bad = corrupted(records)
    if len(bad) < 12:
        raise MachineryError(f"self-test could build only {len(bad)} corrupted traces")
    for x in bad:
        take(x, {"kind": "selftest"})

    # ---- shards, balanced by number of events; run them and the design check concurrently
    nshards = 8 if thorough else 5
    shards = [[] for _ in range(nshards)]
    weight = [0] * nshards
    for x in sorted(records, key=lambda r: -len(r["p"])):
        k = weight.index(min(weight))
        shards[k].append(x)
        weight[k] += len(x["p"]) + 300
    with concurrent.futures.ThreadPoolExecutor(max_workers=nshards + 1) as pool:
        fd = pool.submit(design_check, thorough)
        fs = [pool.submit(validate_shard, (k, sh)) for k, sh in enumerate(shards) if sh]
        dres = fd.result()
        sres = [f.result() for f in fs]

    # ---- (D)
    require_ok(dres)
    run.add_tlc(dres)
    if dres.violated:
        run.violation(f"model: invariant {dres.violated} violated in Tape.tla role (D)", {"tail": dres.tail})
    dcls = {}
    for e in dres.exports:
        key = f"{e['mode']}/{e['mut']}/{'accepted' if e['ok'] else 'refused'}"
        dcls[key] = dcls.get(key, 0) + 1
    run.note("design_cases_by_class", dcls)
    if not any(k.startswith("n/none/accepted") for k in dcls) or not any(k.startswith("n/msb/refused") for k in dcls) \
            or not any(e["mut"] == "none" and e["bsum"] > 0 and e["bsum"] % 65535 == 0 and e["sum"] == 65535 for e in dres.exports):
        raise MachineryError(f"role (D) did not exercise the expected classes: {dcls}")

    # ---- (C->M) verdicts
    verdicts, accepted = {}, set()
    for res in sres:
        require_ok(res)
        run.add_tlc(res)
        post = [e for e in res.exports if e.get("k") == "P"]
        if len(post) != 1:
            raise MachineryError(f"{res.label}: no POSTCONDITION output\n{res.tail[-800:]}")
        accepted |= set(post[0]["accepted"])
        for e in res.exports:
            if e.get("k") == "V":
                verdicts[e["id"]] = e
    if set(verdicts) != set(meta):
        raise MachineryError(f"verdicts missing for trace ids {sorted(set(meta) - set(verdicts))[:10]}")
    if accepted != {i for i, v in verdicts.items() if v["ok"]}:
        raise MachineryError("accepted-id registers and verdict lines disagree")
    selftest = {}
    for x in records[real_n:]:
        v = verdicts[x["id"]]
        if v["ok"]:
            raise MachineryError(f"self-test: TLC ACCEPTED a corrupted trace ({x['expect_reject']}); the binding is vacuous")
        selftest[x["expect_reject"]] = v["why"] or f"reader Done, contents differ (phase {v['ph']})"
    run.note("selftest_corrupted_traces_rejected", selftest)
    ff = mods()["formats"].file_formats
    for x in records[:real_n]:
        v = verdicts[x["id"]]
        if v["ok"]:
            continue
        m = meta[x["id"]]
        hdr = v["hdr"]
        seen = {"reader_phase": v["ph"], "why": v["why"], "event": v["ei"], "offset": v["off"], "header_read": hdr,
                "data_bytes_read": v["nd"], "sum_accumulated": v["sum"], "checksum_read": v["ck"], "samples": v["ns"], "riff_ok": v["riffok"]}
        want = {"base": x["base"], "len": len(x["img"]), "name16": list(bytes(x["name"]).ljust(16, b" ")) if x["mode"] in "nt" else None,
                "image": img_info(x["img"])}
        if v["ph"] == "Done":
            diffs = []
            if x["mode"] != "raw" and hdr[:2] != [x["base"] & 255, x["base"] >> 8]:
                diffs.append(f"base read {hdr[:2]}")
            if x["mode"] != "raw" and hdr[2:4] != [len(x["img"]) & 255, len(x["img"]) >> 8]:
                diffs.append(f"length read {hdr[2:4]}")
            if x["mode"] in "nt" and hdr[4:20] != want["name16"]:
                diffs.append(f"name read {bytes(hdr[4:20])!r}")
            if x["mode"] in "nt" and v["ck"] != [v["sum"] & 255, v["sum"] >> 8]:
                diffs.append(f"checksum on tape {v['ck']} but end-around-carry sum is {v['sum']}")
            if not v["riffok"]:
                diffs.append("RIFF header inconsistent")
            why = "decoded contents differ: " + ("; ".join(diffs) or "data bytes differ from the image")
        else:
            why = f"reader refused the tape: {v['why']} (event {v['ei']}+{v['off']}, after {v['nd']} data bytes)"
        files = dict(m.get("files", {}))
        if m["kind"] == "direct":
            c = m["case"]
            name = {"n": "bk_wav", "t": "bk_turbo_wav"}.get(x["mode"])
            files["case.bin" if name is None else "case.wav"] = bytes(
                ff[x["mode"]](c["base"], c["img"]) if name is None else ff[name](c["base"], c["img"], c["name"].ljust(16, b" ")))
        run.violation(f"{x['tag']}: {why}", {"what": x["tag"], "expected": want, "observed": seen,
                                            **({"args": m["args"], "cwd": m["cwd"], "scenario": m["scenario"]} if m["kind"] == "scenario" else {})},
                      files=files)
    run.add_traces(real_n)
    run.add_eval(real_n + len(tasks))
    run.note("files_validated_by_format", n_files)
    run.note("selftest_traces", len(bad))
    run.note("direct_cases", len(direct))
    run.note("e2e_cases", len(e2e))
    run.note("largest_image", max(len(x["img"]) for x in records))
    run.note("sum_multiple_of_65535_cases", sum(1 for x in records[:real_n] if x["mode"] in "nt" and sum(x["img"]) and sum(x["img"]) % 65535 == 0))
    big = next((x for x in records if x["mode"] == "n" and len(x["img"]) == 257), None)
    if big:
        run.sample({"file": big["tag"], "checksum_read": verdicts[big["id"]]["ck"], "verdict": "accepted" if verdicts[big["id"]]["ok"] else "rejected"})
    sc_s = next((s for s in scen if any(d["inc"] and d["p"]["k"] == "rel" for d in s["sc"]["ds"]) and s["sc"]["cwd"] != s["sc"]["srcDir"]), None)
    if sc_s:
        run.sample({"scenario": sc_s["sc"]["ds"], "cwd": sc_s["sc"]["cwd"], "predicted_files": [_join(f["dir"], f["name"]) + " as " + f["fmt"] for f in sc_s["files"]]})
    run.sample({"largest": [x["tag"] for x in records if len(x["img"]) == 4096][:2]})
    run.exhaustive = False
    run.assumptions += [
        "normal tape format: BK-0010 monitor format as stated in Tape.tla (LSB first, lower bounds on pilot/trailer counts, end-around carry)",
        "TURBO format: the reader is PINNED from the loader's format constants (high run 1/3, low run 2, pilot >= 1024 x (3,3), marker, "
        "4-sample pauses); it is a regression oracle, not an independent one",
        "the WAV sample rate is only required to be positive and equal to the byte rate",
        "'-o -.ext' (stdout with the format chosen by extension) and make_bk0010_rom = bin are pinned from the CLI's behaviour",
        "the assembled image (base, bytes) is taken from the real assembler (asm()); C13 is about the containers",
        "periods() thresholds at 128 and run-length encodes; every other interpretation of the samples happens in TLA+",
        "file_formats['bk_wav'] is called with the 16-byte name field already padded; padding itself is checked through the CLI cases",
    ]
    run.not_exercised.append("source without .mac suffix + make_raw without a path (would overwrite the source; undefined by the property)")
