"""C14  The BK charset is a bijection consistent with ASCII and KOI-8.

(C->M, exhaustive)  The real codec is enumerated completely -- bytes([b]).decode('bk') for 256 bytes,
chr(c).encode('bk') for all 65 536 BMP code points (byte, or UnicodeEncodeError = refused) -- written
as one JSON trace and validated by TLC against the monitor of spec/BkCodec.tla (BkCodecTrace.tla):
ASCII on 0x00..0x7E, KOI8-R on 0xC0..0xFF (table committed in the module, generated once from
Python's standard koi8_r codec and re-asserted here at run time), injective decode, Encode(Decode(b))
= b, only the documented alias U+00A4 -> 0x24, everything else refused.  Corrupted copies of the trace
must be rejected by TLC (self-test of the binding).

(M->C)  TLC enumerates every string of <= 5 items over {good, good', bad, bad'} (several item sets)
plus simulated strings up to 12 items, each with the predicted outcome: the bytes, or an encoding
error at (first bad index, last bad index + 1).  Every string is given to the real str.encode('bk')
(bytes / .start / .end compared), assembled as '.ascii "..."' (bytes, or a failing assembly with
>= 1 error) and, for 1 and 2 characters, as 'c and "cc literals.
"""
import json
import os
import struct
import tempfile

from ..common import MachineryError, tmp_root
from ..drive import asm, mods, pmap
from ..tlc import run_tlc, require_ok

# {good, good', bad, bad'} as code points.  good: ASCII, good': KOI8-R letter, bad/bad': characters the BK
# character set has no cell for (BkCodec.tla MustRefuse).  No quotes, backslashes, angle brackets, separators.
ITEM_SETS = [
    [0x41, 0x44F, 0xE9, 0x4E2D],        # A  я  é  中
    [0x7E, 0x42A, 0x3A9, 0xFFFD],       # ~  Ъ(0xFF)  Ω  replacement char
    [0x30, 0x44E, 0x451, 0x20AC],       # 0  ю(0xC0)  ё  €
    [0x61, 0x410, 0x100, 0x3042],       # a  А  Ā  あ
    [0x7A, 0x43F, 0xC0, 0x1F00],        # z  п  À  ἀ
    [0x5A, 0x416, 0xD7, 0xFB01],        # Z  Ж  ×  ﬁ
    [0x21, 0x447, 0x401, 0x5D0],        # !  ч  Ё  א
    [0x7D, 0x42E, 0xFF21, 0x391],       # }  Ю  fullwidth A  Greek Alpha (look-alikes of 'A')
    [0x438, 0x418, 0x306, 0x308],       # и  И  combining breve  combining diaeresis: decomposed й / ё are two characters, the second one refused
    [0x24, 0x44F, 0xFEFF, 0xE9],        # $ (byte 0x24 has two glyphs, $ and the alias U+00A4)  я  U+FEFF (byte order mark / ZWNBSP)  é
    [0x41, 0x44F, 0x1F600, 0x10000],    # A  я  😀  Linear B syllable: characters beyond the BMP
    [0x7E, 0x42A, 0x10FFFF, 0xE9],      # ~  Ъ  the last code point  é (an astral character before / after a BMP one)
    [0x20, 0x44E, 0xFFFF, 0x1D11E],     # space  ю  the last BMP code point  musical G clef (the first beyond it: U+10000 above)
]
SIM_ITEMS = [0x41, 0x7E, 0x20, 0x44F, 0x42A, 0xE9, 0x4E2D, 0x391]


def cfg(items, max_items, invs):
    return ("SPECIFICATION Spec\nCONSTANTS Items = {%s}\n MaxItems = %d\n" % (", ".join(str(c) for c in items), max_items)
            + "".join(f"INVARIANT {i}\n" for i in invs) + "CHECK_DEADLOCK FALSE\n")


# --------------------------------------------------------------------------------------- C->M

def enumerate_codec(run):
    """The real codec, completely.  -> (dec table or None, flat events, stats)."""
    mods()                                   # imports pdpy11 from REPO, which registers the 'bk' codec
    problems = []
    dec = []
    for b in range(256):
        try:
            s = bytes([b]).decode("bk")
        except Exception as ex:  # noqa
            problems.append(("decode", b, f"{type(ex).__name__}: {ex}"))
            dec.append(0x110000)
            continue
        if len(s) != 1:
            problems.append(("decode", b, f"decodes to {len(s)} characters"))
            dec.append(0x110000)
        else:
            dec.append(ord(s))
    ev = []
    accepted = refused = 0
    for cp in range(0x10000):
        try:
            r = chr(cp).encode("bk")
        except UnicodeEncodeError as ex:
            refused += 1
            if (ex.start, ex.end) != (0, 1):
                problems.append(("encode", cp, f"refusal of a single character names position ({ex.start},{ex.end})"))
            if ev and ev[-1] == 256 and ev[-2] == cp - 1:
                ev[-2] = cp
            else:
                ev += [cp, cp, 256]
            continue
        except Exception as ex:  # noqa
            problems.append(("encode", cp, f"{type(ex).__name__}: {ex}"))
            ev += [cp, cp, 256]
            continue
        if len(r) != 1:
            problems.append(("encode", cp, f"encodes to {len(r)} bytes"))
            ev += [cp, cp, 256]
            continue
        accepted += 1
        ev += [cp, cp, r[0]]
    return dec, ev, {"accepted": accepted, "refused": refused}, problems


def corrupt(dec, ev):
    """Corrupted copies of the real trace; TLC must reject every one of them."""
    out = []
    d = list(dec)
    d[0xC1], d[0xC2] = d[0xC2], d[0xC1]
    out.append(("two KOI8-R cells swapped in the decode table", d, ev))
    # an extra alias: a refused code point inside a refused range becomes accepted
    e = list(ev)
    for i in range(0, len(e), 3):
        if e[i + 2] == 256 and e[i] <= 0xE9 <= e[i + 1]:
            lo, hi = e[i], e[i + 1]
            rep = ([lo, 0xE8, 256] if lo <= 0xE8 else []) + [0xE9, 0xE9, 0x65] + ([0xEA, hi, 256] if hi >= 0xEA else [])
            e[i:i + 3] = rep
            break
    out.append(("an undocumented alias U+00E9 -> 0x65", dec, e))
    e = list(ev)
    for i in range(0, len(e), 3):
        if e[i] == 0x41 and e[i + 2] < 256:
            e[i + 2] = 256
            break
    out.append(("'A' refused", dec, e))
    e = list(ev)
    del e[-3:]
    out.append(("the last event missing (gap)", dec, e))
    d = list(dec)
    d[0x90] = d[0x41]
    out.append(("decode not injective", d, ev))
    return out


def codec_trace(run):
    dec, ev, stats, problems = enumerate_codec(run)
    run.add_eval(256 + 65536)
    run.note("codec_enumeration", stats)
    for kind, x, what in problems[:10]:
        run.violation(f"codec {kind} of {x:#x}: {what}", {"kind": kind, "value": x, "what": what})
    traces = [{"id": 1, "dec": dec, "ev": ev}]
    bad = corrupt(dec, ev)
    for i, (_, d, e) in enumerate(bad):
        traces.append({"id": 2 + i, "dec": d, "ev": e})
    fd, path = tempfile.mkstemp(prefix="c14-", suffix=".json", dir=tmp_root())
    try:
        with os.fdopen(fd, "w") as f:
            json.dump(traces, f, separators=(",", ":"))
        res = require_ok(run_tlc("BkCodecTrace", cfg_text="SPECIFICATION Spec\nINVARIANT Accepted\nINVARIANT Verdict\n"
                                 "POSTCONDITION Post\nCHECK_DEADLOCK FALSE\n", workers=1, env={"TRACE_FILE": path},
                                 label="BkCodecTrace: exhaustive enumeration of the real codec + corrupted copies", timeout=300))
    finally:
        try:
            os.unlink(path)
        except OSError:
            pass
    run.add_tlc(res)
    verdicts = {e["id"]: e for e in res.exports if e.get("k") == "V"}
    post = [e for e in res.exports if e.get("k") == "P"]
    if len(post) != 1 or set(verdicts) != set(range(1, len(traces) + 1)):
        raise MachineryError(f"BkCodecTrace: expected one verdict per trace, got {sorted(verdicts)} post={post}\n{res.tail[-800:]}")
    acc = set(post[0]["accepted"])
    if acc != {i for i, v in verdicts.items() if v["ok"]}:
        raise MachineryError("BkCodecTrace: accepted-id register and verdict lines disagree")
    for i, (what, _, _) in enumerate(bad):
        if 2 + i in acc:
            raise MachineryError(f"self-test: TLC accepted a corrupted codec trace ({what}); the binding is vacuous")
    run.note("selftest_corrupted_traces_rejected", {what: verdicts[2 + i]["why"] for i, (what, _, _) in enumerate(bad)})
    run.add_traces(1)
    v = verdicts[1]
    run.note("codec_trace_verdict", v)
    if not v["ok"]:
        at = v["at"]
        evs = ev[3 * at - 3:3 * at] if 0 < 3 * at <= len(ev) else []
        run.violation(f"bk codec: {v['why']} (event {at}: {evs}, next code point {v['cp']:#x}, bytes round-tripped {v['nseen']}/256)",
                      {"verdict": v, "event": evs, "decode_table": dec})
    run.sample({"real_codec": "Decode(0xD1)=U+%04X, Encode(U+00A4)=%s" % (
        dec[0xD1], next((ev[i + 2] for i in range(0, len(ev), 3) if ev[i] == 0xA4 and ev[i + 2] < 256), "refused")),
        "verdict": "accepted" if v["ok"] else v["why"]})
    return dec


# --------------------------------------------------------------------------------------- M->C

def check_string(rec):
    """One exported string against the real code.  -> list of (what, detail) disagreements."""
    s = "".join(chr(c) for c in rec["items"])
    want = bytes(rec["bytes"])
    bad = []
    # 1. the codec itself
    try:
        got = s.encode("bk")
        if not rec["ok"]:
            bad.append(("str.encode('bk') accepted a string with a character outside the table", {"got": got.hex()}))
        elif got != want:
            bad.append(("str.encode('bk') produced other bytes", {"got": got.hex(), "want": want.hex()}))
    except UnicodeEncodeError as ex:
        if rec["ok"]:
            bad.append(("str.encode('bk') refused an encodable string", {"start": ex.start, "end": ex.end}))
        elif (ex.start, ex.end) != (rec["start"], rec["end"]):
            bad.append(("encoding error names the wrong position",
                        {"got": [ex.start, ex.end], "want": [rec["start"], rec["end"]]}))
    except Exception as ex:  # noqa
        bad.append(("str.encode('bk') raised something else", {"exc": f"{type(ex).__name__}: {ex}"}))
    # 2. '.ascii'
    srcs = [(f'.ascii "{s}"\n', want)]
    if len(s) == 1:
        srcs.append((f".word '{s}\n", struct.pack("<H", rec["word"])))
    if len(s) == 2:
        srcs.append((f'.word "{s}\n', struct.pack("<H", rec["word"])))
        # the literal taken apart: a word is an unsigned quantity whatever the second character's byte is
        srcs.append((f'.word "{s} / 400\n', struct.pack("<H", rec["hi"])))
        srcs.append((f'.byte "{s} >> 10\n', struct.pack("<B", rec["hi"])))
    if not rec["ok"]:
        # a warning reported AFTER the refusal does not make the build succeed
        srcs.append((f'.ascii "{s}"\n\t.list\n', want))
        srcs.append((f'\t.byte\n.ascii "{s}"\n.byte\n', want))
    # every source is assembled twice in this process: the refusal of a character is a fact about the character, not about the
    # first time it is met
    for src, w in [x for x in srcs for _ in (0, 1)]:
        r = asm([("s.mac", src)], timeout=5)
        if rec["ok"]:
            if not (r["outcome"] == "ok" and r["code"] == w):
                bad.append(("assembly of an encodable string gave other bytes / failed",
                            {"source": src, "outcome": r["outcome"], "code": r["code"].hex() if r["code"] is not None else None,
                             "want": w.hex(), "exc": r["exc"], "reports": [x[1] for x in r["reports"]]}))
        else:
            if not (r["outcome"] == "error" and r["n_err"] >= 1):
                bad.append(("a character outside the table did not fail the assembly",
                            {"source": src, "outcome": r["outcome"], "code": r["code"].hex() if r["code"] is not None else None,
                             "n_err": r["n_err"], "exc": r["exc"], "reports": [x[1] for x in r["reports"]]}))
    return bad


def main(run):
    thorough = run.tier == "thorough"
    run.rule = ("C->M: the complete enumeration of the real codec (256 decodes + 65536 encodes) is one trace, non-trivial by "
                "construction; M->C: every string of <= 5 items over {good, good', bad, bad'} for each item set plus simulated "
                "strings of <= 12 items over 8 items; non-trivial = distinct strings (each has predicted bytes or a predicted "
                "error position), each checked through str.encode, .ascii and (1-2 chars) character literals")
    dec = codec_trace(run)

    # the committed KOI8-R table must still be Python's koi8_r
    invs = ["ScanOK", "RoundTripFixed", "ExportString", "ExportTable"]
    sets = ITEM_SETS if thorough else ITEM_SETS[:2] + ITEM_SETS[-5:]       # the last five: combining marks, '$' and U+FEFF, beyond the BMP
    k = run.seed % len(ITEM_SETS)
    if not thorough and ITEM_SETS[k] not in sets:
        sets = sets + [ITEM_SETS[k]]
    recs, seen = [], set()
    table_checked = False
    for items in sets:
        res = require_ok(run_tlc("BkCodec", cfg_text=cfg(items, 5, invs), label=f"BkCodec strings <= 5 over {items}", timeout=300))
        run.add_tlc(res)
        if res.violated:
            run.violation(f"model: invariant {res.violated} violated in BkCodec.tla", {"tail": res.tail})
        for e in res.exports:
            if e["k"] == "T":
                py = [ord(bytes([b]).decode("koi8_r")) for b in range(0xC0, 0x100)]
                if e["koi"] != py:
                    raise MachineryError("Koi8rTable committed in BkCodec.tla differs from Python's koi8_r codec")
                table_checked = True
            else:
                key = tuple(e["items"])
                if key not in seen:
                    seen.add(key)
                    recs.append(e)
    if not table_checked:
        raise MachineryError("BkCodec.tla did not export its KOI8-R table")
    sim = require_ok(run_tlc("BkCodec", cfg_text=cfg(SIM_ITEMS, 12, ["ScanOK", "ExportString"]), simulate=(1000 if thorough else 100),
                             depth=13, seed=run.seed + 1, workers=1, label="BkCodec strings <= 12 items (simulation)", timeout=300))
    run.add_tlc(sim)
    if sim.violated:
        run.violation(f"model: invariant {sim.violated} violated in BkCodec.tla (simulation)", {"tail": sim.tail})
    for e in sim.exports:
        if e["k"] == "S":
            key = tuple(e["items"])
            if key not in seen:
                seen.add(key)
                recs.append(e)
    if len(recs) < 1000:
        raise MachineryError(f"only {len(recs)} strings exported")

    results = pmap(check_string, recs)
    n_ok = n_bad = n_lit = 0
    for rec, bad in zip(recs, results):
        run.add_nontrivial(tuple(rec["items"]))
        n_ok += rec["ok"]
        n_bad += not rec["ok"]
        n_lit += len(rec["items"]) in (1, 2)
        for what, detail in bad:
            s = "".join(chr(c) for c in rec["items"])
            run.violation(f"bk string {s!r} ({[hex(c) for c in rec['items']]}): {what}: {detail}",
                          {"items": rec["items"], "predicted": {k: rec[k] for k in ("ok", "bytes", "start", "end")}, "what": what, **detail},
                          files={"case.mac": detail.get("source", f'.ascii "{s}"\n')})
    run.add_eval(2 * len(recs) + n_lit)
    run.note("strings", len(recs))
    run.note("strings_predicted_bytes", n_ok)
    run.note("strings_predicted_refusal", n_bad)
    run.note("char_literal_cases", n_lit)
    run.note("item_sets", [[f"U+{c:04X}" for c in s] for s in sets])
    ex_ok = next((r for r in recs if r["ok"] and len(r["items"]) >= 3 and any(c > 127 for c in r["items"])), None)
    ex_bad = next((r for r in recs if not r["ok"] and len(r["items"]) >= 4 and r["start"] > 0), None)
    if ex_ok:
        run.sample({"string": "".join(chr(c) for c in ex_ok["items"]), "predicted_bytes": bytes(ex_ok["bytes"]).hex()})
    if ex_bad:
        run.sample({"string": "".join(chr(c) for c in ex_bad["items"]), "predicted_error": [ex_bad["start"], ex_bad["end"]]})
    run.exhaustive = True
    run.assumptions += [
        "Koi8rTable in BkCodec.tla equals Python's standard koi8_r codec on 0xC0..0xFF (asserted at run time)",
        "bytes 0x7F..0xBF are constrained only by injectivity and round trip (BK block / control / pseudo-graphic cells)",
        "refused characters used in strings are code points that cannot be a BK pseudo-graphic cell (BkCodec.tla MustRefuse)",
        "documented alias: U+00A4 may encode to 0x24; it is not used inside strings",
        "surrogate code points D800..DFFF are enumerated like any other code point (the codec refuses them)",
    ]
