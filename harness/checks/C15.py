"""C15  Radix-50 packing.

spec/Codec.tla enumerates all 64 000 triples (state graph 1+40+1600+64000) with TLC checking
Unpack(Pack(t)) = t, and all item strings (characters, lower-case letters, <n> codes, characters
outside the alphabet) up to a bound plus simulated strings up to 12 items.  Every exported case
carries the predicted words / refusal and is assembled by the real code as '.rad50' and as '^R'.
"""
import random
import struct

from ..common import MachineryError
from ..drive import asm, pmap
from ..tlc import run_tlc, require_ok

BAD_CHARS = ["!", "_", "я", "&", "#"]
# characters outside the alphabet that Unicode case mapping folds INTO it (dotless i -> I, long s -> S, Kelvin sign -> K / k,
# ligature st -> "ST", sharp s -> "SS", dotted capital I): Codec.tla's "bad" item all the same - an error is due
FOLDING_CHARS = ["\u0131", "\u017f", "\u212a", "\ufb06", "\ufb05", "\u00df", "\u0130", "\ufb00",
                 "\u00a4", "\uff21", "\u0391", "\uff04"]     # the second glyph of bk byte 0x24; full-width A, Greek Alpha, full-width $


def cfg(mode, max_items, invs):
    return ("SPECIFICATION Spec\nCONSTANTS Mode = \"%s\"\n MaxItems = %d\n" % (mode, max_items)
            + "".join(f"INVARIANT {i}\n" for i in invs) + "CHECK_DEADLOCK FALSE\n")


def render_triple_lines(rec, variant):
    """-> list of (source line, expected word or None)"""
    c = rec["c"]
    s = "".join(c)
    lines = []
    txt = s.lower() if variant % 2 else s
    q = "/" if variant % 3 else '"'
    lines.append((f".rad50 {q}{txt}{q}", rec["w"]))
    lit = s.rstrip(" ")
    if lit and " " not in lit:
        lines.append((f".word ^R{lit.lower() if variant % 2 else lit}", rec["w"]))
        if variant % 5 == 0:
            lines.append((f".word ^r{lit}", rec["w"]))
        if variant % 4 == 1 or rec["w"] >= 32768:
            # the literal is the NUMBER 0..63999: as a double word its high half is zero, and it divides like a positive number
            lines.append((f".dword ^R{lit}", (0, rec["w"])))
            lines.append((f".word ^R{lit} / 3100", rec["w"] // 1600))
    return lines


def pack_words(w):
    return struct.pack("<H", w) if isinstance(w, int) else b"".join(struct.pack("<H", x) for x in w)


def run_batch(task):
    """task = (lines, expected words). Assemble all lines as one program; on any mismatch locate lines."""
    lines, words = task
    src = "\n".join(lines) + "\n"
    r = asm([("r50.mac", src)], timeout=60)
    want = b"".join(pack_words(w) for w in words)
    if r["outcome"] == "ok" and r["code"] == want:
        return []
    bad = []
    for ln, w in zip(lines, words):
        r1 = asm([("r50.mac", ln + "\n")], timeout=5)
        if not (r1["outcome"] == "ok" and r1["code"] == pack_words(w)):
            bad.append((ln, w, r1["outcome"], r1["code"].hex() if r1["code"] is not None else None, r1["exc"],
                        [x[1] for x in r1["reports"]]))
    if not bad:
        bad.append(("<batch only>", None, r["outcome"], None, r["exc"], [x[1] for x in r["reports"]][:5]))
    return bad


def render_string(rec, variant):
    rnd = random.Random(variant)
    q = ["/", '"', "'"][variant % 3]
    out, cur, defs = [], "", []
    for it in rec["items"]:
        if it["k"] == "ch":
            cur += it["ch"].lower() if it["lower"] else it["ch"]
        elif it["k"] == "bad":
            cur += BAD_CHARS[rnd.randrange(len(BAD_CHARS))]
        else:
            if cur:
                out.append(q + cur + q)
                cur = ""
            if variant % 3 == 2:
                # the code written as a symbol that is defined BELOW the directive
                out.append(f"<rq{len(defs)}>")
                defs.append(f"rq{len(defs)} = {it['v']:o}")
            else:
                out.append(f"<{it['v']}.>" if variant % 2 else f"<{it['v']:o}>")
    if cur or not out:
        out.append(q + cur + q)
    # behind a directive that has to wait for its codes stands '.word .': the address of what follows the directive is the address
    # behind ALL its words (the announced size of the waiting directive is the size of what it finally packs)
    return "\n".join([".rad50 " + (" " if variant % 4 == 0 else "").join(out)] + ([".word ."] if defs else []) + defs)


def run_string(task):
    line, ok, words = task
    r = asm([("r50s.mac", line + "\n")], timeout=5)
    want = b"".join(struct.pack("<H", w) for w in words)
    if ok:
        good = r["outcome"] == "ok" and r["code"] == want
    else:
        good = r["outcome"] == "error" and r["n_err"] >= 1
    if good:
        return None
    return (line, ok, words, r["outcome"], r["code"].hex() if r["code"] is not None else None, r["exc"],
            [x[1] for x in r["reports"]])


def main(run):
    thorough = run.tier == "thorough"
    run.rule = ("triples: every leaf of Codec.tla's state graph (all 64000), rendered as .rad50 (upper/lower case, two "
                "quote styles) and, when free of inner spaces, as ^R literal; strings: every item string up to the bound "
                "plus TLC-simulated strings up to 12 items over {space,A,z,$,9,<0>,<39>,<40>,<63>,bad char}; "
                "non-trivial = distinct rendered source lines (each has a predicted word list or a predicted refusal)")
    # ---- (D)+(export) triples: exhaustive
    res = require_ok(run_tlc("Codec", cfg_text=cfg("triple", 0, ["TypeOK", "RoundTrip", "Fits16", "Injective", "ExportTriple"]),
                             label="Codec triples (exhaustive)", timeout=600))
    run.add_tlc(res)
    if res.violated:
        run.violation(f"model: invariant {res.violated} violated in Codec.tla (triple mode)", {"tail": res.tail})
    if res.n_exports != 64000:
        raise MachineryError(f"expected 64000 exported triples, got {res.n_exports}")
    lines, words = [], []
    for i, rec in enumerate(res.exports):
        for ln, w in render_triple_lines(rec, i + run.seed):
            lines.append(ln)
            words.append(w)
    B = 1000
    tasks = [(lines[i:i + B], words[i:i + B]) for i in range(0, len(lines), B)]
    for task, bad in zip(tasks, pmap(run_batch, tasks)):
        for b in bad:
            run.violation(f"rad50 triple: {b[0]!r} expected word {b[1]} got outcome={b[2]} code={b[3]} exc={b[4]} reports={b[5]}",
                          {"line": b[0], "expected_word": b[1], "outcome": b[2], "code": b[3]},
                          files={"case.mac": b[0] + "\n"})
    run.add_eval(len(lines))
    for ln in lines:
        run.add_nontrivial(ln)
    run.sample({"source": lines[12345], "predicted_word": words[12345]})
    run.sample({"source": lines[-1], "predicted_word": words[-1]})
    run.note("triples_exhaustive", True)
    run.note("rad50_lines", sum(1 for l in lines if l.startswith(".rad50")))
    run.note("caretR_lines", sum(1 for l in lines if l.startswith(".word")))

    # ---- strings: bounded exhaustive + simulation to 12 items
    invs = ["WordsLenOK", "UnpackWords", "ExportString", "ExportCodes"]
    k = 5 if thorough else 4
    res = require_ok(run_tlc("Codec", cfg_text=cfg("string", k, invs), label=f"Codec strings <= {k} items (exhaustive)", timeout=900))
    run.add_tlc(res)
    codes = next((e["outcome"] for e in res.exports if e.get("m") == "codes"), None)
    recs = [e for e in res.exports if e.get("m") != "codes"]
    if res.violated:
        run.violation(f"model: invariant {res.violated} violated in Codec.tla (string mode)", {"tail": res.tail})
    sim = require_ok(run_tlc("Codec", cfg_text=cfg("string", 12, invs), simulate=(3000 if thorough else 400), depth=13,
                             seed=run.seed + 1, workers=1, label="Codec strings <= 12 items (simulation)", timeout=900))
    run.add_tlc(sim)
    recs += [e for e in sim.exports if e.get("m") != "codes"]
    tasks, seen = [], set()
    for i, rec in enumerate(recs):
        for variant in ((i + run.seed), (i + run.seed + 1)) if thorough else ((i + run.seed),):
            ln = render_string(rec, variant)
            if ln in seen:
                continue
            seen.add(ln)
            tasks.append((ln, rec["ok"], rec["words"] + ([0o1000 + 2 * len(rec["words"])] if "\n.word ." in ln and rec["ok"] else [])))
    for bad in pmap(run_string, tasks):
        if bad is not None:
            run.violation(f"rad50 string: {bad[0]!r} predicted ok={bad[1]} words={bad[2]} but outcome={bad[3]} code={bad[4]} exc={bad[5]} reports={bad[6]}",
                          {"line": bad[0], "predicted_ok": bad[1], "predicted_words": bad[2], "outcome": bad[3], "code": bad[4]},
                          files={"case.mac": bad[0] + "\n"})
    # '<expr>' codes that depend on '.', in a '.repeat': copy q of '.rad50 <<. - t>/2 + c>' holds the code c + q, so the program means what
    # the single-item strings '<c>', '<c+1>', '<c+2>' mean one after the other (their words / refusals are Codec.tla's)
    if codes is None:
        raise MachineryError("Codec.tla did not export the single-code table")
    single = {c: codes[c] for c in range(64)}
    rtasks = []
    for c0 in list(range(0, 40, 5)) + [36, 37, 38, 39, 40, 41, 60, 61]:
        for n in (2, 3, 4):
            parts = [single.get(c0 + q) for q in range(n)]
            if any(p_ is None for p_ in parts):
                continue
            ok = all(p_["ok"] for p_ in parts)
            words = [w for p_ in parts for w in p_["words"]] if ok else []
            rtasks.append((f"t: .repeat {n} {{ .rad50 << . - t > / 2 + {c0:o}> }}", ok, words))
    for bad in pmap(run_string, rtasks):
        if bad is not None:
            run.violation(f"rad50 codes depending on '.': {bad[0]!r} predicted ok={bad[1]} words={bad[2]} but outcome={bad[3]} code={bad[4]} exc={bad[5]} reports={bad[6]}",
                          {"line": bad[0], "predicted_ok": bad[1], "predicted_words": bad[2], "outcome": bad[3], "code": bad[4]}, files={"case.mac": bad[0] + "\n"})
    tasks += rtasks
    run.note("dot_dependent_code_cases", len(rtasks))
    # the "bad" item rendered with every case-folding look-alike, in every position of a group, for '.rad50' and for '^R'
    ftasks = []
    for ch in FOLDING_CHARS:
        for pre, post in (("", ""), ("A", ""), ("AB", ""), ("", "Z"), ("A", "Z"), ("ABC", "")):
            ftasks.append((f".rad50 /{pre}{ch}{post}/", False, []))
            if len(pre) < 3:
                ftasks.append((f".word ^R{pre}{ch}{post}", False, []))
    for bad in pmap(run_string, ftasks):
        if bad is not None:
            run.violation(f"rad50: {bad[0]!r} holds a character outside the alphabet (one that Unicode case mapping folds into it): an error is due, "
                          f"but outcome={bad[3]} code={bad[4]} exc={bad[5]} reports={bad[6]}",
                          {"line": bad[0], "outcome": bad[3], "code": bad[4], "exc": bad[5]}, files={"case.mac": bad[0] + "\n"},
                          tags=["shape:rad50-case-folding-character"])
    tasks += ftasks
    run.note("case_folding_lookalike_cases", len(ftasks))
    run.add_eval(len(tasks))
    for t in tasks:
        run.add_nontrivial(t[0])
    run.note("string_cases", len(tasks))
    run.note("string_refusals_predicted", sum(1 for t in tasks if not t[1]))
    long_ok = [t for t in tasks if t[1] and len(t[2]) >= 3]
    if long_ok:
        run.sample({"source": long_ok[0][0], "predicted_words": long_ok[0][2]})
    refus = [t for t in tasks if not t[1]]
    if refus:
        run.sample({"source": refus[0][0], "predicted": "refused with an error"})
    run.exhaustive = True
    run.assumptions += ["RADIX-50 alphabet order as in Codec.tla (DEC standard)", "renderer maps items to source text"]
