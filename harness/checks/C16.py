"""C16  Structural directives preserve meaning.

(D)    AsmCore.tla / StructAlphabet: '.repeat n {B}' is by definition B written n times (each copy with its own '.'), '.include' the
       file's statements in a private scope, '.end' discards the rest of its file, '.once' lets a file contribute once, insert_file
       is its bytes; TLC also checks LinkIsConcatenation (linking files that share no names = assembling their concatenation).
(M->C) three-way comparison for every program TLC writes: (1) the real image of the program as written, (2) the real image of the
       program with every .repeat unrolled / every insert_file written as .byte data / linked files concatenated (transformations
       done on the abstract program by the harness), (3) the image the specification predicts: all must be equal.
"""
import copy

from ..asmcore import explore_replay, replay, kinds_of, insert_bytes, tags_for
from ..drive import pmap


def unroll(stmts):
    out, changed = [], False
    for s in stmts:
        if s["k"] == "repeat":
            body, _ = unroll(s["body"])
            for _ in range(s["n"]):
                out += copy.deepcopy(body)
            changed = True
        else:
            out.append(s)
    return out, changed


def inline_inserts(stmts):
    out, changed = [], False
    for s in stmts:
        if s["k"] == "insert" and 0 < s["len"] <= 300:
            data = insert_bytes(s["len"])
            for i in range(0, len(data), 50):
                out.append({"k": "byte", "es": [{"t": "num", "v": b} for b in data[i:i + 50]]})
            changed = True
        elif s["k"] == "repeat":
            body, ch = inline_inserts(s["body"])
            out.append(dict(s, body=body))
            changed |= ch
        else:
            out.append(s)
    return out, changed


def variants(rec):
    """-> list of (name, transformed record) that must mean the same as rec (same prediction)"""
    out = []
    if not rec["ok"]:
        return out
    files, ch = zip(*[unroll(f) for f in rec["files"]])
    if any(ch):
        out.append(("unrolled", dict(rec, files=list(files))))
    files, ch = zip(*[inline_inserts(f) for f in rec["files"]])
    if any(ch):
        out.append(("insert-as-bytes", dict(rec, files=list(files))))
    if rec.get("catok"):
        out.append(("concatenated", dict(rec, files=[[s for f in rec["files"] for s in f]],
                                         runs=[dict(r, syms=[dict(y, file="f1") for y in r["syms"]]) for r in rec["runs"]])))
    return out


def nontrivial(rec):
    return rec["ok"] and bool(kinds_of(rec) & {"repeat", "insert", "end", "include", "linkinc"})


def main(run):
    thorough = run.tier == "thorough"
    run.rule = ("programs written by TLC over StructAlphabet: 13 .repeat forms (n = 0..3, bodies with '.', with / % << >> of '.', hoisted "
                "index expressions 2+2(r3) and c+2(r3), branches to an outer local label, nested repeats, .even and .blkb of '.', sob, "
                "label/constant inside a body = error; a second small alphabet with n = 17, 33 (nested) and 40), insert_file of 0/7/300 bytes, .end, two includable files (one with .once and an "
                "export, one ending early with junk behind .end, one in a sub-directory that inserts a file named like one next to the main file but with other "
                "contents), 1-2 linked files, an includable file also named on the command line; each accepted program also as unrolled / inlined / "
                "concatenated variant; non-trivial = accepted program containing .repeat, insert_file, .end or .include")
    bases = [512, 1026]
    opts = {"harness_link": True}
    counts = {}

    def variants_of(tasks_):
        """transformed variants against the ORIGINAL prediction"""
        vtasks, names = [], []
        for rec, inc_, o in tasks_:
            for name, v in variants(rec):
                vtasks.append((v, inc_, dict(o, check_syms=(name != "insert-as-bytes"))))
                names.append((name, rec))
        for (name, orig), (v, _, _), problems in zip(names, vtasks, pmap(replay, vtasks)):
            run.add_eval(len(v["runs"]))
            counts[name] = counts.get(name, 0) + 1
            run.add_nontrivial((name, repr(orig["files"])))
            for p in problems:
                run.violation(f"{name} variant disagrees with the prediction for the program as written: {p['kind']}: {p['what']} | "
                              f"{' // '.join(p['sources'].values())[:300]!r}",
                              {"variant": name, "problem": {k: x for k, x in p.items() if k not in ("sources", "fs")},
                               "abstract_original": orig["files"], "abstract_variant": v["files"]},
                              files=p["sources"], tags=tags_for(orig, p))

    def go(alphabet, stmts, nfiles, bs, label, **kw):
        t, _ = explore_replay(run, alphabet, "StructIncFiles", stmts, nfiles, bs, opts, nontrivial, after=variants_of, label=label, **kw)
        return t

    tasks = go("StructAlphabet", 3 if thorough else 2, 1, bases, f"AsmCore struct, 1 file x {3 if thorough else 2} stmts (exhaustive)")
    if not thorough:
        tasks += go("StructAlphabet", 4, 1, bases, "AsmCore struct simulation (1 file, <= 4 stmts)", simulate=600, depth=5, seed=run.seed + 23)
    tasks += go("StructBigAlphabet", 3 if thorough else 2, 1, bases, "AsmCore struct, large repeat counts 17/33/40 (exhaustive)")
    # (exhaustive it would be 2.7 million programs with the alphabet as it is after the seeding rounds)
    tasks += go("StructAlphabet", 2, 2, [512], "AsmCore struct, 2 files x 2 stmts with LinkIsConcatenation (simulation)",
                extra=("concat",), timeout=6000, simulate=40000 if thorough else 800, depth=6, seed=run.seed + 2)
    tasks += go("StructDirAlphabet", 2, 2, [512], "AsmCore struct, same-named inserted files in two directories and linked includable files (exhaustive)")
    tasks += go("StructLateAlphabet", 4 if thorough else 3, 1, [512, 1000], "AsmCore struct, late-compiled blocks that refer to labels behind them (exhaustive)")
    if not thorough:
        tasks += go("StructLateAlphabet", 4, 1, [512], "AsmCore struct, late-compiled blocks, simulation (<= 4 stmts)", simulate=500, depth=5, seed=run.seed + 31)
    if thorough:        # all 2-file programs of 3 statements would be 2.1 million: a simulation instead
        tasks += go("StructDirAlphabet", 3, 3, [512], "AsmCore struct, directories and linked includable files, simulation (<= 3 stmts x 3 files)",
                    simulate=30000, depth=10, seed=run.seed + 29)
    tasks += go("StructAlphabet", 5, 2, bases, "AsmCore struct simulation (<= 5 stmts x 2 files)", simulate=(5000 if thorough else 250), depth=11,
                seed=run.seed + 17)
    run.note("variants_checked", counts)
    ex = [t for t in tasks if nontrivial(t[0]) and "repeat" in kinds_of(t[0])]
    if ex:
        run.sample({"abstract": ex[len(ex) // 3][0]["files"], "predicted": ex[len(ex) // 3][0]["runs"][0]["image"]})
    run.exhaustive = False
    run.assumptions += ["repeat counts are literals 0..3, 17 and 40; symbolic counts defined further down in StructLateAlphabet and by C03 (chain value as .repeat count)",
                        "'.end' inside a .repeat body and '.link' inside included files are not generated (undefined by the property)"]
