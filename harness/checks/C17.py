"""C17  Diagnostics point at the culprit.

(1) spec/LineCol.tla: line/column of a position (a TAB counts four columns, a non-ASCII character
    one) as a closed form and as an inductive scanner; TLC checks that they agree on every text of
    <= 6 characters over {letter, tab, newline, non-ASCII, space} and every position, and exports
    every (text, pos) with the predicted line:col.  Each is compared with repr() of the real
    pdpy11 Context - exhaustively - and with the Python mirror `linecol` used in part (2).
(2) every fault kind of harness/faults.py (each with a designated culprit token) x planting position
    x trivia before the fault x location (main file, second linked file, included file): the first
    diagnostic of the fault's severity printed by `pdpy11 --report-format=bare` must start with
    '<absolute path of the file containing the fault>:<line>:<col>' of the culprit token.
(C->M) every diagnostic of every run (in-process spans and printed lines): the file is one of the
    run's files, 0 <= start <= end <= len(text), both ends in the same file, and the printed
    line:col equals LineCol(text, start).
"""
import os
import re
import tempfile
from pathlib import Path

from ..common import MachineryError, tmp_root, rmtree
from ..drive import asm, run_cli, pmap, mods
from ..faults import CATALOGUE, plant, RECONCILED
from ..tlc import run_tlc, require_ok

BARE_LINE = re.compile(r"^(?P<file>.+?):(?P<line>\d+):(?P<col>\d+): (?P<sev>Error|Warning): ")


def linecol(text, pos):
    """Python mirror of LineCol.tla's LC(text, pos) (cross-checked against TLC's export in part 1)."""
    newlines = [i for i in range(pos) if text[i] == "\n"]
    line_start = newlines[-1] + 1 if newlines else 0
    tabs = sum(1 for i in range(line_start, pos) if text[i] == "\t")
    return 1 + len(newlines), 1 + (pos - line_start) + 3 * tabs


# ------------------------------------------------------------------------------------- part 1

# "f": characters that look like line breaks to some libraries but are ordinary characters of a line here (only LF ends a line)
REPS = {"l": "aZ;0\"(", "t": "\t\t\t\t\t\t", "n": "\n\n\n\n\n\n", "u": "αяé💾ç中", "s": "      ", "f": "\x0c\x0b\r\x85\u2028\x1c"}


def render_text(classes, variant):
    return "".join(REPS[c][(i + variant) % 6] for i, c in enumerate(classes))


def check_linecol_batch(batch):
    """batch: list of (classes, pos, line, col).  -> list of mismatches"""
    mods()
    from pdpy11.context import Context
    bad = []
    for classes, pos, line, col in batch:
        for variant in (0, 1 + (pos + len(classes)) % 5):
            text = render_text(classes, variant)
            if linecol(text, pos) != (line, col):
                bad.append(("mirror", text, pos, f"{line}:{col}", "%d:%d" % linecol(text, pos)))
            ctx = Context("f.mac", text)
            ctx.pos = pos
            got = repr(ctx)
            if got != f"f.mac:{line}:{col}":
                bad.append(("context", text, pos, f"f.mac:{line}:{col}", got))
    return bad


def part1(run, max_len):
    cfg = (f"SPECIFICATION Spec\nCONSTANT MaxLen = {max_len}\nINVARIANT TypeOK\nINVARIANT Agree\nINVARIANT LineBounded\n"
           "INVARIANT ColAfterNL\nINVARIANT TabIsFour\nINVARIANT Export\nCHECK_DEADLOCK FALSE\n")
    res = require_ok(run_tlc("LineCol", cfg_text=cfg, label=f"LineCol: all texts <= {max_len} characters x every position", timeout=900))
    run.add_tlc(res)
    if res.violated:
        run.violation(f"model: invariant {res.violated} violated in LineCol.tla", {"tail": res.tail[-2000:]})
    expected = sum((k + 1) * 6 ** k for k in range(max_len + 1))
    if res.n_exports != expected:
        raise MachineryError(f"LineCol exported {res.n_exports} (text, pos) pairs, expected {expected}")
    items = [(r["t"], r["p"], r["line"], r["col"]) for r in res.exports]
    B = 4000
    batches = [items[i:i + B] for i in range(0, len(items), B)]
    n_bad = 0
    for bad in pmap(check_linecol_batch, batches):
        for kind, text, pos, want, got in bad:
            n_bad += 1
            if n_bad <= 10:
                what = "repr(Context)" if kind == "context" else "the harness mirror of LineCol"
                run.violation(f"LineCol: text {text!r} pos {pos}: {what} gives {got}, LineCol.tla predicts {want}",
                              {"text": text, "pos": pos, "predicted": want, "got": got, "what": kind}, files={"text.txt": text})
    run.add_eval(2 * len(items))
    for it in items:
        if it[1] > 0:
            run.add_nontrivial(("lc", tuple(it[0]), it[1]))
    run.note("linecol_pairs_exhaustive", len(items))
    run.note("linecol_mismatches", n_bad)
    ex = next((it for it in items if it[0] == ["t", "u", "n", "t", "l", "s"] and it[1] == 5), items[-1])
    run.sample({"text": render_text(ex[0], 0), "pos": ex[1], "predicted": f"{ex[2]}:{ex[3]}"})


# ------------------------------------------------------------------------------------- part 2

TRIVIA = [
    ("", ""),
    ("", "\t"),
    ("", "\t\t  "),
    ("; комментарий α — не ASCII\n", "    "),
    ("\n\n", " \t "),
    (";\tαβγ\t; tab inside a comment\n\n", "\t"),
    ("\t; indented comment\n \n", ""),
    ("", "  \t\t"),
    ("; page\x0c break, \x0b, \x85 and \u2028 inside a comment\n", "\t"),
    ("\t; separators \x1c\x1d\x1e inside a comment\n;\x0c\n", " "),       # (a lone CR is not used: files are read with universal newlines)
]
SLOTS = {"first": 0, "middle": 3, "last": 7}                                  # quick: first / middle / last statement
ALL_SLOTS = {"first": 0, "slot1": 1, "slot2": 2, "middle": 3, "slot4": 4, "slot5": 5, "slot6": 6, "last": 7}   # thorough: every position
LOCATIONS = ("main", "second", "include")


def build_case(kind, where, trivia_i, location, u=1):
    """-> dict(files {rel: text}, infiles, culprit_file, culprit_pos, ...)"""
    rk = kind.render(u)
    text, offs = plant([(ALL_SLOTS[where], rk)], {"main": "m", "second": "s", "include": "i"}[location], trivia=TRIVIA[trivia_i])
    files = dict(rk["fs"])
    infiles = ["main.mac"]
    if location == "main":
        files["main.mac"] = text
        cfile = "main.mac"
    elif location == "second":
        files["main.mac"], _ = plant([], "m")
        files["second.mac"] = text
        infiles.append("second.mac")
        cfile = "second.mac"
    else:
        main, _ = plant([], "m")
        lines = main.split("\n")
        lines.insert(2, "\t.include /inc.mac/")
        files["main.mac"] = "\n".join(lines)
        files["inc.mac"] = text
        cfile = "inc.mac"
    pos = offs[0] + rk["culprit"][0]
    line, col = linecol(text, pos)
    return {"kind": kind.name, "sev": kind.sev, "wclass": kind.wclass, "where": where, "trivia": trivia_i, "location": location,
            "files": files, "infiles": infiles, "cfile": cfile, "pos": pos, "end": offs[0] + rk["culprit"][1], "line": line, "col": col}


def span_problems(case, reports):
    """(C->M) every span of every diagnostic of an in-process run."""
    bad = []
    for sev, ident, spans in reports:
        for sp in spans:
            if sp[0] == "<malformed-span>":
                bad.append(f"{ident}: malformed span {sp[-1]}")
                continue
            fn, start, end, lc_start, lc_end, n, same = sp[:7]
            if fn not in case["files"]:
                bad.append(f"{ident}: file {fn!r} is not one of the run's files {sorted(case['files'])}")
                continue
            text = case["files"][fn]
            if not same:
                bad.append(f"{ident}: start and end lie in different files")
            if not (0 <= start <= end <= len(text)):
                bad.append(f"{ident}: span [{start}, {end}] not within 0 <= start <= end <= {len(text)} of {fn}")
            elif n != len(text):
                bad.append(f"{ident}: span refers to a text of length {n}, {fn} has {len(text)}")
            else:
                if "%d:%d" % linecol(text, start) != lc_start or "%d:%d" % linecol(text, end) != lc_end:
                    bad.append(f"{ident}: printed {lc_start}..{lc_end}, LineCol gives {'%d:%d' % linecol(text, start)}..{'%d:%d' % linecol(text, end)}")
    return bad


def run_inproc(case):
    r = asm([(n, case["files"][n]) for n in case["infiles"]], fs={k: v for k, v in case["files"].items() if k not in case["infiles"]},
            handler="bare")
    want_sev = ("warning",) if case["sev"] == "warning" else ("error", "critical")
    first = next((rep for rep in r["reports"] if rep[0] in want_sev), None)
    out = {"outcome": r["outcome"], "exc": r["exc"], "n_reports": len(r["reports"]), "span_bad": span_problems(case, r["reports"]),
           "first": None, "idents": [rep[1] for rep in r["reports"]][:6]}
    if first is not None and first[2]:
        sp = first[2][0]
        out["first"] = [first[0], first[1], sp[0], sp[1], sp[3]]
    return out


def run_cli_case(case):
    d = Path(tempfile.mkdtemp(prefix="c17-", dir=tmp_root()))
    try:
        for rel, text in case["files"].items():
            (d / rel).write_text(text, encoding="utf-8")
        args = ["--report-format=bare"] + (["-Wall"] if case["sev"] == "warning" else []) + case["infiles"]
        r = run_cli(args, d, timeout=60)
        lines = (r["out"].decode("utf-8", "replace") + "\n" + r["err"]).split("\n")
        diags = []
        for ln in lines:
            m = BARE_LINE.match(ln)
            if m:
                diags.append([m.group("file"), int(m.group("line")), int(m.group("col")), m.group("sev")])
        root = str(d)
        return {"rc": r["rc"], "hang": r["hang"], "diags": [[f[len(root) + 1:] if f.startswith(root + "/") else f, l, c, s] for f, l, c, s in diags],
                "abs_ok": all(f.startswith(root + "/") for f, _, _, _ in diags), "args": args}
    finally:
        rmtree(d)


# Diagnostics that name two places in two different files (the culprit and an earlier, innocent definition).  The culprit is the
# SECOND definition in link order / the branch; the files are named so that the culprit's file sorts before and after the other one.
CROSS = [
    ("cross-duplicate-export", "\tnop\ncx1:: nop\n", "\tnop\n\tnop\n⟦cx1::⟧ nop\n", "ic"),
    ("cross-duplicate-constant", "\tnop\n\tnop\n\tnop\nck1 == 5\n", "ck1 = 7\n\t.extern ⟦ck1⟧\n", "ic"),
    ("cross-second-link", "\t.link 3000\n\tnop\n", "\tnop\n\t⟦.link⟧ 4000\n", "ic"),
    ("cross-sob-forward", "\tnop\n\tnop\n\tnop\n\tnop\n\tnop\nfw1:: nop\n", "\tnop\n\t⟦sob⟧ r0, fw1\n", "ci"),
]
CROSS_NAMES = [("a.mac", "b.mac"), ("b.mac", "a.mac"), ("main.mac", "second.mac"), ("zlib.mac", "main.mac")]


def build_cross(ci, ni, via_include):
    """culprit and innocent part in two files: linked side by side, or one including the other"""
    name, innocent, culprit, order = CROSS[ci]
    cname, iname = CROSS_NAMES[ni]
    a = culprit.index("⟦")
    text = culprit.replace("⟦", "").replace("⟧", "")
    files = {cname: text, iname: innocent}
    if not via_include:
        infiles = [iname, cname] if order == "ic" else [cname, iname]
    elif order == "ic":           # the culprit's file includes the innocent one on top
        files[cname] = f'\t.include "{iname}"\n' + text
        a += len(f'\t.include "{iname}"\n')
        infiles = [cname]
    else:                         # the culprit's file includes the innocent one at its end
        files[cname] = text + f'\t.include "{iname}"\n'
        infiles = [cname]
    line, col = linecol(files[cname], a)
    return {"kind": name, "sev": "error", "wclass": None, "where": "cross", "trivia": ni, "location": "include" if via_include else "linked",
            "files": files, "infiles": infiles, "cfile": cname, "pos": a, "end": a, "line": line, "col": col}


def sets_link(k):
    return any(".link" in t for t in (k.text,) + tuple(k.pre))


def build_pair(k1, k2, location):
    """Two faults in one file (C->M on multi-fault programs; the first error must start at one of the culprits)."""
    r1, r2 = k1.render(1), k2.render(2)
    text, offs = plant([(1, r1), (4, r2)], {"main": "m", "second": "s", "include": "i"}[location], trivia=TRIVIA[5])
    files = dict(r1["fs"])
    files.update(r2["fs"])
    infiles = ["main.mac"]
    if location == "main":
        files["main.mac"], cfile = text, "main.mac"
    elif location == "second":
        files["main.mac"], _ = plant([], "m")
        files["second.mac"], cfile = text, "second.mac"
        infiles.append("second.mac")
    else:
        files["main.mac"] = ".include /inc.mac/\n" + plant([], "m")[0]
        files["inc.mac"], cfile = text, "inc.mac"
    return {"kind": f"{k1.name}+{k2.name}", "sev": "error", "files": files, "infiles": infiles, "cfile": cfile,
            "culprits": [[k1.sev, offs[0] + r1["culprit"][0]], [k2.sev, offs[1] + r2["culprit"][0]]]}


def run_pair(case):
    r = asm([(n, case["files"][n]) for n in case["infiles"]], fs={k: v for k, v in case["files"].items() if k not in case["infiles"]})
    firsts = [[("warning" if rep[0] == "warning" else "error"), rep[2][0][0], rep[2][0][1]] for rep in r["reports"] if rep[2]]
    return {"outcome": r["outcome"], "exc": r["exc"], "span_bad": span_problems(case, r["reports"]), "firsts": firsts,
            "idents": [rep[1] for rep in r["reports"]][:8]}


def printed_problems(case, diags):
    """(C->M) on the printed form: file is one of the run's files, line:col lies inside that file."""
    bad = []
    for fn, line, col, sev in diags:
        if fn not in case["files"]:
            bad.append(f"printed file {fn!r} is not one of the run's files")
            continue
        text = case["files"][fn]
        lines = text.split("\n")
        if not (1 <= line <= len(lines)):
            bad.append(f"printed line {line} outside {fn} ({len(lines)} lines)")
            continue
        width = linecol(lines[line - 1], len(lines[line - 1]))[1]
        if not (1 <= col <= width):
            bad.append(f"printed column {col} outside line {line} of {fn} (columns 1..{width})")
    return bad


def main(run):
    thorough = run.tier == "thorough"
    run.rule = ("part 1: every (text, pos) of LineCol.tla's state graph with pos > 0; part 2: a planted program = fault kind x "
                "planting position x trivia x location with a designated culprit token whose line:col the first diagnostic must "
                "carry; non-trivial = distinct (text,pos) pairs + distinct planted programs")
    part1(run, 7 if thorough else 6)

    # ---------------- part 2: planted programs
    cases = []
    for ki, kind in enumerate(CATALOGUE):
        for wi, where in enumerate(ALL_SLOTS if thorough else SLOTS):
            for ti in range(len(TRIVIA)):
                for li, location in enumerate(LOCATIONS):
                    cases.append(build_case(kind, where, ti, location))
    n_cross = 0
    for ci in range(len(CROSS)):
        for ni in range(len(CROSS_NAMES)):
            for via in (False, True):
                if via and CROSS[ci][0] == "cross-second-link":
                    continue              # '.link' inside an included file is left undefined
                cases.append(build_cross(ci, ni, via))
                n_cross += 1
    run.note("cross_file_programs", n_cross)
    run.note("planted_programs", len(cases))
    run.note("fault_kinds", len(CATALOGUE))
    run.note("reconciled_designations", RECONCILED)

    # in-process: all of them (first span + every span of every diagnostic)
    results = pmap(run_inproc, cases)
    run.add_eval(len(cases))
    n_spans_bad = 0
    for case, res in zip(cases, results):
        run.add_nontrivial(("p", case["kind"], case["where"], case["trivia"], case["location"]))
        ctx = f"kind={case['kind']} at {case['where']} trivia#{case['trivia']} in {case['location']}"
        for b in res["span_bad"]:
            n_spans_bad += 1
            run.violation(f"diagnostic span: {ctx}: {b}", {"case": {k: case[k] for k in ("kind", "where", "trivia", "location")}, "problem": b},
                          files=case["files"])
        if res["outcome"] == "hang":
            run.violation(f"planted program hangs: {ctx}", {"case": case["kind"]}, files=case["files"], tags=["outcome:hang"])
            continue
        first = res["first"]
        if first is None:
            run.violation(f"no {case['sev']} diagnostic at all: {ctx} (outcome {res['outcome']} {res['exc']}, reports {res['idents']})",
                          {"case": {k: case[k] for k in ("kind", "where", "trivia", "location")}}, files=case["files"])
        elif first[2] != case["cfile"] or first[3] != case["pos"]:
            run.violation(f"first {case['sev']} diagnostic ({first[1]}) points at {first[2]}:{first[4]} (offset {first[3]}), the culprit token is at "
                          f"{case['cfile']}:{case['line']}:{case['col']} (offset {case['pos']}): {ctx}",
                          {"case": {k: case[k] for k in ("kind", "where", "trivia", "location", "cfile", "pos", "line", "col")}, "first": first},
                          files=case["files"])
        if res["outcome"] == "exception":
            run.bump("runs_ending_in_internal_error")
            if "internal_error_example" not in run.extra:
                run.note("internal_error_example", {"kind": case["kind"], "location": case["location"], "exc": res["exc"]})

    # two faults in one file: spans of all diagnostics; the first error starts at one of the two culprits
    noncrit = [k for k in CATALOGUE if k.sev != "critical"]
    pairs = []
    for i, k1 in enumerate(noncrit):
        for j in (1, 7, 19) if thorough else (1 + (i + run.seed) % 23,):
            k2 = noncrit[(i + j) % len(noncrit)]
            if k2.name != k1.name and not (sets_link(k1) and sets_link(k2)):       # two '.link' would conflict by themselves
                pairs.append(build_pair(k1, k2, LOCATIONS[(i + j) % 3]))
    for case, res in zip(pairs, pmap(run_pair, pairs)):
        run.add_nontrivial(("pair", case["kind"], case["cfile"]))
        for b in res["span_bad"]:
            run.violation(f"diagnostic span: two faults {case['kind']} in {case['cfile']}: {b}", {"pair": case["kind"], "problem": b}, files=case["files"])
        if res["outcome"] == "hang":
            run.violation(f"planted program hangs: two faults {case['kind']}", {"pair": case["kind"]}, files=case["files"], tags=["outcome:hang"])
            continue
        # pdpy11 may stop evaluating after the first value error, so not every planted fault is reported; but the FIRST
        # error diagnostic of a program whose only defects are the two planted faults must start at one of their culprits
        errs = [pos for sev, pos in case["culprits"] if sev != "warning"]
        first_err = next((f for f in res["firsts"] if f[0] == "error"), None)
        if errs and (first_err is None or first_err[1] != case["cfile"] or first_err[2] not in errs):
            text = case["files"][case["cfile"]]
            run.violation(f"two faults {case['kind']} in {case['cfile']}: the first error diagnostic starts at {first_err}, the culprit tokens are at "
                          f"{['%d:%d' % linecol(text, p) for p in errs]} (offsets {errs}) ({res['idents']})",
                          {"pair": case["kind"], "culprits": case["culprits"], "firsts": res["firsts"]}, files=case["files"])
    run.add_eval(len(pairs))
    run.note("two_fault_programs", len(pairs))

    # real command line, bare format: the first line of the fault's severity
    if thorough:
        cli_cases = cases
    else:
        cli_cases = [c for i, c in enumerate(cases) if (i + run.seed) % 4 == 0 or c["where"] == "cross"]
    cres = pmap(run_cli_case, cli_cases)
    run.add_eval(len(cli_cases))
    n_cli_ok = 0
    for case, res in zip(cli_cases, cres):
        ctx = f"kind={case['kind']} at {case['where']} trivia#{case['trivia']} in {case['location']} `pdpy11 {' '.join(res['args'])}`"
        detail = {"case": {k: case[k] for k in ("kind", "where", "trivia", "location", "cfile", "line", "col")}, "diags": res["diags"][:8], "rc": res["rc"]}
        if res["hang"]:
            run.violation(f"command line hangs: {ctx}", detail, files=case["files"], tags=["outcome:hang"])
            continue
        for b in printed_problems(case, res["diags"]):
            run.violation(f"printed diagnostic: {ctx}: {b}", detail, files=case["files"])
        if not res["abs_ok"]:
            run.violation(f"a diagnostic does not name the file by its absolute path: {ctx}", detail, files=case["files"])
        want_word = "Warning" if case["sev"] == "warning" else "Error"
        first = next((d for d in res["diags"] if d[3] == want_word), None)
        if first is None:
            run.violation(f"no '{want_word}' line printed: {ctx} (rc {res['rc']})", detail, files=case["files"])
        elif first[:3] != [case["cfile"], case["line"], case["col"]]:
            run.violation(f"first {want_word} line is {first[0]}:{first[1]}:{first[2]}, the culprit token is at "
                          f"{case['cfile']}:{case['line']}:{case['col']}: {ctx}", detail, files=case["files"])
        else:
            n_cli_ok += 1
    run.note("cli_runs", len(cli_cases))
    run.note("cli_first_line_exact", n_cli_ok)
    run.note("inprocess_span_problems", n_spans_bad)
    deep = next((c for c in cases if c["kind"] == "word-at-odd-address" and c["location"] == "include" and c["trivia"] == 5), None)
    if deep:
        run.sample({"kind": deep["kind"], "location": deep["location"], "where": deep["where"], "file": deep["cfile"],
                    "predicted_first_line_prefix": f"<abs>/{deep['cfile']}:{deep['line']}:{deep['col']}", "source": deep["files"][deep["cfile"]]})
    run.exhaustive = True
    run.assumptions += [
        "culprit designations are harness/faults.py (written before looking at pdpy11's reports, reconciled kinds listed in "
        "'reconciled_designations'); pdpy11's token for '#expr' starts after '#', for a signed literal after the '-'",
        "part 1 is exhaustive for texts <= 6 characters over 5 character classes (2 renderings each); part 2 is exhaustive over "
        "kinds x positions x trivia x locations in-process" + ("" if thorough else ", one quarter of them through the real command line"),
    ]
