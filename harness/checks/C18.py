"""C18  Assembly is a pure function of its inputs.

(D)    spec/History.tla -- assemblies of eight kinds composed sequentially; every kind must restore the
       module-level evaluation state (try_compute depth, awaiting stack, handler stack) on its exit path
       (Restored, Consistent, EndKind); with an asynchronous interrupt inside Awaiting.__enter__ a dead
       stack entry remains (RestoredStrict is EXPECTED to fail there: the counter readings are
       diagnostic, the verdict is on probe results).  spec/Lazy.tla Balanced with an exception injected
       at every point of evaluation.
(M->C) every history TLC enumerates (all of length <= 4-5 over the kinds, simulated ones of 50) is
       played in ONE forked process on the real assembler, followed by four probe programs; the
       probes' results (outcome, base, bytes, diagnostics by severity/identifier/position, emitted
       file list, listing) must equal those of a fresh process.  The same probes through the real
       command line under PYTHONHASHSEED 0..N: exit status, stdout, stderr, written files identical.
"""
import collections
import os
import random
import shutil
import tempfile
from pathlib import Path

from ..common import MachineryError, tmp_root
from ..drive import pmap, run_cli
from ..tlc import run_tlc, require_ok
from .. import history as H
from .. import lazy as L
from .. import grammar as G

BENIGN = ("Error: The behavior up to this point is:", "Error: The following behavior constitutes a counter-example:")
INVS = ["Consistent", "Restored", "SyncIsClean", "DeadOnlyAfterInterrupt", "EndKind", "Export"]


def hcfg(kinds, maxlen, maxnest, asyncin, exportmin, sim, invs):
    q = "{" + ", ".join('"%s"' % k for k in kinds) + "}"
    return ("SPECIFICATION Spec\nCONSTANTS\n Kinds = %s\n MaxLen = %d\n MaxNest = %d\n AsyncInside = %s\n ExportMin = %d\n Sim = %s\n"
            % (q, maxlen, maxnest, "TRUE" if asyncin else "FALSE", exportmin, "TRUE" if sim else "FALSE")
            + "".join("INVARIANT %s\n" % i for i in invs) + "CHECK_DEADLOCK FALSE\n")


def tlc(run, module, cfg, label, expect=None, **kw):
    res = run_tlc(module, cfg_text=cfg, label=label, timeout=900, **kw)
    res.errors = [e for e in res.errors if not e.startswith(BENIGN)]
    require_ok(res)
    run.add_tlc(res)
    if expect is None:
        if res.violated:
            raise MachineryError(f"{module}: {res.violated} violated in '{label}': the design model is wrong\n{res.tail[-1500:]}")
    elif expect not in res.violated:
        raise MachineryError(f"{module}: '{label}' was expected to violate {expect} (vacuity guard)")
    return res


# ------------------------------------------------------------------------------------------------ CLI / hash seeds
CLI_PROBES = [
    ("p1", ["p1.mac", "-o", "out.bin", "--lst", "--report-format", "bare"]),
    ("p2", ["p2.mac", "-o", "out.bin", "--report-format", "graphical", "-Wall"]),
    ("p2b", ["p2.mac", "--implicit-bin", "--report-format", "bare", "-Wall"]),
    ("p3", ["p3a.mac", "p3b.mac", "--lst", "--implicit-bin", "--report-format", "bare"]),
    ("p4", ["p4.mac", "-o", "p4.raw", "--lst"]),
    ("p5", ["p5.mac", "-o", "p5.bin"]),
]


def cli_task(arg):
    name, args, seed = arg
    d = Path(tempfile.mkdtemp(prefix="c18-cli-", dir=tmp_root()))
    try:
        for pname, files, fs in H.PROBES:
            for fn, text in files:
                (d / fn).write_text(text, encoding="utf-8")
            for rel, content in (fs or {}).items():
                p = d / rel
                p.parent.mkdir(parents=True, exist_ok=True)
                if isinstance(content, bytes):
                    p.write_bytes(content)
                else:
                    p.write_text(content, encoding="utf-8")
        (d / "out").mkdir(exist_ok=True)
        r = run_cli(args, d, hashseed=seed, timeout=120)
        norm = lambda s: s.replace(str(d), "<DIR>")
        return (name, seed, {"rc": r["rc"], "out": r["out"].replace(str(d).encode(), b"<DIR>"), "err": norm(r["err"]), "changed": {k: v.replace(str(d).encode(), b"<DIR>") for k, v in sorted(r["changed"].items())},
                             "removed": r["removed"], "hang": r["hang"]})
    finally:
        shutil.rmtree(d, ignore_errors=True)


def main(run):
    thorough = run.tier == "thorough"
    rnd = random.Random(run.seed)
    run.rule = ("a history = a sequence of assemblies of kinds {valid, warning, error, critical, internal, cycle, interrupted, deep} "
                "(all sequences up to the bound from History.tla by BFS, sequences of 50 by simulation), played in one process and "
                "followed by 4 probe programs; non-trivial = distinct (history, seed of the concrete programs) whose probes were "
                "compared with a fresh process; plus CLI runs of the probes under PYTHONHASHSEED 0..N")
    # ---------------------------------------------------------------- (D)
    K5 = ["valid", "error", "internal", "cycle", "interrupted"]
    K8 = H.KINDS
    hist = []
    res = tlc(run, "History", hcfg(K5, 5 if thorough else 4, 2, False, 1, False, INVS + ["RestoredStrict"]),
              "History: 5 kinds, all histories <= %d (synchronous exits)" % (5 if thorough else 4), workers=8)
    hist += [r["hist"] for r in res.exports]
    res = tlc(run, "History", hcfg(K8, 4 if thorough else 2, 3, False, 1, False, INVS + ["RestoredStrict"]),
              "History: 8 kinds, all histories <= %d, nesting 3" % (4 if thorough else 2), workers=8)
    hist += [r["hist"] for r in res.exports]
    tlc(run, "History", hcfg(K8, 2, 2, True, 1, False, [i for i in INVS if i != "Export"]),
        "History: asynchronous interrupt inside Awaiting.__enter__ (Restored up to dead entries)", workers=4)
    tlc(run, "History", hcfg(K8, 2, 2, True, 1, False, ["RestoredStrict"]),
        "History: asynchronous interrupt leaves a dead stack entry (expected violation: readings are diagnostic)", expect="RestoredStrict", workers=2)
    res = tlc(run, "History", hcfg(K8, 50, 2, False, 50, True, INVS), "History: simulated histories of 50", simulate=(1000 if thorough else 60),
              depth=4000, seed=run.seed + 5, workers=1)
    long_h = [r["hist"] for r in res.exports]
    if not long_h:
        raise MachineryError("History.tla simulation exported no history of 50")
    kinds_seen = collections.Counter(k for h in hist + long_h for k in h)
    if set(kinds_seen) != set(K8):
        raise MachineryError(f"kinds never generated: {set(K8) - set(kinds_seen)}")
    tlc(run, "Lazy", L.cfg(["a", "b"], ["ref", "add", "div"], ["def", "blkb", "label"], 2, True, ["TypeOK", "Balanced"], inject=True),
        "Lazy: Balanced with an exception injected at every point of evaluation", workers=6)
    tlc(run, "Lazy", L.cfg(["a", "b"], ["ref", "const"], ["def"], 2, False, ["Balanced"], fault="depth-leak"),
        "Lazy self-test: a depth leak violates Balanced", expect="Balanced", workers=2)
    # ---------------------------------------------------------------- (M->C) histories
    seen = set()
    tasks = []
    for h in hist + long_h:
        key = tuple(h)
        if key in seen:
            continue
        seen.add(key)
        tasks.append((len(tasks), list(h), rnd.randrange(1 << 30)))
    if thorough:       # a second choice of concrete programs for the short histories
        for h in hist:
            tasks.append((len(tasks), list(h), rnd.randrange(1 << 30)))
    base_id = len(tasks)
    # the reference of every probe: that probe ALONE in a process that has assembled nothing before (twice, to see that this is stable)
    names = [n for n, _, _ in H.PROBES]
    alone = [(base_id + 2 + 2 * q + v, [], v, n) for q, n in enumerate(names) for v in (0, 1)]
    results = dict(pmap(H.play, [(base_id, [], 0), (base_id + 1, [], 1)] + alone + tasks, chunksize=1))
    if results[base_id] is None or results[base_id + 1] is None or any(results[a[0]] is None for a in alone):
        raise MachineryError("the probes did not run in a fresh process")
    base = {"probes": {n: results[base_id + 2 + 2 * q]["probes"][n] for q, n in enumerate(names)}}
    for q, n in enumerate(names):
        for other, what in ((results[base_id + 2 + 2 * q + 1], "alone in a second fresh process"), (results[base_id], "after the probes before it"),
                            (results[base_id + 1], "after the probes before it (second run)")):
            d = H.diff_probe(base["probes"][n], other["probes"][n])
            if d:
                run.violation(f"probe {n}: alone in a fresh process it gives another result than {what}: differs in {d}",
                              {"alone": base["probes"][n], "other": other["probes"][n]}, tags=["shape:probe-order-dependence"])
    want = {"p1": "ok", "p2": "error", "p3": "ok", "p4": "ok", "p5": "error"}
    for name, w in want.items():
        if base["probes"][name]["outcome"] != w:
            raise MachineryError(f"probe {name} gives {base['probes'][name]['outcome']} ({base['probes'][name].get('exc')}) in a fresh process, expected {w}: "
                                 f"the probe no longer exercises what it should")
    run.note("probe_baseline", {n: {"outcome": p["outcome"], "base": p["base"], "len": len(p["code"] or b""), "reports": len(p["reports"]),
                                    "emitted": len(p["emitted"])} for n, p in base["probes"].items()})
    outcome_by_kind = collections.defaultdict(collections.Counter)
    nonzero = collections.Counter()
    lost = 0
    for hid, h, seed in tasks:
        r = results[hid]
        if r is None:
            lost += 1
            run.violation(f"history {h[:8]}... did not finish (process killed)", {"history": h, "seed": seed}, tags=["shape:history-process-lost"])
            continue
        run.add_eval(len(h) + len(H.PROBES))
        run.add_nontrivial((tuple(h), seed))
        for k, text, outcome, rd, dt in r["log"]:
            outcome_by_kind[k][outcome] += 1
            if any(x not in (0, None) for x in rd):
                nonzero[(k, tuple(rd))] += 1
        diffs = {}
        for name, p in r["probes"].items():
            d = H.diff_probe(base["probes"][name], p)
            if d:
                diffs[name] = d
        if diffs:
            first = next(iter(diffs))
            run.violation(f"after the history {h if len(h) <= 6 else h[:6] + ['...']} the probe {first} differs from a fresh process in {diffs[first]}",
                          {"history": h, "seed": seed, "log": r["log"][-12:], "differs": diffs, "final_readings": r["final"],
                           "probe_after_history": {n: r["probes"][n] for n in diffs}, "probe_fresh": {n: base["probes"][n] for n in diffs}},
                          files={"history.txt": "\n----\n".join(f"[{k}] -> {o}  state={rd}\n{t}" for k, t, o, rd, dt in r["log"])},
                          tags=[("shape:after-async-interrupt" if any(o == "hang" for _, _, o, _, _ in r["log"]) else "shape:probe-differs-after-history")]
                               + ["kind:" + k for k in sorted(set(h))])
    run.note("histories_played", len(tasks))
    run.note("histories_lost", lost)
    run.note("assemblies_played", sum(len(h) for _, h, _ in tasks))
    run.note("outcomes_by_kind", {k: dict(v) for k, v in outcome_by_kind.items()})
    run.note("nonzero_state_readings_diagnostic", {f"{k[0]} {list(k[1])}": v for k, v in nonzero.most_common(12)})
    for k in K8:
        if not outcome_by_kind[k]:
            run.not_exercised.append(f"kind {k} never played")
    if not any(o == "hang" for o in outcome_by_kind["interrupted"]):
        run.not_exercised.append("no assembly was actually interrupted by the watchdog")
    if not any(o.startswith("exception") for o in outcome_by_kind["internal"]):
        run.not_exercised.append("no assembly of kind 'internal' raised an exception")
    ex = [t for t in tasks if len(t[1]) == 50]
    if ex:
        run.sample({"history_of_50": ex[0][1], "probes_equal_to_fresh_process": results[ex[0][0]] is not None})
    run.sample({"history": tasks[min(300, len(tasks) - 1)][1], "log": [(k, o, rd) for k, t, o, rd, dt in (results[tasks[min(300, len(tasks) - 1)][0]] or {"log": []})["log"]]})
    # ---------------------------------------------------------------- PYTHONHASHSEED
    seeds = [str(i) for i in range(32 if thorough else 8)] + ["random"]
    cli = pmap(cli_task, [(n, a, s) for n, a in CLI_PROBES for s in seeds], chunksize=1)
    ref = {}
    for name, seed, r in cli:
        if seed == "0":
            ref[name] = r
    exp_rc = {"p1": 0, "p2": 1, "p2b": 1, "p3": 0, "p4": 0, "p5": 1}
    for name, r in ref.items():
        if r["hang"] or r["rc"] != exp_rc[name]:
            raise MachineryError(f"CLI probe {name} exits with {r['rc']} (hang={r['hang']}) under PYTHONHASHSEED=0, expected {exp_rc[name]}:\n{r['err'][-800:]}")
    run.note("cli_probe_files", {n: sorted(r["changed"]) for n, r in ref.items()})
    for name, seed, r in cli:
        run.add_eval(1)
        run.add_nontrivial(("cli", name, seed))
        d = [k for k in ("rc", "out", "err", "changed", "removed", "hang") if r[k] != ref[name][k]]
        if d:
            run.violation(f"CLI probe {name}: PYTHONHASHSEED={seed} differs from PYTHONHASHSEED=0 in {d}",
                          {"seed": seed, "differs": d, "rc": (ref[name]["rc"], r["rc"]), "stderr_seed0": ref[name]["err"][-1500:], "stderr_seed": r["err"][-1500:],
                           "files_seed0": sorted(ref[name]["changed"]), "files_seed": sorted(r["changed"])},
                          tags=["shape:hash-seed-dependence"])
    run.note("hash_seeds", seeds)
    run.exhaustive = False
    run.assumptions += ["concrete programs of each kind come from small pools in harness/history.py (kinds 'cycle', 'interrupted' and part of 'internal' rely on "
                        "inputs that crash or hang today; when those are repaired the kind degrades to 'error' and is reported under not_exercised)",
                        "the readings of try_compute.depth / awaiting_stack / handlers_stack are diagnostic only",
                        "diagnostic texts are not compared (only severity, identifier, positions); CLI stderr text is compared across hash seeds"]
