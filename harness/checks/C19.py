"""C19  The listing agrees with the image.

(D)    AsmCore.tla / ListAlphabet: ListingOf(run) = per source file, every ordinary symbol with its final value ordered by
       (value, name); TLC checks ListingSorted and AddressAgreement (a label's value is base + bytes before it) on every program.
       LstPath.tla: the listing is written beside the primary output and named after it ('.<format>' suffix replaced by '.lst').
(M->C) (a) every accepted program TLC writes (labels, constants that are negative / > 16 bit / equal, exports, includes, 1-3 files) is
       assembled by the real code and Compiler.generate_listing() must consist of exactly the predicted sections and lines, in the
       predicted order within a section, each line '<octal value> <name>'; the image must be the predicted one, so that a listed label
       address indexes the byte that follows the label.  (b) every LstPath scenario is run through the real command line with --lst:
       the listing file must appear at the predicted path with the predicted content, and no other .lst file.
"""
import re
import shutil
import tempfile
from pathlib import Path

import random

from ..asmcore import explore, explore_given, render, kinds_of, tags_for
from .. import gen as G
from ..common import MachineryError, tmp_root
from ..drive import asm, pmap, run_cli
from ..tlc import run_tlc, require_ok

LINE = re.compile(r"^\s*(-?[0-7]+)\s+(\S+)\s*$")      # '<value in octal> <name>'; width and padding are not part of the property


def parse_strict(text):
    """-> ([(file, [(name, value)])], error)"""
    secs, cur = [], None
    lines = text.split("\n")
    if lines and lines[-1] == "":
        lines.pop()
    for ln in lines:
        if ln == "":
            cur = None
            continue
        if cur is None:
            cur = (ln, [])
            secs.append(cur)
            continue
        m = LINE.match(ln)
        if not m:
            return None, f"line {ln!r} is not '<octal value> <name>'"
        cur[1].append((m.group(2), int(m.group(1), 8)))
    return secs, None


def compare(lst_text, run, strip=""):
    secs, err = parse_strict(lst_text)
    if err:
        return err
    got = {}
    for f, ys in secs:
        f = f[len(strip):].lstrip("/") if strip and f.startswith(strip) else f
        if f in got:
            return f"file {f} has two sections"
        got[f] = ys
    want = {s["file"] + ".mac": [(y["name"], y["value"]) for y in s["lines"]] for s in run["lst"]}
    if set(got) != set(want):
        return f"sections {sorted(got)} but predicted {sorted(want)}"
    for f in want:
        if got[f] != want[f]:
            # equal (value, name-rank) ties cannot occur: names are distinct within a file instance; two inclusions of one
            # file list a name twice with possibly different values - order by value decides
            return f"section {f}: listed {got[f]}, predicted {want[f]}"
    return None


def replay_listing(task):
    rec, inc = task
    out = []
    for run in rec["runs"]:
        srcs, fs = render(rec["files"], inc, run["base"])
        # non-ASCII quoted text ("u" chunks) is specified for the UTF-8 output charset
        charset = "utf-8" if any(s_["k"] == "asciic" and any("u" in c for c in s_["cs"]) for f in rec["files"] for s_ in f) else "bk"
        r = asm(srcs, fs=fs, timeout=5, listing=True, charset=charset)
        p = None
        if r["outcome"] != "ok":
            p = {"kind": "crash" if r["outcome"] in ("hang", "exception") else "rejected", "what": f"outcome={r['outcome']} exc={r['exc']} {[x[1] for x in r['reports'] if x[0] != 'warning'][:3]}"}
        elif list(r["code"]) != run["image"] or r["base"] != run["base"]:
            p = {"kind": "image", "what": f"image/base differ: predicted {bytes(run['image']).hex()} at {run['base']:o}, real {r['code'].hex()} at {r['base']:o}"}
        else:
            err = compare(r["listing"], run)
            if err:
                p = {"kind": "listing", "what": err + " | listing text: " + repr(r["listing"])[:400]}
        if p:
            p.update({"outcome": r["outcome"], "exc": r["exc"], "sources": dict(srcs)})
            out.append(p)
    return out


def cli_case(task):
    scen, rec, inc = task
    run = rec["runs"][0]
    root = Path(tempfile.mkdtemp(prefix="c19-", dir=tmp_root()))
    try:
        srcs, fs = render(rec["files"], inc, run["base"])
        if len(srcs) != 1:
            raise MachineryError("cli_case expects single-file programs")
        text = srcs[0][1]
        sel = scen["sel"]
        args = ["--lst"]
        if any(s_["k"] == "asciic" and any("u" in c for c in s_["cs"]) for f in rec["files"] for s_ in f):
            args += ["--charset", "utf-8"]          # non-ASCII quoted text ("u" chunks) is specified for the UTF-8 output charset

        def path_of(o, keep=None, ext=None):
            name = o["stem"]
            e = o["ext"] if ext is None else ext
            if keep:
                name += "." + keep
            if e:
                name += "." + e
            return (o["dir"] + "/" if o["dir"] else "") + name
        k = sel["k"]
        if k in ("dash-o", "make_bin", "make_raw") and sel["dir"]:
            (root / sel["dir"]).mkdir()
        if k == "dash-o":
            args += ["-o", path_of(sel)]
        elif k in ("make_bin", "make_raw"):
            text += f'\t{k} "{path_of(sel)}"\n'
        elif k == "two":
            text += f'\t{sel["k1"]} "{path_of(sel)}"\n\t{sel["k2"]} "{sel["stem2"]}.{sel["ext2"]}"\n'
        elif k == "make_bin_default":
            text += "\tmake_bin\n"
        elif k == "implicit_bin":
            args += ["--implicit-bin"]
        elif k == "stdout":
            args += ["-o", "-"]
        (root / "main.mac").write_text(text.replace("@ROOT@", str(root)))
        for rel, content in (fs or {}).items():
            p = root / rel
            p.parent.mkdir(parents=True, exist_ok=True)
            if isinstance(content, bytes):
                p.write_bytes(content)
            else:
                p.write_text(content.replace("@ROOT@", str(root)))
        res = run_cli(args + ["main.mac"], cwd=root)
        want_lst = path_of(scen["listing"], keep=scen["listing"]["keep"], ext="lst")
        want_out = None if k == "stdout" else path_of(scen["output"])
        lsts = sorted(p for p in res["changed"] if p.endswith(".lst"))
        prob = None
        if res["rc"] != 0:
            prob = f"exit status {res['rc']}: {res['err'][-300:]}"
        elif lsts != [want_lst]:
            prob = f"listing files written: {lsts}, predicted: ['{want_lst}'] (all files: {sorted(res['changed'])})"
        elif want_out is not None and want_out not in res["changed"]:
            prob = f"primary output {want_out} not written (files: {sorted(res['changed'])})"
        else:
            run2 = dict(run, lst=[dict(s, file="main" if s["file"] == "f1" else s["file"]) for s in run["lst"]])
            err = compare(res["changed"][want_lst].decode("utf-8"), run2, strip=str(root))
            if err:
                prob = "listing file content: " + err
        if prob:
            return {"what": prob, "args": args, "source": text, "scenario": scen}
        return None
    finally:
        shutil.rmtree(root, ignore_errors=True)


def nontrivial(rec):
    return rec["ok"] and sum(len(s["lines"]) for s in rec["runs"][0]["lst"]) >= 2


def main(run):
    thorough = run.tier == "thorough"
    run.rule = ("(a) programs written by TLC over ListAlphabet (labels a b c::, local 1:, constants -5, 70000, 0, m == b - a, a = 3, b = 512, two "
                "includable files with private/exported/negative symbols, .extern all, 1-3 files) assembled in-process, listing compared line by "
                "line; (b) all 55 LstPath selector scenarios (incl. two directive outputs: the first names the listing) x programs through the real CLI with --lst; non-trivial = accepted program listing at "
                "least two symbols, or a CLI scenario")
    recs, inc = explore(run, "ListAlphabet", "ListIncFiles", 3, 1, [512], label="AsmCore listing, 1 file x 3 stmts (exhaustive)")
    recs2, inc2 = explore(run, "ListAlphabet", "ListIncFiles", 4, 3, [512, 1026], simulate=(8000 if thorough else 1200), depth=14, seed=run.seed + 19,
                          label="AsmCore listing simulation (<= 4 stmts x 3 files)")
    # many source files: 3 linked files and 9-14 inclusions (more than nine file instances; every inclusion of a file lists its
    # symbols again under that file's name) -- written by the harness, evaluated by AsmCore.tla in "given" mode
    rnd = random.Random(run.seed + 5)
    progs = []
    for k in ([9, 10, 12, 14] if not thorough else list(range(7, 19))):
        body = []
        for j in range(k):
            body.append(G.insn("nop") if rnd.random() < 0.5 else G.byte(G.num(j)))
            body.append({"k": "include", "f": 1})
        cut1, cut2 = len(body) // 3, 2 * len(body) // 3
        progs.append([body[:cut1] + [G.lab("a")], body[cut1:cut2] + [G.const("n", G.num(-5))], body[cut2:] + [G.lab("b")]])
        progs.append([[G.lab("a")] + body + [G.const("z", G.num(0))]])
    recs3, _ = explore_given(run, progs, "ListIncFiles", [512], label=f"AsmCore given: {len(progs)} programs with up to 14 inclusions")
    run.note("many_file_programs", {"generated": len(progs), "accepted_by_spec": sum(1 for r in recs3 if r["ok"])})
    seen, tasks = set(), []
    for r in recs + recs2 + recs3:
        key = repr(r["files"])
        if key in seen or not r["ok"] or r.get("skip"):
            continue
        seen.add(key)
        tasks.append((r, inc))
    for (rec, _), probs in zip(tasks, pmap(replay_listing, tasks)):
        run.add_eval(len(rec["runs"]))
        if nontrivial(rec):
            run.add_nontrivial(repr(rec["files"]))
        for p in probs:
            run.violation(f"{p['kind']}: {p['what']} | {' // '.join(p['sources'].values())[:200]!r}", {"problem": {k: v for k, v in p.items() if k != 'sources'},
                          "abstract": rec["files"]}, files=p["sources"], tags=tags_for(rec, p))
    run.note("listings_compared", len(tasks))
    multi = [t for t in tasks if len(t[0]["files"]) > 1 and nontrivial(t[0])]
    if multi:
        run.sample({"abstract": multi[len(multi) // 2][0]["files"], "predicted_listing": multi[len(multi) // 2][0]["runs"][0]["lst"]})
    neg = [t for t in tasks if any(y["value"] < 0 or y["value"] > 65535 for s in t[0]["runs"][0]["lst"] for y in s["lines"])]
    run.note("listings_with_negative_or_wide_values", len(neg))

    # (b) listing path through the real command line
    res = require_ok(run_tlc("LstPath", cfg_text="SPECIFICATION Spec\nINVARIANT BesideOutput\nINVARIANT Export\nCHECK_DEADLOCK FALSE\n", label="LstPath scenarios", workers=1))
    run.add_tlc(res)
    if res.violated:
        run.violation(f"model: LstPath invariant {res.violated}", {"tail": res.tail})
    single = [t[0] for t in tasks if len(t[0]["files"]) == 1 and nontrivial(t[0])]
    picks = single[:: max(1, len(single) // (12 if thorough else 3))][: (12 if thorough else 3)]
    ctasks = [(scen, rec, inc) for scen in res.exports for rec in picks]
    for t, bad in zip(ctasks, pmap(cli_case, ctasks)):
        run.add_eval()
        run.add_nontrivial(("cli", repr(t[0]["sel"]), repr(t[1]["files"])))
        if bad:
            run.violation(f"--lst via CLI ({bad['scenario']['sel']}): {bad['what']}", {k: v for k, v in bad.items() if k != "source"}, files={"main.mac": bad["source"]})
    run.note("cli_listing_runs", len(ctasks))
    if res.exports:
        run.sample({"selector": res.exports[len(res.exports) // 2]["sel"], "predicted_listing_path": res.exports[len(res.exports) // 2]["listing"]})
    run.exhaustive = False
    run.assumptions += ["the order of the per-file sections is not specified by the property and not compared",
                        "values are read as octal numbers with an optional sign; field width and zero padding are not compared",
                        "'-o' together with a directive output is not generated ('first output file' is ambiguous there)"]
