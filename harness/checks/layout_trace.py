"""C->M part of C02: record hook-H1 traces from real assemblies and validate them with spec/LayoutTrace.tla."""
import json
import os
import re
import tempfile

from ..common import MachineryError, tmp_root
from ..drive import asm, mods, pmap
from .. import corpus
from ..tlc import run_tlc, require_ok

def record(comp, base, code):
    """post-hook inside asm(): turn Compiler.verif_trace into one trace per completed compile_block invocation
    (frame) plus a root trace whose events are the linked files.  Everything is settled by now."""
    tr = getattr(comp, "verif_trace", None)
    if tr is None:
        return None
    d = mods()["deferred"]
    frames, order, open_stack, depth0 = {}, [], [], []
    for idx, entry in enumerate(tr):
        kind, insn, state, chunk = entry[:4]
        frame = entry[4] if len(entry) > 4 else None
        if kind == "enter":
            fid = idx + 1
            frames[fid] = {"start": chunk, "ev": [], "data": None, "done": False}
            order.append(fid)
            if not any(not frames[f]["done"] and frames[f].get("open") for f in open_stack):
                depth0.append(fid)
            frames[fid]["open"] = True
            open_stack.append(fid)
            continue
        if frame not in frames:
            continue
        fr = frames[frame]
        if kind == "exit":
            fr["data"], fr["done"], fr["open"] = chunk, True, False
            continue
        addr = d.wait(state["emit_address"])
        if kind == "label":
            fr["ev"].append({"k": "label", "a": addr, "n": 0, "ann": -1, "b": []})
            continue
        if chunk is None:
            data, ann = b"", -1
        elif isinstance(chunk, d.BaseDeferred):
            ln = chunk.length()
            ann = ln if isinstance(ln, int) else -1
            data = d.wait(chunk)
        else:
            data, ann = chunk, -1
        name = insn.name.name.lower() if kind == "insn" else ""
        if name in (".include", "include"):
            ann = -1            # declared size=0 although the body's real length is used (documented deviation, DESIGN C02)
        fr["ev"].append({"k": "emit", "a": addr, "n": len(data), "ann": ann, "b": list(data)})
    traces = []
    for fid in order:
        fr = frames[fid]
        if not fr["done"]:
            continue            # an attempt that was abandoned (NotReady / error); it produced nothing
        data = d.wait(fr["data"])
        traces.append({"start": d.wait(fr["start"]), "total": len(data), "ev": fr["ev"], "root": False})
    # root: the linked files are the first completed depth-0 frames, in order
    files = [f for f in depth0 if frames[f]["done"]][:getattr(comp, "verif_nfiles", 10**9)]
    return {"base": base, "image": list(code), "frames": traces,
            "top": [{"a": d.wait(frames[f]["start"]), "n": len(d.wait(frames[f]["data"])), "b": list(d.wait(frames[f]["data"]))} for f in files]}


def to_traces(rec, nfiles):
    """program record -> list of trace dicts (without program index)"""
    top = rec["top"][:nfiles]
    root = {"start": rec["base"], "total": len(rec["image"]), "root": True,
            "ev": [{"k": "emit", "a": t["a"], "n": t["n"], "ann": -1, "b": t["b"]} for t in top]}
    return [root] + rec["frames"]


def trace_corpus(item):
    name, src, _ = item
    r = asm([(src, open(src).read())], timeout=120, post=record, hooks=True)
    return name, r["outcome"], r["post"]


def trace_generated(task):
    srcs, fs = task
    r = asm(srcs, fs=fs, timeout=5, post=record, hooks=True)
    return r["outcome"], r["post"], len(srcs)


def validate_batch(run, programs, traces, label):
    """-> {rejected trace index (0-based): furthest event reached}"""
    if not traces:
        return {}
    fd, path = tempfile.mkstemp(prefix="layout-", suffix=".json", dir=tmp_root())
    try:
        with os.fdopen(fd, "w") as f:
            json.dump({"programs": programs, "traces": traces}, f)
        res = require_ok(run_tlc("LayoutTrace", cfg="LayoutTrace", workers=1, env={"TRACE_FILE": path}, label=label, timeout=1200))
        run.add_tlc(res)
        rejected, accepted = {}, None
        for line in res.printed:
            m = re.search(r'<<"REJECTED", (\d+), (\d+)>>', line)
            if m:
                rejected[int(m.group(1)) - 1] = int(m.group(2))
            m = re.search(r'<<"ACCEPTED", (\d+)>>', line)
            if m:
                accepted = int(m.group(1))
        if accepted is None or accepted + len(rejected) != len(traces):
            raise MachineryError(f"LayoutTrace: accepted={accepted} rejected={len(rejected)} traces={len(traces)}\n{res.tail[-800:]}")
        return rejected
    finally:
        os.unlink(path)


def selftest(run, program, trace):
    """binding demonstration: corrupt one recorded field / drop one event -> TLC must reject"""
    idx = next(i for i, e in enumerate(trace["ev"]) if e["k"] == "emit" and e["n"] > 0)
    bad1 = json.loads(json.dumps(trace))
    bad1["ev"][idx]["a"] += 2
    bad2 = json.loads(json.dumps(trace))
    del bad2["ev"][idx]
    bad3 = json.loads(json.dumps(trace))
    bad3["ev"][idx]["b"][0] ^= 1
    bad4 = json.loads(json.dumps(trace))
    lab = [i for i, e in enumerate(bad4["ev"]) if e["k"] == "label"]
    extra = []
    if lab:
        bad4["ev"][lab[-1]]["a"] += 2
        extra = [bad4]
    rej = validate_batch(run, [program], [trace, bad1, bad2, bad3] + extra, "LayoutTrace self-test (corrupted copies must be rejected)")
    if set(rej) != set(range(1, 4 + len(extra))):
        raise MachineryError(f"LayoutTrace self-test failed: rejected={rej}")
    run.note("trace_selftest", "good trace accepted; shifted address, dropped event, flipped byte" + (", shifted label" if extra else "") + " rejected")


def validate(run, thorough, generated=None):
    res = pmap(trace_corpus, corpus.programs(), workers=8)
    programs, traces, names = [], [], []

    def add(name, rec, nfiles):
        programs.append({"base": rec["base"], "image": rec["image"]})
        for t in to_traces(rec, nfiles):
            t["p"] = len(programs)
            traces.append(t)
            names.append(name)

    for name, outcome, rec in res:
        if outcome != "ok":
            run.violation(f"corpus program {name} does not assemble: {outcome}", {"program": name})
            continue
        if rec is None:
            run.not_exercised.append("hook H1 absent (Compiler.verif_trace missing): layout traces not validated")
            return
        add("corpus:" + name, rec, 1)
    ncorpus = len(programs)
    for (outcome, rec, nfiles), src in (generated or []):
        if outcome == "ok" and rec is not None:
            add(src, rec, nfiles)
    rejected = validate_batch(run, programs, traces, f"LayoutTrace: {len(traces)} block traces of {len(programs)} real assemblies")
    run.add_traces(len(traces) - len(rejected))
    run.note("trace_events", sum(len(t["ev"]) for t in traces))
    run.note("traced_programs", {"corpus": ncorpus, "generated": len(programs) - ncorpus})
    for i, reached in rejected.items():
        t = traces[i]
        e = t["ev"][reached - 1] if reached - 1 < len(t["ev"]) else None
        run.violation(f"layout trace ({'root' if t['root'] else 'block'}) of {names[i][:80]} rejected at event {reached}: "
                      f"{json.dumps(e)[:200] if e else 'final clause (block length / image length)'}",
                      {"program": names[i], "event_index": reached, "event": e, "start": t["start"], "total": t["total"]})
    cand = [i for i, t in enumerate(traces) if not t["root"] and any(e["k"] == "emit" and e["n"] for e in t["ev"]) and len(t["ev"]) >= 3]
    if cand:
        i = min(cand, key=lambda i: len(traces[i]["ev"]))
        selftest(run, programs[traces[i]["p"] - 1], dict(traces[i], p=1))
        run.sample({"trace_of": names[i], "start": traces[i]["start"], "events": traces[i]["ev"][:5]})
