"""(C->M) for C07: record an ordered event trace of one command-line run executed in-process through
pdpy11's entry point, and validate batches of traces with spec/CliTrace.tla.

Recorders sit on public seams only: reports.emit_report (every diagnostic issued), the printers'
__call__ (what passed the -W filter), builtins.open for writing (every file created or truncated),
sys.stdout.buffer (the '-o -' stream), SystemExit (exit status).  If a seam is missing the trace is
reported as not recorded (never a violation).
"""
import builtins
import io
import json
import os
import sys
import tempfile
from pathlib import Path

from .common import tmp_root, rmtree, MachineryError
from .drive import mods, watchdog, Hang
from .tlc import run_tlc, require_ok


class _Buf(io.BytesIO):
    def __init__(self, events):
        super().__init__()
        self._events = events

    def write(self, data):
        if len(data):
            self._events.append(["write", "-"])
        return super().write(data)


class _Out(io.StringIO):
    def __init__(self, events):
        super().__init__()
        self.buffer = _Buf(events)


def record(args, cwd):
    """Run `pdpy11 <args>` in-process in directory cwd.  -> {"events": [[kind, arg], ...]} or {"events": None, "why": ...}"""
    mods()
    try:
        from pdpy11 import _cli, reports
    except Exception as ex:  # noqa
        return {"events": None, "why": f"import failed: {type(ex).__name__}"}
    need = [(_cli, "main_cli"), (reports, "emit_report"), (reports, "BareHandler"), (reports, "GraphicalHandler"),
            (reports, "warning"), (reports, "error"), (reports, "critical")]
    for mod, name in need:
        if not hasattr(mod, name):
            return {"events": None, "why": f"seam {mod.__name__}.{name} missing"}
    events = []
    cwd = str(cwd)

    def sev_of(priority):
        return "warning" if priority is reports.warning else ("critical" if priority is reports.critical else "error")

    orig_emit = reports.emit_report
    orig_bare, orig_graph = reports.BareHandler.__call__, reports.GraphicalHandler.__call__
    orig_open = builtins.open

    def emit2(priority, identifier, *reps):
        events.append(["report", sev_of(priority)])
        return orig_emit(priority, identifier, *reps)

    def bare2(self, priority, identifier, *reps):
        events.append(["shown", sev_of(priority)])
        return orig_bare(self, priority, identifier, *reps)

    def graph2(self, priority, identifier, *reps):
        events.append(["shown", sev_of(priority)])
        return orig_graph(self, priority, identifier, *reps)

    def open2(file, mode="r", *a, **kw):
        if isinstance(mode, str) and any(c in mode for c in "wax+") and isinstance(file, (str, bytes, os.PathLike)):
            p = os.path.abspath(os.fsdecode(file))
            events.append(["write", os.path.relpath(p, cwd) if p.startswith(cwd + os.sep) else p])
        return orig_open(file, mode, *a, **kw)

    old_argv, old_cwd, old_out, old_err = sys.argv, os.getcwd(), sys.stdout, sys.stderr
    code = None
    try:
        reports.emit_report = emit2
        reports.BareHandler.__call__, reports.GraphicalHandler.__call__ = bare2, graph2
        builtins.open = open2
        sys.argv = ["pdpy11"] + list(args)
        os.chdir(cwd)
        sys.stdout, sys.stderr = _Out(events), io.StringIO()
        try:
            with watchdog(30):
                try:
                    _cli.main_cli()
                    code = 0
                except SystemExit as ex:
                    code = 0 if ex.code in (None, 0) else 1
        except Hang:
            events.append(["hang", ""])
        except BaseException as ex:  # noqa - an exception escaping the entry point is an event, not machinery
            if isinstance(ex, (KeyboardInterrupt, MachineryError)):
                raise
            events.append(["crash", type(ex).__name__])
    finally:
        builtins.open = orig_open
        reports.emit_report = orig_emit
        reports.BareHandler.__call__, reports.GraphicalHandler.__call__ = orig_bare, orig_graph
        sys.argv, sys.stdout, sys.stderr = old_argv, old_out, old_err
        os.chdir(old_cwd)
        del reports.handle_reports.handlers_stack[:]
    if code is not None:
        events.append(["exit", str(code)])
    return {"events": events}


def validate(traces, run=None, label="CliTrace"):
    """traces: list of event lists.  -> list of bool (accepted by CliTrace.tla)."""
    if not traces:
        return []
    work = Path(tempfile.mkdtemp(prefix="clitrace-", dir=tmp_root()))
    try:
        f = work / "traces.json"
        f.write_text(json.dumps([[{"k": e[0], "a": e[1]} for e in tr] for tr in traces]))
        cfg = "SPECIFICATION Spec\nINVARIANT TypeOK\nINVARIANT Accepted\nCHECK_DEADLOCK FALSE\n"
        res = require_ok(run_tlc("CliTrace", cfg_text=cfg, workers=1, env={"TRACE_FILE": str(f)},
                                 label=f"{label}: {len(traces)} recorded command-line traces", timeout=900))
        if run is not None:
            run.add_tlc(res)
        if res.violated:
            raise MachineryError(f"CliTrace.tla: {res.violated} violated\n{res.tail[-1500:]}")
        ok = {r["tid"] for r in res.exports}
        return [(i + 1) in ok for i in range(len(traces))]
    finally:
        rmtree(work)
