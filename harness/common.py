"""Shared plumbing for every check: paths, tiers/seeds, evidence, violations, known findings.

A check is a module harness/checks/Cxx.py with a function main(run: Run).  It is started through
/verif/check (see that script).  Exit status: 0 held, 1 violation (a line
"VIOLATION property=<id> replay=<path>" is printed), 2 machinery failure.
"""
import hashlib
import json
import os
import shutil
import sys
import time
import traceback
from pathlib import Path

VERIF = Path(__file__).resolve().parent.parent
REPO = Path(os.environ.get("PDPY11_REPO", "/repo")).resolve()
SPEC = VERIF / "spec"
_ALT = str(REPO) != "/repo"       # running against a scratch copy (mutation testing): keep /verif's evidence intact
EVIDENCE = VERIF / "evidence" if not _ALT else Path("/tmp/verif-alt/evidence")
REPLAY = VERIF / "replay" if not _ALT else Path("/tmp/verif-alt/replay")
KNOWN = VERIF / "known_findings.json"
PY = "/venv/bin/python"
GUARD = "PDPY11_VERIF"


class MachineryError(Exception):
    """Something in the verification machinery itself failed (exit 2, never a verdict)."""


def tmp_root():
    """Scratch directory outside /repo and /verif; removed by the caller."""
    base = Path(os.environ.get("VERIF_TMP", os.environ.get("TMPDIR", "/tmp")))
    base.mkdir(parents=True, exist_ok=True)
    return base


def load_known():
    if not KNOWN.exists():
        return {"findings": [], "fixed": []}
    return json.loads(KNOWN.read_text())


class Run:
    """Collects what one check run covered and what it found; writes the evidence file."""

    def __init__(self, pid, tier, seed, level="model_checking"):
        self.pid = pid
        self.tier = tier
        self.seed = seed
        self.level = level
        self.t0 = time.time()
        self.states = 0
        self.transitions = 0
        self.traces = 0
        self.evaluations = 0
        self.nontrivial = set()      # hashes of distinct non-trivial cases
        self.nontrivial_n = 0        # or a plain measured counter (when a set would be too big)
        self.samples = []
        self.rule = ""
        self.exhaustive = None
        self.assumptions = []
        self.extra = {}
        self.tlc_runs = []
        self.violations = []         # list of (replay_path, summary)
        self.known_hits = {}         # finding id -> count
        self.known = load_known()
        self.not_exercised = []
        self._max_violation_dirs = 20

    # ------------------------------------------------------------------ coverage
    def add_tlc(self, res, label=None):
        """Account one TLC run (harness.tlc.TlcResult)."""
        self.states += res.distinct
        self.transitions += res.generated
        self.tlc_runs.append({"label": label or res.label, "mode": res.mode, "distinct_states": res.distinct,
                              "states_generated": res.generated, "exports": res.n_exports, "wall_s": round(res.wall, 2),
                              "cmd": res.cmd})

    def add_eval(self, n=1):
        self.evaluations += n

    def add_nontrivial(self, key=None, n=1):
        if key is None:
            self.nontrivial_n += n
        else:
            self.nontrivial.add(hashlib.blake2b(repr(key).encode(), digest_size=8).digest())

    def add_traces(self, n=1):
        self.traces += n

    def sample(self, obj, limit=6):
        if len(self.samples) < limit:
            self.samples.append(obj)

    def note(self, key, value):
        self.extra[key] = value

    def bump(self, key, n=1):
        self.extra[key] = self.extra.get(key, 0) + n

    # ------------------------------------------------------------------ findings
    def _match_known(self, tags):
        for f in self.known.get("findings", []):
            if self.pid not in f.get("properties", [f.get("property")]):
                continue
            req = set(f.get("requires_tags", []))
            if req and req <= set(tags):
                return f
        return None

    def violation(self, summary, detail=None, files=None, tags=()):
        """Report one failing case.  `tags` describe its shape; a case whose tags include all the
        `requires_tags` of an entry of known_findings.json for this property is a KNOWN-FINDING."""
        f = self._match_known(tags)
        if f is not None:
            self.known_hits.setdefault(f["id"], {"count": 0, "what": f["what"], "example": summary})
            self.known_hits[f["id"]]["count"] += 1
            return None
        h = hashlib.blake2b((summary + json.dumps(detail, sort_keys=True, default=str)).encode(), digest_size=6).hexdigest()
        path = REPLAY / f"{self.pid}-{h}"
        if len(self.violations) < self._max_violation_dirs:
            path.mkdir(parents=True, exist_ok=True)
            (path / "case.json").write_text(json.dumps({"property": self.pid, "summary": summary, "tags": sorted(tags),
                                                        "detail": detail}, indent=1, default=str))
            for name, content in (files or {}).items():
                p = path / name
                p.parent.mkdir(parents=True, exist_ok=True)
                if isinstance(content, bytes):
                    p.write_bytes(content)
                else:
                    p.write_text(content)
        self.violations.append((str(path), summary))
        return path

    # ------------------------------------------------------------------ output
    def finish(self):
        wall = time.time() - self.t0
        distinct = len(self.nontrivial) + self.nontrivial_n
        cov = {
            "states": self.states,
            "transitions": self.transitions,
            "traces_validated_against_impl": self.traces,
            "samples": self.samples or ["(no case recorded)"],
            "evaluations": self.evaluations,
            "distinct_nontrivial": distinct,
            "rule": self.rule,
            "tlc_runs": self.tlc_runs,
            "known_findings_hit": self.known_hits,
            "not_exercised": self.not_exercised,
        }
        if self.exhaustive is not None:
            cov["exhaustive"] = bool(self.exhaustive)
        cov.update(self.extra)
        ev = {
            "property_id": self.pid,
            "tier": self.tier,
            "seed": self.seed,
            "level": self.level,
            "coverage": cov,
            "assumptions": self.assumptions,
            "wall_s": round(wall, 2),
            "violations": len(self.violations),
        }
        EVIDENCE.mkdir(parents=True, exist_ok=True)
        (EVIDENCE / f"{self.pid}.json").write_text(json.dumps(ev, indent=1, default=str) + "\n")
        for fid, info in sorted(self.known_hits.items()):
            print(f"KNOWN-FINDING: property={self.pid} {fid}: {info['what']} (x{info['count']}, e.g. {info['example'][:160]})")
        seen = set()
        for path, summary in self.violations:
            if path in seen:
                continue
            seen.add(path)
            if len(seen) <= self._max_violation_dirs:
                print(f"VIOLATION property={self.pid} replay={path}")
                print(f"  {summary[:400]}")
        print(f"[{self.pid}] tier={self.tier} seed={self.seed} states={self.states} transitions={self.transitions} "
              f"evaluations={self.evaluations} nontrivial={distinct} traces={self.traces} "
              f"violations={len(self.violations)} known={sum(i['count'] for i in self.known_hits.values())} wall={wall:.1f}s")
        return 1 if self.violations else 0


def run_check(pid, main):
    import argparse
    ap = argparse.ArgumentParser()
    ap.add_argument("--tier", default=os.environ.get("VERIF_TIER", "quick"), choices=["quick", "thorough"])
    ap.add_argument("--seed", type=int, default=int(os.environ.get("VERIF_SEED", "0") or 0))
    ap.add_argument("--replay", default=None)
    args = ap.parse_args(sys.argv[2:])
    os.environ[GUARD] = "1"          # hooks on: checks always run the repository with its hooks enabled
    os.environ.setdefault("PYTHONHASHSEED", "0")
    run = Run(pid, args.tier, args.seed)
    run.replay = args.replay
    try:
        main(run)
    except MachineryError as ex:
        print(f"MACHINERY-FAILURE property={pid}: {ex}", file=sys.stderr)
        sys.exit(2)
    except Exception:  # noqa
        traceback.print_exc()
        print(f"MACHINERY-FAILURE property={pid}: unexpected exception in the check", file=sys.stderr)
        sys.exit(2)
    sys.exit(run.finish())


def rmtree(p):
    shutil.rmtree(p, ignore_errors=True)
