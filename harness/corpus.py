"""The 21-program practice corpus of the repository (tests/practice/*/code.mac with its out.bin)."""
import struct
from pathlib import Path

from .common import REPO

ROOT = REPO / "tests" / "practice"


def programs():
    out = []
    for d in sorted(ROOT.iterdir()):
        src = d / "code.mac"
        if src.exists():
            out.append((d.name, str(src), (d / "out.bin")))
    return out


def expected(out_bin):
    """(base, code) stored in an out.bin, or None."""
    if not out_bin.exists():
        return None
    raw = out_bin.read_bytes()
    base, ln = struct.unpack("<HH", raw[:4])
    return base, raw[4:4 + ln], len(raw) - 4
