"""Run the REAL assembler from the repository working tree (REPO, default /repo).

asm()      in-process: parser.parse + Compiler.compile_and_link_files under a watchdog
run_cli()  subprocess:  python -m pdpy11 ... in a scratch directory, with a before/after snapshot
pmap()     fork pool over many cases (16 workers by default)

Only public entry points are used.  The watchdog is a wall-clock timer whose expiry is an *outcome*
("hang"), never an exception of the machinery.
"""
import contextlib
import hashlib
import io
import multiprocessing
import os
import signal
import subprocess
import sys
import tempfile
import traceback
from pathlib import Path

from .common import REPO, PY, MachineryError, tmp_root, rmtree, GUARD

_mods = None


def mods():
    """Import pdpy11 from REPO (never from anywhere else)."""
    global _mods
    if _mods is None:
        os.environ.setdefault(GUARD, "1")
        if str(REPO) not in sys.path[:1]:
            sys.path.insert(0, str(REPO))
        for k in [k for k in sys.modules if k == "pdpy11" or k.startswith("pdpy11.")]:
            if not getattr(sys.modules[k], "__file__", "").startswith(str(REPO)):
                del sys.modules[k]
        import importlib
        import pdpy11  # noqa
        from pdpy11 import parser, reports, compiler  # noqa   (the public entry points every check needs)
        if not pdpy11.__file__.startswith(str(REPO)):
            raise MachineryError(f"pdpy11 imported from {pdpy11.__file__}, expected {REPO}")
        _mods = {"parser": parser, "reports": reports, "compiler": compiler}
        # The repository's hooks are compiled in (guard set at import) but switched OFF: the hook keeps every statement object of an
        # assembly alive, which is not how the assembler runs for its users (object lifetimes are behaviour too).  asm(hooks=True)
        # turns them on for the one assembly whose trace is wanted.
        if hasattr(compiler, "VERIF_HOOKS"):
            compiler.VERIF_HOOKS = False
        for opt in ("bk_encoding", "deferred", "formats"):       # internals: used when present, never required
            try:
                _mods[opt] = importlib.import_module("pdpy11." + opt)
            except Exception:
                _mods[opt] = None
    return _mods


class Hang(BaseException):
    pass


_fired = [False]


def _alarm(signum, frame):
    _fired[0] = True
    raise Hang()


@contextlib.contextmanager
def watchdog(seconds):
    """Interrupt the assembler after `seconds` of USER CPU time of this process (ITIMER_VIRTUAL).  A wall-clock limit, and even a
    limit on user+system time, turns a starved but terminating run into a false "hang" on a loaded or swapping machine (measured:
    with six thorough checks running side by side, trivial programs were "hanging"); a genuinely non-terminating evaluation
    burns user time.  A wall-clock backstop of 60x guards against a run that blocks without using the CPU."""
    old_vt = signal.signal(signal.SIGVTALRM, _alarm)
    old_alrm = signal.signal(signal.SIGALRM, _alarm)
    _fired[0] = False
    signal.setitimer(signal.ITIMER_VIRTUAL, seconds)
    signal.setitimer(signal.ITIMER_REAL, seconds * 60)
    try:
        yield
    finally:
        signal.setitimer(signal.ITIMER_VIRTUAL, 0)
        signal.setitimer(signal.ITIMER_REAL, 0)
        signal.signal(signal.SIGVTALRM, old_vt)
        signal.signal(signal.SIGALRM, old_alrm)


class Collector:
    """Report handler: records (severity, identifier, spans); optionally forwards to a real handler."""

    def __init__(self, m, nested=None, root=""):
        self.m = m
        self.items = []
        self.nested = nested
        self.root = root

    def __call__(self, priority, identifier, *reps):
        r = self.m["reports"]
        sev = "warning" if priority is r.warning else ("critical" if priority is r.critical else "error")
        spans = []
        for rep in reps:
            try:
                cs, ce, text = rep
                fn = cs.filename
                if self.root and fn.startswith(self.root):
                    fn = fn[len(self.root):].lstrip("/")
                spans.append([fn, cs.pos, ce.pos, repr(cs).rsplit(":", 2)[1] + ":" + repr(cs).rsplit(":", 2)[2],
                              repr(ce).rsplit(":", 2)[1] + ":" + repr(ce).rsplit(":", 2)[2], len(cs.code),
                              cs.filename == ce.filename])
            except Exception as ex:  # malformed span: recorded, judged by C17
                spans.append(["<malformed-span>", -1, -1, "", "", 0, False, f"{type(ex).__name__}: {ex}"])
        self.items.append([sev, identifier, spans])
        if self.nested is not None:
            with contextlib.redirect_stdout(io.StringIO()), contextlib.redirect_stderr(io.StringIO()):
                self.nested(priority, identifier, *reps)


def _reset_after_hang(m):
    """The watchdog is an asynchronous interrupt of OURS: it can land between `depth += 1` and the matching decrement, or
    between a push and its pop, and leave the module-level evaluation state of this worker process dirty (later programs in
    the same worker would then fail spuriously).  That is an artifact of the watchdog, not behaviour of the assembler, so the
    state is put back.  Best effort: if the internals were refactored away there is nothing to reset."""
    try:
        m["deferred"].try_compute.depth = 0
        del m["deferred"].Awaiting.awaiting_stack[:]
        del m["reports"].handle_reports.handlers_stack[:]
    except Exception:
        pass


def asm(files, charset="bk", timeout=5.0, fs=None, handler="collect", listing=False, post=None, keep_root=False,
        reset_after_hang=True, root=None, hooks=False):
    """Assemble `files` = [(name, text), ...] (linked in that order).

    fs: {relative path: str|bytes} materialised in a scratch directory together with the sources
        (needed for .include / insert_file); names are then relative to that directory.
    handler: "collect" | "bare" | "graphical" (the real handler runs behind the collector).
    post: optional callable(compiler, base, code) -> json-able, run after a successful assembly.
    Returns a dict: outcome in {"ok", "error", "exception", "hang"}, base, code (bytes), reports,
    n_err (error+critical count), exc, listing, emitted (list of [format, path]).
    """
    m = mods()
    given_root = False
    res = {"outcome": None, "base": None, "code": None, "reports": [], "n_err": 0, "exc": None, "listing": None,
           "emitted": [], "post": None}
    try:
        given_root = root is not None          # a caller-owned directory: same absolute paths across several assemblies
        if fs is not None or given_root:
            fs = fs or {}
            if not given_root:
                root = tempfile.mkdtemp(prefix="asm-", dir=tmp_root())
            else:
                keep_root = True
            for rel, content in fs.items():
                p = Path(root) / rel
                p.parent.mkdir(parents=True, exist_ok=True)
                if isinstance(content, bytes):
                    p.write_bytes(content)
                else:
                    p.write_text(content.replace("@ROOT@", str(root)), encoding="utf-8")
            named = []
            for name, text in files:
                text = text.replace("@ROOT@", str(root))          # absolute paths written into sources (includes by absolute path)
                p = Path(root) / name
                p.parent.mkdir(parents=True, exist_ok=True)
                p.write_text(text, encoding="utf-8")
                named.append((str(p), text))
            files = named
        nested = None
        if handler == "bare":
            nested = m["reports"].BareHandler()
        elif handler == "graphical":
            nested = m["reports"].GraphicalHandler()
        col = Collector(m, nested, root or "")
        if hooks and hasattr(m["compiler"], "VERIF_HOOKS"):
            m["compiler"].VERIF_HOOKS = True
        try:
            with watchdog(timeout):
                try:
                    with m["reports"].handle_reports(col):
                        parsed = [m["parser"].parse(name, text) for name, text in files]
                        comp = m["compiler"].Compiler(output_charset=charset)
                        base, code = comp.compile_and_link_files(parsed)
                    res["base"], res["code"] = base, bytes(code)
                    res["outcome"] = "ok"
                    res["emitted"] = [[e[2], e[3][len(root):].lstrip("/") if root and e[3].startswith(root) else e[3]] + [x for x in e[4:]] for e in comp.emitted_files]
                    if listing:
                        res["listing"] = comp.generate_listing()
                        if root:
                            res["listing"] = res["listing"].replace(root + "/", "")
                    if post is not None:
                        with m["reports"].handle_reports(col):
                            res["post"] = post(comp, base, bytes(code))
                except m["reports"].UnrecoverableError:
                    res["outcome"] = "error"
        except Hang:
            res["outcome"] = "hang"
            # the interrupt can land between a push and its pop; later pushes/pops pair above the dead
            # entries, so results are unaffected (DESIGN C18) -- but keep the worker tidy anyway
        except RecursionError as ex:
            res["outcome"] = "hang" if _fired[0] else "exception"
            res["exc"] = None if _fired[0] else "RecursionError"
        except BaseException as ex:  # noqa  (internal error of the assembler = an outcome)
            if isinstance(ex, (KeyboardInterrupt, SystemExit, MachineryError)):
                raise
            if _fired[0]:
                # the watchdog fired; while its exception unwound the stack, a context manager of the assembler
                # (interrupted between a push and its pop) raised another one: still a hang
                res["outcome"] = "hang"
                res["reports"] = col.items
                res["n_err"] = sum(1 for r in col.items if r[0] in ("error", "critical"))
                if reset_after_hang:
                    _reset_after_hang(m)
                return res
            res["outcome"] = "exception"
            tb = traceback.extract_tb(ex.__traceback__)
            where = ""
            for fr in reversed(tb):
                if "/pdpy11/" in fr.filename:
                    where = f"{Path(fr.filename).name}:{fr.lineno}:{fr.name}"
                    break
            res["exc"] = f"{type(ex).__name__}: {str(ex)[:200]} @ {where}"
        res["reports"] = col.items
        res["n_err"] = sum(1 for r in col.items if r[0] in ("error", "critical"))
        if res["outcome"] == "hang" and reset_after_hang:
            _reset_after_hang(m)
        return res
    finally:
        if hooks and hasattr(m["compiler"], "VERIF_HOOKS"):
            m["compiler"].VERIF_HOOKS = False
        if root and not keep_root:
            rmtree(root)
        elif root and not given_root:
            res["root"] = root


# --------------------------------------------------------------------------------------- CLI

def snapshot(d):
    out = {}
    for p in sorted(Path(d).rglob("*")):
        if p.is_file():
            st = p.stat()
            out[str(p.relative_to(d))] = (hashlib.sha1(p.read_bytes()).hexdigest(), st.st_mtime_ns, st.st_size)
    return out


def run_cli(args, cwd, stdin=None, timeout=120.0, hashseed="0", extra_env=None):
    """python -m pdpy11 <args> in cwd.  Returns dict(rc, out, err, changed={rel: bytes}, hang)."""
    env = dict(os.environ)
    env["PYTHONPATH"] = str(REPO)
    env["PYTHONHASHSEED"] = str(hashseed)
    env.pop(GUARD, None)               # the command line is run as its users run it: hooks off
    env["PYTHONIOENCODING"] = "utf-8"
    if extra_env:
        env.update(extra_env)
    before = snapshot(cwd)
    try:
        p = subprocess.run([PY, "-m", "pdpy11"] + list(args), cwd=str(cwd), input=stdin, capture_output=True,
                           timeout=timeout, env=env)
        rc, out, err, hang = p.returncode, p.stdout, p.stderr, False
    except subprocess.TimeoutExpired as ex:
        rc, out, err, hang = None, ex.stdout or b"", ex.stderr or b"", True
    after = snapshot(cwd)
    changed = {}
    for rel, sig in after.items():
        if before.get(rel) != sig:
            changed[rel] = (Path(cwd) / rel).read_bytes()
    removed = [rel for rel in before if rel not in after]
    return {"rc": rc, "out": out, "err": err.decode("utf-8", "replace"), "changed": changed, "removed": removed,
            "hang": hang}


# --------------------------------------------------------------------------------------- pool

def _init_worker():
    import resource
    try:
        resource.setrlimit(resource.RLIMIT_AS, (24 << 30, 24 << 30))
    except Exception:
        pass
    sys.setrecursionlimit(1000)
    mods()


def _call(args):
    fn, item = args
    try:
        return ("ok", fn(item))
    except MachineryError as ex:
        return ("machinery", str(ex))
    except BaseException as ex:  # noqa
        return ("machinery", f"{type(ex).__name__}: {ex}\n{traceback.format_exc()[-1500:]}")


def pmap(fn, items, workers=None, chunksize=None, overall_timeout=3600):
    """Ordered parallel map in forked workers.  fn must be a module-level function."""
    items = list(items)
    if not items:
        return []
    workers = workers or min(16, os.cpu_count() or 4)
    mods()           # import the repository once in the parent: a tree that cannot be imported fails here, at once
    if len(items) < 4 or workers == 1:
        _init_worker_light()
        out = [_call((fn, it)) for it in items]
    else:
        ctx = multiprocessing.get_context("fork")
        cs = chunksize or max(1, min(200, len(items) // (workers * 8) or 1))
        with ctx.Pool(workers, initializer=_init_worker) as pool:
            ar = pool.map_async(_call, [(fn, it) for it in items], chunksize=cs)
            try:
                out = ar.get(timeout=overall_timeout)
            except multiprocessing.TimeoutError:
                pool.terminate()
                raise MachineryError(f"worker pool exceeded {overall_timeout}s")
    res = []
    for status, val in out:
        if status != "ok":
            raise MachineryError(f"worker failed: {val}")
        res.append(val)
    return res


def _init_worker_light():
    mods()
