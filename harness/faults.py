"""Fault catalogue shared by C07 and C17 (DESIGN.md section 4).

A fault KIND is a way of planting exactly one diagnostic into an otherwise valid program:

    name      unique id of the kind
    phase     "parse"   reported by parser.parse
              "compile" reported while the statement list is walked (compile pass)
              "link"    reported when the lazily evaluated values are forced at the end
    sev       "warning" | "error" | "critical"      -- ORACLE: which class of diagnostic this is
    text      the faulty statement; the designated CULPRIT TOKEN is bracketed by the markers
              U+27E6 / U+27E7 (removed when rendering), "{u}" is replaced by a small unique number
              so that several faults in one program do not share symbol names
    pre/post  statements the fault needs before / after it in the same file (set-up, not faults)
    fs        extra files the fault needs in the source directory
    wclass    for warnings: "default" (shown without -W) or "all" (only with -Wall / -W<ident>)
    ident     the diagnostic identifier pdpy11 uses today (measured).  Used only to *generate*
              -W<ident> / -Wno-<ident> command lines and for evidence; never decides a verdict.
    level     "token"      the culprit is the operand / name / literal the user has to edit
              "statement"  the culprit is the statement as a whole (its first token)

The culprit designations were written down before looking at pdpy11's reports, from the rule
    a fault of a VALUE or NAME  -> the operand token that carries it
    a fault of the statement's ACTION in its context (placement, link base, file lookup,
    user-requested error, operand count, branch reach)  -> the statement (instruction name)
and then reconciled case by case; every kind where the first designation was changed carries a
`note` saying so (see RECONCILED at the end).  Two measured facts of pdpy11's tokens are adopted:
the token of '#expr' in an instruction operand starts after the '#', and the token of a signed
literal '-1' starts after the '-'.

Not in the catalogue on purpose: cyclic symbol definitions (a = b / b = a) -- they hang the
assembler (open known finding KF-cyclic-definition-hang).
"""
from dataclasses import dataclass, field

L, R = "⟦", "⟧"


@dataclass(frozen=True)
class Kind:
    name: str
    phase: str
    sev: str
    text: str
    ident: str
    pre: tuple = ()
    post: tuple = ()
    fs: tuple = ()          # ((relpath, content), ...)
    wclass: str = None
    level: str = "token"
    note: str = ""

    def render(self, u):
        """-> dict(pre=[str], stmt=str, post=[str], culprit=(start, end) offsets in stmt, fs={...})"""
        sub = lambda s: s.replace("{u}", str(u))
        t = sub(self.text)
        a = t.index(L)
        t2 = t.replace(L, "", 1)
        b = t2.index(R)
        t3 = t2.replace(R, "", 1)
        if L in t3 or R in t3:
            raise ValueError(f"kind {self.name}: more than one culprit marker pair")
        return {"pre": [sub(s) for s in self.pre], "stmt": t3, "post": [sub(s) for s in self.post],
                "culprit": (a, b), "fs": {sub(p): sub(c) for p, c in self.fs}}


K = Kind
CATALOGUE = [
    # ------------------------------------------------------------------ link-time errors (lazy evaluation)
    K("undefined-symbol", "link", "error", ".word ⟦undef{u}⟧", "undefined-symbol"),
    K("register-as-value", "compile", "error", ".word ⟦r0⟧", "unexpected-register"),
    K("byte-too-wide", "compile", "error", ".byte ⟦400⟧", "value-out-of-bounds"),
    K("word-too-wide", "compile", "error", ".word 1, ⟦200000⟧", "value-out-of-bounds"),
    K("dword-too-wide", "compile", "error", ".dword ⟦40000000000⟧", "value-out-of-bounds"),
    K("immediate-too-wide", "compile", "error", "mov #⟦200000⟧, r0", "value-out-of-bounds",
      note="pdpy11's token for '#expr' starts after the '#': the expression inside '#' is designated"),
    K("index-too-wide", "compile", "error", "mov ⟦200000⟧(r1), r0", "value-out-of-bounds"),
    K("absolute-too-wide", "compile", "error", "clr @#⟦200000⟧", "value-out-of-bounds"),
    K("negative-count", "compile", "error", ".blkb -⟦1⟧", "value-out-of-bounds",
      note="pdpy11's token for a signed literal starts after the '-': the first digit is designated"),
    K("negative-repeat", "compile", "error", ".repeat -⟦2⟧ { nop }", "value-out-of-bounds",
      note="signed literal: first digit designated"),
    K("octal-8-9", "compile", "error", ".word ⟦19⟧", "invalid-number"),
    K("division-by-zero", "compile", "error", ".word ⟦1 / 0⟧", "arithmetic-error"),
    K("negative-shift", "compile", "error", ".word ⟦1 << -1⟧", "arithmetic-error"),
    K("constant-division-by-zero", "compile", "error", "dz{u} = ⟦5 % 0⟧", "arithmetic-error"),
    K("branch-out-of-reach", "link", "error", "⟦br⟧ far{u}", "branch-out-of-bounds",
      post=(".blkw 200", "far{u}: nop"), level="statement",
      note="the first span of a branch-range report is the instruction name"),
    K("branch-odd", "compile", "error", "⟦beq⟧ . + 3", "odd-branch", level="statement"),
    K("sob-forward", "link", "error", "⟦sob⟧ r0, fwd{u}", "branch-out-of-bounds",
      post=("nop", "fwd{u}: nop"), level="statement"),
    K("trap-number-too-wide", "compile", "error", "⟦trap⟧ 400", "value-out-of-bounds", level="statement",
      note="first designation was the operand '400'; pdpy11 names the instruction first and the operand second, "
           "like for branch range; accepted as a statement-level culprit"),
    K("too-few-operands", "compile", "error", "⟦mov⟧ r0", "wrong-operands", level="statement"),
    K("too-many-operands", "compile", "error", "⟦clr⟧ r0, r1", "wrong-operands", level="statement"),
    K("directive-too-many-operands", "compile", "error", "⟦.even⟧ 1", "wrong-meta-operands", level="statement"),
    K("unknown-instruction", "compile", "error", "⟦frob{u}⟧ r0", "unknown-insn"),
    K("label-as-instruction", "compile", "error", "⟦li{u}⟧ r0", "meta-type-mismatch", pre=("li{u}: nop",)),
    K("user-error", "compile", "error", "⟦.error⟧ boom", "user-error", level="statement"),
    K("unencodable-character", "compile", "error", "⟦.ascii⟧ /aαb/", "invalid-character", level="statement",
      note="first designation was the string operand; pdpy11 reports the directive (coarse position, reported "
           "to the lead as an observation); the statement is accepted as the culprit"),
    K("word-at-odd-address", "link", "error", "⟦.word⟧ 1", "odd-address", pre=(".byte 1",), level="statement"),
    K("second-link", "compile", "error", "⟦.link⟧ 4000", "address-conflict", pre=(".link 3000",), level="statement"),
    K("self-dependent-link", "link", "error", "⟦.link⟧ sl{u}", "recursive-definition",
      post=("nop", "sl{u}: nop"), level="statement"),
    K("backward-dot", "compile", "error", "⟦.⟧ = . - 2", "value-out-of-bounds", pre=(".link 3000", "nop"),
      level="statement"),
    K("missing-include", "compile", "error", "⟦.include⟧ /nofile{u}.mac/", "io-error", level="statement"),
    K("missing-insert-file", "compile", "error", "⟦insert_file⟧ /nofile{u}.dat/", "io-error", level="statement"),
    K("align-zero", "compile", "error", "⟦.align⟧ 0", "value-out-of-bounds", level="statement",
      note="first designation was the operand '0'; pdpy11 reports the directive (coarse position, reported to "
           "the lead as an observation); the statement is accepted as the culprit"),
    K("rad50-invalid-character", "compile", "error", ".rad50 ⟦/a!b/⟧", "invalid-character"),
    K("rad50-code-too-big", "compile", "error", ".rad50 /a/⟦<50>⟧", "value-out-of-bounds"),
    K("ascii-code-too-big", "compile", "error", ".ascii /a/<⟦400⟧>", "value-out-of-bounds"),
    # a self-reporting operator UNDER the root of an index operand: 'a+b/0(r1)' is re-read as '(a+b/0)(r1)' and the rebuilt inner
    # token must keep its own start
    K("hoisted-inner-division-by-zero", "compile", "error", "mov 2+⟦4/0⟧(r1), r0", "arithmetic-error"),
    K("hoisted-deferred-division-by-zero", "compile", "error", "clr @⟦4/0⟧(r1)", "arithmetic-error"),
    K("hoisted-inner-negative-shift", "compile", "error", "mov 2+<⟦1 << -1⟧>(r1), r0", "arithmetic-error"),
    K("hoisted-inner-lazy-modulo", "link", "error", "mov hz{u} + ⟦6 % hq{u}⟧(r2), r0", "arithmetic-error", post=("hq{u} = 0", "hz{u} = 2")),
    # 'name (expr)' with a defined name is re-read as the implicit word list '.word name(expr)': the call starts at the name
    K("constant-called-implicit-word", "compile", "error", "⟦cv{u} (5)⟧", "unexpected-value", pre=("cv{u} = 6",)),
    K("constant-called-implicit-word-tab", "compile", "error", "⟦cw{u}\t(5)⟧", "unexpected-value", pre=("cw{u} = 6",)),
    # a '<code>' chunk behind blanks or a tab: the chunk starts at its '<', not at the blank behind the previous chunk
    K("rad50-code-too-big-after-blanks", "compile", "error", ".rad50 /a/  ⟦<50>⟧", "value-out-of-bounds"),
    K("rad50-code-too-big-after-tab", "compile", "error", ".rad50 /ab/\t⟦<51>⟧/c/", "value-out-of-bounds"),
    K("tape-name-too-long", "compile", "error", "⟦make_wav⟧ /t{u}.wav/, /12345678901234567/", "too-long-string",
      level="statement",
      note="first designation was the tape-name string; pdpy11 reports the directive (coarse position, reported "
           "to the lead as an observation); the statement is accepted as the culprit"),
    K("excess-hash-directive", "compile", "error", ".word ⟦#⟧1", "excess-hash"),
    # a prefix operator under another prefix operator: the culprit is the INNER expression, several columns behind the outer one
    K("complemented-immediate-too-wide", "compile", "error", "mov #⟦~200000⟧, r0", "value-out-of-bounds"),
    K("lazy-negated-immediate-too-small", "link", "error", "mov #  ⟦-nb{u}⟧, r1", "value-out-of-bounds", post=("nb{u} = 200000",)),
    K("register-under-minus", "compile", "error", ".word 1, - ⟦%3⟧", "unexpected-value"),
    K("immediate-under-deferred-minus", "compile", "error", "mov @ -  ⟦#5⟧, r0", "unexpected-value"),
    # a backward '. =' whose target is only known later (reported when the rest of the block has been compiled long since)
    K("lazy-backward-dot", "link", "error", "⟦.⟧ = bk{u}", "value-out-of-bounds", pre=(".link 3000", "nop"), post=("nop", "bk{u} = 2000"),
      level="statement"),
    # a number in a branch operand that is taken for a local label (it is not the leftmost term) and does not exist
    K("branch-missing-local-after-decimal", "link", "error", "br 10.+⟦4{u}⟧", "undefined-symbol"),
    K("branch-missing-local-after-char", "link", "error", "br 'a + ⟦6{u}⟧", "undefined-symbol"),
    # a string of several chunks: the culprit is the chunk that holds the bad character, not the first one
    K("rad50-invalid-character-later-chunk", "compile", "error", ".rad50 /ABC/ ⟦/d#f/⟧", "invalid-character"),
    K("rad50-invalid-character-after-code", "compile", "error", ".rad50 /AB/<1>  ⟦/x~y/⟧", "invalid-character"),
    # ------------------------------------------------------------------ genuinely lazy (link-time) faults: the value
    # is only known after a LATER statement, so the report is issued long after the statement was compiled
    K("lazy-byte-too-wide", "link", "error", ".byte ⟦big{u}⟧", "value-out-of-bounds", post=("big{u} = 400",)),
    K("lazy-immediate-too-wide", "link", "error", "mov #⟦wide{u}⟧, r0", "value-out-of-bounds", post=("wide{u} = 200000",)),
    K("lazy-division-by-zero", "link", "error", ".word ⟦1 / zz{u}⟧", "arithmetic-error", post=("zz{u} = 0",)),
    K("lazy-negative-count", "link", "error", ".blkb ⟦neg{u}⟧", "value-out-of-bounds", post=("neg{u} = -1",)),
    K("register-in-constant", "compile", "error", "rc{u} = ⟦r3⟧", "unexpected-register"),
    K("word-without-operand", "link", "warning", "⟦.word⟧", "implicit-operand", wclass="default", level="statement"),
    # ------------------------------------------------------------------ compile-pass errors (symbol table)
    K("duplicate-label", "compile", "error", "⟦dl{u}:⟧ nop", "duplicate-symbol", pre=("dl{u}: nop",)),
    K("duplicate-constant", "compile", "error", "⟦dc{u}⟧ = 2", "duplicate-symbol", pre=("dc{u} = 1",)),
    K("duplicate-local", "compile", "error", "⟦1{u}:⟧ nop", "duplicate-symbol", pre=("1{u}: nop",)),
    K("duplicate-export", "compile", "error", ".extern ⟦de{u}⟧", "duplicate-symbol", pre=("de{u}:: nop",)),
    K("label-in-repeat", "compile", "error", ".repeat 2 { ⟦lr{u}:⟧ nop }", "unexpected-symbol-definition"),
    K("constant-in-repeat", "compile", "error", ".repeat 2 { ⟦cr{u}⟧ = 5 }", "unexpected-symbol-definition"),
    # ------------------------------------------------------------------ parse-time errors
    K("local-made-external", "parse", "error", "⟦1{u}::⟧ nop", "invalid-extern"),
    K("unknown-escape", "parse", "error", ".ascii /a⟦\\q⟧b/", "invalid-escape"),
    K("negative-8-9", "parse", "error", ".word -⟦18⟧", "invalid-number",
      note="signed literal: first digit designated"),
    # ------------------------------------------------------------------ parse-time critical errors
    K("unterminated-string", "parse", "critical", ".ascii ⟦\"abc⟧", "unterminated-string",
      note="the string runs to the next '\"' or the end of the file: no other kind and no base statement uses '\"'"),
    K("invalid-caret-prefix", "parse", "critical", ".word ⟦^Q⟧12", "invalid-expression"),
    K("caret-b-bad-digit", "parse", "critical", ".word ⟦^B⟧2", "invalid-number"),
    K("missing-operand-after-comma", "parse", "critical", "mov r0⟦,⟧, r1", "invalid-operand",
      note="first designation was the empty position after the comma, which is not a token; the comma that is "
           "not followed by an operand is designated. (A comma at the end of a line continues the operand list "
           "on the next line in pdpy11, so the fault is planted as ',,'.)"),
    K("unexpected-comma-after-mnemonic", "parse", "critical", "mov ⟦,⟧ r0", "invalid-insn"),
    K("empty-immediate", "parse", "critical", "mov #⟦⟧, r0", "invalid-expression",
      note="the expression inside '#' is missing: the position where it should start"),
    # ------------------------------------------------------------------ warnings
    K("byte-without-operand", "compile", "warning", "⟦.byte⟧", "implicit-operand", post=(".even",), wclass="default", level="statement"),
    K("legacy-deferred", "compile", "warning", "clr ⟦@r0⟧", "legacy-deferred", wclass="all"),
    K("list-not-implemented", "compile", "warning", "⟦.list⟧", "not-implemented", wclass="default", level="statement"),
    K("dotless-directive", "compile", "warning", "⟦word⟧ 1", "meta-typo", wclass="all"),
    K("excess-hash-insn", "compile", "warning", "emt ⟦#⟧1", "excess-hash", wclass="default"),
    K("excess-quote", "parse", "warning", ".word ⟦'a'⟧", "excess-quote", wclass="all"),
    # ------------------------------------------------------------------ added after the seeding round (DESIGN.md 10.6)
    # faults that sit in a NON-leftmost sub-expression: the position must be that of the faulty operator application
    K("inner-division-by-zero", "compile", "error", ".word 1 + ⟦2 / 0⟧", "arithmetic-error"),
    K("inner-negative-shift", "compile", "error", ".word 3 + 4 * <⟦1 << -1⟧>", "arithmetic-error"),
    K("lazy-inner-division-by-zero", "link", "error", "mov #size{u} * 2 + ⟦size{u} / cnt{u}⟧, r0", "arithmetic-error",
      post=("size{u} = 10", "cnt{u} = 0")),
    K("missing-right-operand", "parse", "critical", ".word 1 + ⟦]⟧", "invalid-expression",
      note="an infix operator followed by blank space and something that is not an operand: the offending character is designated"),
    # values that are too NEGATIVE for their field (a different report than "too large")
    K("byte-too-negative", "compile", "error", ".byte 1, -⟦400⟧", "value-out-of-bounds",
      note="signed literal: first digit designated"),
    K("immediate-too-negative", "compile", "error", "mov #-⟦200000⟧, r0", "value-out-of-bounds",
      note="signed literal: first digit designated"),
    K("lazy-word-too-negative", "link", "error", ".word 5, ⟦tn{u}⟧", "value-out-of-bounds", post=("tn{u} = -200000",)),
    # non-critical errors that the parser issues through its 'report=' path
    K("escape-x-without-digits", "parse", "error", ".ascii /ab⟦\\x⟧ZZcd/", "invalid-escape"),
    K("caret-r-without-characters", "parse", "error", ".word ⟦^R⟧", "invalid-string"),
    # warnings whose report has several spans on one source line
    K("label-fixup", "compile", "warning", "⟦br⟧ 1{u} + 2", "label-fixup", pre=("1{u}: nop",), wclass="default", level="statement"),
    K("missing-newline", "parse", "warning", "⟦nop⟧ nop", "missing-newline", wclass="all", level="statement"),
    # diagnostics whose source line / message text is unusual for the report formatters: several ';' on the reported
    # line (graphical format colours the comment), braces quoted from the source in the message (format templates)
    K("byte-without-operand-comments", "compile", "warning", "⟦.byte⟧ ; pad ;; keep ; even", "implicit-operand", post=(".even",),
      wclass="default", level="statement"),
    K("excess-quote-braces", "parse", "warning", "mov #⟦\"{}\"⟧, r0", "excess-quote", wclass="all"),
    K("undefined-symbol-comments", "link", "error", ".word ⟦us{u}⟧ ; {0} ; {x} ;", "undefined-symbol"),
]
del K

BY_NAME = {k.name: k for k in CATALOGUE}
assert len(BY_NAME) == len(CATALOGUE)
RECONCILED = [k.name for k in CATALOGUE if "first designation" in k.note]

PHASES = ("parse", "compile", "link")
SEVS = ("warning", "error", "critical")


def by_class():
    """{(phase, sev): [kind, ...]} -- which classes of Cli.tla's fault plans the catalogue inhabits."""
    out = {}
    for k in CATALOGUE:
        out.setdefault((k.phase, k.sev), []).append(k)
    return out


# ----------------------------------------------------------------------------------------------
# Base program and planting.  Python only renders; where a token is is computed from the rendered
# text (str.index of the statement) and turned into line:col by the LineCol specification.

# no statement of the base refers to another one, so a fault block planted between any two of them (e.g. 200 words
# of '.blkw') cannot break the base program itself
# (names with a dot inside are ordinary names: 'loop.m', 'io.base.m')
BASE = ["start{f}: mov #1, r0", "add r0, r1", "loop.{f}: sob r1, loop.{f}", "bis r0, (r1)+", "io.base.{f} = 176", "mov r1, @#io.base.{f}", "halt"]


def base_statements(tag):
    return [s.replace("{f}", tag) for s in BASE]


def plant(plans, tag, trivia=("", ""), tail=()):
    """plans: list of (slot, rendered kind) with slot in 0..len(BASE) (statement index before which
    the fault block pre+stmt+post is inserted).  trivia = (lines inserted before the fault
    statement, indentation prefix of the fault statement).  Returns (text, [offset of each fault
    statement in text]).  Every statement is on its own line; the file ends with a newline."""
    base = base_statements(tag)
    out, offs = [], {}
    pos = 0

    def emit(s):
        nonlocal pos
        out.append(s + "\n")
        pos += len(s) + 1

    for slot in range(len(base) + 1):
        for i, (sl, rk) in enumerate(plans):
            if sl != slot:
                continue
            for s in rk["pre"]:
                emit(s)
            if trivia[0]:
                out.append(trivia[0])
                pos += len(trivia[0])
            offs[i] = pos + len(trivia[1])
            emit(trivia[1] + rk["stmt"])
            for s in rk["post"]:
                emit(s)
        if slot < len(base):
            emit(base[slot])
    for s in tail:
        emit(s)
    return "".join(out), [offs[i] for i in range(len(plans))]


# ----------------------------------------------------------------------------------------------
# Measuring a kind against the real assembler (catalogue self-test, used by C17's preflight).

def measure(kind, u=1):
    """Run the kind alone in the base program.  -> dict(sev, ident, phase, pos) of the first report that is
    not a set-up artefact, or None."""
    from .drive import asm, mods
    m = mods()
    rk = kind.render(u)
    text, offs = plant([(2, rk)], "m")
    stage = {"v": "parse", "depth": 0}
    comp_mod = m["compiler"]
    orig_file = comp_mod.Compiler.compile_file
    orig_cf = comp_mod.Compiler.compile_and_link_files

    def file2(self, *a, **kw):
        stage["depth"] += 1
        try:
            return orig_file(self, *a, **kw)
        finally:
            stage["depth"] -= 1
            if stage["depth"] == 0:
                stage["v"] = "link"      # the (single) top-level file has been walked: what follows is forced evaluation

    def cf2(self, files):
        stage["v"] = "compile"
        return orig_cf(self, files)

    seen = []
    rep_mod = m["reports"]
    orig_emit = rep_mod.emit_report

    def emit2(priority, identifier, *reps):
        seen.append(stage["v"])
        return orig_emit(priority, identifier, *reps)

    comp_mod.Compiler.compile_file, comp_mod.Compiler.compile_and_link_files, rep_mod.emit_report = file2, cf2, emit2
    try:
        r = asm([("m.mac", text)], fs=dict(rk["fs"]))
    finally:
        comp_mod.Compiler.compile_file, comp_mod.Compiler.compile_and_link_files, rep_mod.emit_report = orig_file, orig_cf, orig_emit
    reps = [(rep, st) for rep, st in zip(r["reports"], seen)]
    return {"outcome": r["outcome"], "exc": r["exc"],
            "reports": [{"sev": rep[0], "ident": rep[1], "phase": st,
                         "file": rep[2][0][0] if rep[2] else None, "pos": rep[2][0][1] if rep[2] else None} for rep, st in reps],
            "expected_pos": offs[0] + rk["culprit"][0], "text": text}


if __name__ == "__main__":
    import sys
    bad = 0
    for k in CATALOGUE:
        mres = measure(k)
        hit = [x for x in mres["reports"] if x["sev"] == k.sev and x["pos"] == mres["expected_pos"]]
        first = mres["reports"][0] if mres["reports"] else None
        ok = bool(hit) and hit[0] is first and first["ident"] == k.ident and first["phase"] == k.phase
        if not ok:
            bad += 1
        print(("ok   " if ok else "DIFF ") + f"{k.name:34s} declared {k.phase}/{k.sev}/{k.ident} @{mres['expected_pos']}  real {mres['outcome']} {mres['reports']}")
    print(len(CATALOGUE), "kinds,", bad, "differ")
    sys.exit(1 if bad else 0)
