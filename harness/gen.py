"""Seeded generators of LARGE abstract programs (same record shapes as the alphabets of spec/AsmCore.tla).
They only build programs; what a program means is decided by AsmCore.tla in "given" mode."""
import random


def num(v):
    return {"t": "num", "v": v}


def sym(n):
    return {"t": "sym", "n": n}


DOT = {"t": "dot"}


def bin_(op, l, r):
    return {"t": "bin", "op": op, "l": l, "r": r}


def insn(op, e=None, e2=None):
    s = {"k": "insn", "op": op}
    if e is not None:
        s["e"] = e
    if e2 is not None:
        s["e2"] = e2
    return s


def lab(n, x=False):
    return {"k": "label", "n": n, "x": x}


def const(n, e, x=False):
    return {"k": "const", "n": n, "e": e, "x": x}


def word(*es):
    return {"k": "word", "es": list(es)}


def byte(*es):
    return {"k": "byte", "es": list(es)}


LOCALS = ["1", "2", "10", "11", "12", "21", "1$"]


def scopes_program(rnd, nfiles=1, routines=24, fault=None):
    """Many ordinary labels, each opening a local scope in which local names (one- and two-digit, '1$') are reused.
    fault: None | "invisible" (a reference to a local of another scope) | "duplicate" (a local defined twice in a scope)"""
    files = []
    rid = 0
    fault_at = rnd.randrange(routines * nfiles) if fault else -1
    exported = []
    late = set()
    for f in range(nfiles):
        stmts = []
        here = []
        for _ in range(routines):
            rid += 1
            ex = nfiles > 1 and rnd.random() < 0.3
            stmts.append(lab(f"rt{rid}", x=ex))
            here.append(f"rt{rid}")
            if ex:
                exported.append(f"rt{rid}")
            mine = rnd.sample(LOCALS, rnd.randrange(1, 4))
            refs = []
            for name in mine:
                stmts.append(lab(name))
                stmts.append(insn("nop"))
                refs.append(name)
            for name in refs:
                stmts.append(insn("br", sym(name)) if rnd.random() < 0.6 else word(sym(name)))
            if len(mine) >= 2 and fault is None and rnd.random() < 0.35:
                # a skip whose size is a distance between two local labels of this scope plus a constant that is defined at the end of
                # the file: it is evaluated when all scopes of the file have been compiled, and must still mean THIS scope's labels
                stmts.append({"k": "dotset", "e": bin_("+", DOT, bin_("+", bin_("-", sym(mine[1]), sym(mine[0])), sym(f"kq{f}")))})
                late.add(f)
            if rid - 1 == fault_at:
                if fault == "invisible":
                    other = [n for n in LOCALS if n not in mine]
                    stmts.append(insn("br", sym(rnd.choice(other))))
                elif fault == "duplicate":
                    stmts.append(lab(mine[0]))
            if rnd.random() < 0.4:
                visible = [n for n in here if True] + exported
                stmts.append(word(sym(rnd.choice(visible))))
        if f in late:
            stmts.append(const(f"kq{f}", num(2)))
        files.append(stmts)
    return files


def layout_program(rnd, n=60, nfiles=1):
    """A long mixed program: distinct labels l1..lk with forward and backward references, sizes depending on constants
    and on the address, containers."""
    files = []
    nlab = 0
    total_labels = max(3, n // 6)
    careless = rnd.random() < 0.15          # now and then no .even in front of word data: an odd-address error is then likely
    for f in range(nfiles):
        stmts = []
        for _ in range(n // nfiles):
            r = rnd.random()
            if not careless and (0.32 <= r < 0.40 or 0.88 <= r < 0.95):
                stmts.append({"k": "even"})
            target = sym(f"l{rnd.randrange(1, total_labels + 1)}")
            if r < 0.16 and nlab < total_labels:
                nlab += 1
                stmts.append(lab(f"l{nlab}", x=(nfiles > 1)))
            elif r < 0.26:
                stmts.append(insn(rnd.choice(["movi", "mova", "movr", "movx", "clra"]), target))
            elif r < 0.32:
                stmts.append(insn("movrr", target, bin_("+", DOT, num(rnd.randrange(0, 9) * 2))))
            elif r < 0.40:
                stmts.append(word(target, DOT, bin_("-", DOT, target)))
            elif r < 0.48:
                stmts.append(byte(*[num(rnd.randrange(-128, 256)) for _ in range(rnd.randrange(0, 5))]))
            elif r < 0.54:
                stmts.append({"k": "blkb", "e": rnd.choice([num(rnd.randrange(0, 9)), sym("kb")])})
            elif r < 0.58:
                stmts.append({"k": "blkw", "e": num(rnd.randrange(0, 4))})
            elif r < 0.64:
                stmts.append({"k": rnd.choice(["even", "odd"])})
            elif r < 0.70:
                stmts.append({"k": "align", "e": num(rnd.choice([1, 2, 3, 4, 8, 16, 7]))})
            elif r < 0.74:
                stmts.append({"k": "dotset", "e": bin_("+", DOT, num(rnd.randrange(0, 12)))})
            elif r < 0.79:
                stmts.append({"k": "ascii", "bs": [rnd.randrange(65, 91) for _ in range(rnd.randrange(0, 6))]})
            elif r < 0.83:
                stmts.append({"k": "insert", "len": rnd.choice([0, 5, 7])})
            elif r < 0.88:
                stmts.append({"k": "repeat", "n": rnd.randrange(0, 4), "body": [rnd.choice([insn("nop"), byte(num(1)), {"k": "even"}, insn("movr", DOT)])
                                                                            for _ in range(rnd.randrange(1, 3))]})
            elif r < 0.91:
                stmts.append({"k": "include", "f": rnd.choice([1, 2, 3, 4])})
            elif r < 0.95:
                stmts.append(word())
            else:
                stmts.append(insn("nop"))
        files.append(stmts)
    # define everything that is referenced: remaining labels at the end of the last file, the constant first
    files[0].insert(rnd.randrange(0, len(files[0]) + 1), const("kb", num(rnd.randrange(0, 6)), x=(nfiles > 1)))
    files[-1].append({"k": "even"})
    while nlab < total_labels:
        nlab += 1
        files[-1].append(lab(f"l{nlab}", x=(nfiles > 1)))
        files[-1].append(insn("nop"))
    return files


def lazy_program(rnd, own_link=False, nlabels=4, nstmts=14):
    """Programs around the lazy-evaluation engine: labels behind blocks whose size is a symbol defined later ("pending"), aliases of
    labels and label differences defined BEFORE or AFTER the labels, uses with coefficients other than +1 (k*x, a - x, 10 - d),
    the definitions of the pending sizes at random places, and optionally the program's own `.link` at the start, in the middle or
    at the end with an expression whose dependence on the base cancels.  Values stay small; everything is linear."""
    labs = [f"l{i}" for i in range(1, nlabels + 1)]
    L = lambda: sym(rnd.choice(labs))
    stmts = []
    defs = []            # definitions to be scattered: (name, expr)
    n_pending = rnd.randrange(0, 3)
    for i in range(n_pending):
        defs.append(const(f"n{i + 1}", num(rnd.choice([0, 1, 2, 4, 6]))))
    a, b = rnd.sample(labs, 2)
    defs.append(const("x", sym(a)))                                    # alias of a label
    defs.append(const("d", bin_("-", sym(b), sym(a))))                 # label difference
    if rnd.random() < 0.5:
        defs.append(const("e", bin_("+", sym("d"), num(2))))
    # a factor that is itself held back: f = g, g = 2 (in either order), used as  d * f  and  f * d
    defs.append(const("f", sym("g")))
    defs.append(const("g", num(rnd.choice([1, 2, 3]))))
    body = []
    li = 0
    for _ in range(nstmts):
        r = rnd.random()
        if r < 0.22 and li < nlabels:
            body.append(lab(labs[li]))
            li += 1
        elif r < 0.30:
            body.append(insn("nop"))
        elif r < 0.38:
            body.append({"k": "blkw", "e": num(rnd.randrange(0, 3))})
        elif r < 0.50 and n_pending:
            body.append({"k": "blkw", "e": sym(f"n{rnd.randrange(1, n_pending + 1)}")})
        elif r < 0.58:
            body.append(word(L()))
        elif r < 0.66:
            body.append(insn("movi", bin_("-", L(), sym("x"))))
        elif r < 0.72:
            body.append(insn("movi", bin_("-", sym("x"), L())))
        elif r < 0.75:
            body.append(word(bin_("-", num(10), sym("d")), bin_("*", num(3), sym("d"))))
        elif r < 0.78:
            body.append(word(bin_("*", sym("d"), sym("f")), bin_("*", sym("f"), bin_("-", sym(b), sym(a)))))
        elif r < 0.84:
            body.append(insn("movr", rnd.choice([L(), sym("x")])))
        elif r < 0.90:
            body.append(insn("mova", bin_("-", bin_("+", L(), L()), sym("x"))))
        elif r < 0.95 and any(s["k"] == "const" and s["n"] == "e" for s in defs):
            body.append(word(bin_("-", sym("e"), sym("d"))))
        else:
            body.append(word(bin_("-", bin_("*", num(2), L()), bin_("+", sym("x"), sym("x")))))
    while li < nlabels:
        body.append(lab(labs[li]))
        body.append(insn("nop"))
        li += 1
    for dd in defs:
        body.insert(rnd.randrange(0, len(body) + 1), dd)
    if own_link:
        K = num(rnd.choice([1024, 8192, 16384]))
        forms = [K, bin_("-", K, sym("d")), bin_("+", K, bin_("-", sym(b), sym(a))), bin_("-", bin_("-", bin_("+", K, bin_("*", num(2), sym(b))), sym(a)), sym(a)),
                 bin_("+", K, bin_("-", sym("x"), sym(a))), bin_("-", K, bin_("+", sym("d"), sym("d"))),
                 bin_("+", K, bin_("*", bin_("-", sym(b), sym(a)), sym("f"))), bin_("-", K, bin_("*", sym("f"), sym("d"))),
                 bin_("+", K, bin_("*", sym("d"), sym("f")))]
        pos = rnd.choice([0, len(body) // 2, len(body)])
        body.insert(pos, {"k": "link", "e": rnd.choice(forms)})
    return [body]


def private_lazy_program(rnd, nfiles=2):
    """Linked files that use the SAME private names (n, m) for different things, each defined by a forward reference (so that it is
    still a pending value when it is first used), export values that are linear in their own private names (e1 == n + 2), and
    combine the other files' exports with their own private names in one sum (.word e2 + n, e1 - e2, n - e1 ...).  The order of
    uses, definitions and labels inside a file is random; all programs are meant to be accepted."""
    files = []
    for f in range(1, nfiles + 1):
        others = [g for g in range(1, nfiles + 1) if g != f]
        labs = [lab(f"fa{f}"), lab(f"fb{f}")]
        defs = [const("n", rnd.choice([sym(f"fa{f}"), bin_("+", sym(f"fb{f}"), num(rnd.randrange(0, 5))), bin_("-", sym(f"fb{f}"), sym(f"fa{f}"))])),
                const("m", bin_("+", sym("n"), num(rnd.randrange(1, 9))))]
        exports = [const(f"e{f}", rnd.choice([bin_("+", sym("n"), num(2 * f)), bin_("-", sym("m"), num(f)),
                                               bin_("-", bin_("*", num(2), sym("n")), sym(f"fa{f}")), sym("n")]), x=True)]
        uses = []
        for _ in range(rnd.randrange(2, 5)):
            o = sym(f"e{rnd.choice(others)}")
            own = sym(rnd.choice(["n", "m"]))
            uses.append(rnd.choice([word(bin_("+", o, own)), word(bin_("-", o, own)), word(bin_("-", own, o)), word(o, own),
                                    word(bin_("-", o, sym(f"e{f}"))), insn("movi", bin_("+", own, o)), word(bin_("-", bin_("+", o, own), sym(f"fa{f}")))]))
        body = uses + [insn("nop")] * rnd.randrange(0, 3) + [{"k": "blkb", "e": num(rnd.randrange(0, 4) * 2)}]
        rest = defs + exports + labs
        if rnd.random() < 0.6:
            stmts = body + rest                      # uses first: everything they name is still pending
            rnd.shuffle(rest)
            stmts = body + rest
        else:
            stmts = body + rest
            rnd.shuffle(stmts)
        # labels must not split word data from an even address: all sizes above are even
        files.append(stmts)
    return files
