"""Renderer for spec/Grammar.tla (grammar G of DESIGN.md section 4) and helpers shared by C08 / C18.

Grammar.tla exports complete sentences as lists of terminal CLASSES plus a mutation list.  This
module picks concrete representatives (seeded), renders planted faults from the catalogue,
applies the character-level mutations, keeps the generated texts inside the property's bounds
(`safe()`), and provides

    run_texts(tasks)      every text under the three report handlers, each chunk in its own forked
                          child (a hang can leave pdpy11's module-level state dirty: the child is
                          thrown away after one), CPU-time watchdog, hard kill by the parent
    cyclic_definition()   classifier used ONLY to match the open known finding "cyclic symbol
                          definition": pdpy11's parser builds the tree, this module builds the
                          graph name -> names its value depends on and looks for a cycle
"""
import os
import pickle
import random
import re
import select
import signal
import struct
import time

from .drive import asm, mods, Hang, watchdog

# ------------------------------------------------------------------------------------------------
# token classes -> representatives
# ------------------------------------------------------------------------------------------------
REPS = {
    "oct": ["0", "1", "7", "100", "177777", "12"],
    "dec": ["5.", "10.", "64.", "255.", "2."],
    "d89": ["8", "19", "9"],
    "cnum": ["0x10", "0xff", "0o17", "0b101", "0X1F"],
    "caretnum": ["^X1f", "^O17", "^B11", "^D10", "^xA"],
    "negnum": ["-1", "-5.", "-0x10", "-7", "-2"],
    "bignum": ["200000", "65536.", "4294967296.", "0x100000000", "-4294967297.", "37777777777"],
    "name": ["a", "b", "lbl", "c"],
    "namecolon": ["a:", "lbl:", "b:"],
    "local": ["1", "2", "10", "1$", "0x4z"],
    "localcolon": ["1:", "2:", "1$:", "10:"],
    "dot": ["."],
    "char": ["'a", "'я", "'α", "''", "'a'", "'\\n", "' "],
    "dchar": ['"ab', '"a"', '"αβ', '"a\\t', '""'],
    "r50": ["^Rabc", "^Rab", "^R$.%", "^Rabcd", "^R"],
    "regname": ["r0", "r5", "sp", "pc", "R1"],
    "mnname": ["mov", "nop", "br", "halt"],
    "addop": ["+", "-"], "mulop": ["*"], "divop": ["/", "%"], "bitop": ["&", "^", "|", "!"],
    "prefix": ["+", "-", "~", "^C", "^c"],
    "shl": ["<<", "_"], "shr": [">>"],
    "shcnt": ["0", "1", "3", "17", "40.", "-1", "-3", "2"],
    "reg": ["r0", "r1", "r5", "sp", "pc", "r7", "R3"],
    "acc": ["ac0", "ac3", "ac5", "ac4", "AC1"],
    "mn": ["nop", "clr", "mov", "br", "sob", "rts", "emt", "ldf", "jsr", "xor", "mul", "mark", "spl", "fadd",
           "halt", "trap", "stf", "ldexp", "stexp", "jmp", "push", "pop", "call", "ret", "wait", "swab", "sxt",
           "clrf", "absd", "ash", "MOV", "bhis", "movb"],
    "mn0": ["nop", "halt", "rti", "ret", "clc", "wait"],
    "mn1": ["clr", "inc", "tstb", "jmp", "swab", "pop", "push", "call"],
    "mn2": ["mov", "cmpb", "add", "bis", "sub", "movb"],
    "br": ["br", "bne", "bcs", "blos", "bhis"],
    "sob": ["sob"],
    "mnreg": ["rts", "fadd", "medlsi", "l2dr"],
    "mnimm": ["emt", "trap", "mark", "spl", "xfc", "sys"],
    "mnfp": ["ldf", "stf", "addf", "ldexp", "stexp", "ldcif", "stcfi", "cmpf", "std"],
    "datadir": [".byte", ".word", ".dword", ".db", ".dw"],
    "strdir": [".ascii", ".asciz", ".rad50"],
    "blkdir": [".blkb", ".blkw"],
    "smallcnt": ["0", "1", "2", "7", "64.", "10"],
    "aligncnt": ["0", "1", "2", "4", "8.", "64.", "3"],
    "evenodd": [".even", ".odd"],
    "repcnt": ["0", "1", "2", "3", "5", "64.", "20"],
    "repcnt1": ["0", "1", "2", "3"],
    "incpath": ['"inc1.mac"', '"sub/inc2.mac"', '"data.bin"', '"missing.mac"', "'once.mac'", '/inc1.mac/', '"loop.mac"'],
    "makedir": ["make_bin", "make_raw", "make_bk0010_rom"],
    "makewav": ["make_wav", "make_turbo_wav"],
    "titledir": [".title", ".sbttl"],
    "listdir": [".list", ".nlist", ".page"],
    "text": ["hello world", "a;b", "ошибка", "x = 1", "'", "<1>"],
    "quoted": ["'abc'", '"a b"', "/x\\ny/", '"\\x41\\t"', '"q\\"q"', "'привет'", '"αβγ"',
               '"\\q"', '""', '"out.bin"', "'0123456789abcdefg'", '"A$ %"'],
    "badquoted": ['"abc', "'x", "/unterminated", '"a\\'],
}
LITERAL = {",", ":", "::", "=", "==", "(", ")", ")+", "-(", "@", "#", "@#", "%", "{", "}", "<", ">", "all",
           ".align", ".repeat", ".link", ".end", ".once", ".extern", ".include", "insert_file", ".error", ".ident"}
CARET_DELIMS = ["/", "|", "?", "$", ":"]
CHARSET = [" ", "\t", "\n", ";", ",", ":", ".", "=", "(", ")", "<", ">", "{", "}", "^", "@", "#", "%", "'", '"', "/", "\\",
           "+", "-", "*", "0", "8", "9", "a", "r", "α", "\u0130", "\u212a", "\u0131", "\u017f", "\u0668", "\u00b2"]

# files that '.include' / 'insert_file' may name; materialised in a scratch directory by asm(fs=...)
MAIN = "t.mac"
FS = {
    "inc1.mac": "x1 = 5\n.word x1\n",
    "sub/inc2.mac": "inc2: nop\n.include \"../inc1.mac\"\n",
    "once.mac": ".once\nonce1: .word 1\n",
    "data.bin": bytes(range(10)),
    "loop.mac": "nop\n.include \"loop.mac\"\n",
    "ownlink.mac": "\t.link 3000\n\txor #1, r0\n\tnop\n",
    "owndot.mac": "\t. = 3000\n\tnop\n\t.blkb -1\n",
    "ownnest.mac": "\t.link 3000\n\tnop\n\t.include \"synerr.mac\"\n",
    "synerr.mac": "\tnop\nx =\n",
    "selfrep.mac": ".repeat sr { .include \"selfrep.mac\" }\nsr = 1\n",
    "long.mac": "".join(f"; line {q}\n" for q in range(1, 40)) + "lx1:: nop\nlk1 == 5\n\tnop\nlz1:: nop\n",
}
NEEDS_FS = re.compile(r"include|insert_file", re.I)

# ------------------------------------------------------------------------------------------------
# fault catalogue (DESIGN section 4): kind -> lines ({i} makes the names of one planting unique)
# ------------------------------------------------------------------------------------------------
FAULTS = {
    "undefined-symbol": [".word undef{i}"],
    "duplicate-label": ["dl{i}: nop", "dl{i}: nop"],
    "duplicate-constant": ["dc{i} = 1", "dc{i} = 2"],
    "duplicate-local": ["7{i}: nop", "7{i}: nop"],
    "duplicate-export": ["de{i}:: nop", ".extern de{i}"],
    "register-as-value": [".word r1"],
    "byte-too-wide": [".byte 400"],
    "word-too-wide": [".word 200000"],
    "dword-too-wide": [".dword 40000000000"],
    "immediate-too-wide": ["mov #200000, r0"],
    "index-too-wide": ["mov 200000(r1), r0"],
    "negative-count": [".blkb -1"],
    "digit-8-in-octal": [".word 18"],
    "division-by-zero": [".word 1/0"],
    "negative-shift": [".word 1 << -1"],
    "branch-out-of-reach": ["br .+1000"],
    "odd-branch": ["br .+3"],
    "sob-forward": ["sob r0, .+4"],
    "too-few-operands": ["mov r0"],
    "too-many-operands": ["clr r0, r1"],
    "unknown-instruction": ["frob r0"],
    "label-as-instruction": ["li{i}: nop", "li{i} r0"],
    "unterminated-string": ['.ascii "abc'],
    "unknown-escape": ['.ascii "a\\qb"'],
    "invalid-caret-prefix": [".word ^Q1"],
    "missing-operand-after-comma": ["mov r0,"],
    "unexpected-comma": ["nop , r0"],
    "user-error": [".error boom"],
    "unencodable-character": ['.ascii "α"'],
    "word-at-odd-address": [".byte 1", ".word 2"],
    "second-link": [".link 2000", ".link 3000"],
    "self-dependent-link": [".link sl{i}", "nop", "sl{i}:"],
    "backward-dot-assign": [". = . - 2"],
    "missing-include": ['.include "nope.mac"'],
    "missing-insert": ['insert_file "nope.bin"'],
    "local-label-external": ["1::"],
    "label-in-repeat": [".repeat 2 {{ lr{i}: nop }}"],
    "cyclic-definition": ["cy{i} = cz{i}", "cz{i} = cy{i}"],
    "align-zero": [".align 0"],
    "invalid-rad50-character": ['.rad50 "a!b"'],
    "rad50-code-too-large": [".rad50 <50>"],
    "overlong-tape-name": ['make_wav "x.wav", "12345678901234567"'],
    "excess-hash": [".word #1"],
    "end-in-lazy-repeat": [".repeat er{i} {{ .end }}", "er{i} = 1"],
    "once-in-lazy-repeat": [".repeat or{i} {{ nop\n.once }}", "or{i} = 2"],
    "include-in-lazy-repeat": ['.repeat ir{i} {{ .include "inc1.mac" }}', "ir{i} = 2"],
    "rad50-digits-overflow": [".rad50 /ABC/<50>/99/"],
    "caret-r-case-folding-character": [".word ^R\u0130", ".word ^Ra\u212a"],
    "rad50-case-folding-character": [".rad50 /a\u0131/", ".rad50 /\ufb06/"],
    "mnemonic-case-folding-character": ["\u017fob r0, ."],
    # an included file that sets its own link base first and is then aborted by an error
    "include-own-link-aborted": ['.include "ownlink.mac"'],
    "include-own-dot-aborted": ['.include "owndot.mac"'],
    "include-own-link-nested-syntax-error": ['.include "ownnest.mac"'],
    "unencodable-string-with-forward-chunk": ['.asciz "αβγ" <fc{i}> ""', "fc{i}:"],
    "non-ascii-digit": [".word \u0668", ".byte 1\u0663, \u00b2"],
    # diagnostics with two spans in two files, the other span far down in a file longer than the text itself
    "two-links-one-in-lazy-repeat": ["ls{i}:", ".repeat ln{i} {{ .link 2000 }}", "le{i}:", "ln{i} = 1", ".link le{i} - ls{i} + 1000"],
    "self-include-in-lazy-repeat": ['.include "selfrep.mac"'],
    "cross-file-duplicate-export": ['.include "long.mac"', "lx1:: nop"],
    "cross-file-duplicate-constant": ["lk1 == 7", '.include "long.mac"'],
    "cross-file-sob-forward": ["sob r0, lz1", '.include "long.mac"'],
}

NO_SPACE_BEFORE = {",", ":", "::", ")", ")+", "nl"}
NO_SPACE_AFTER = {"(", "-(", "#", "@", "@#", "%", "nl", "^/"}


def render(rec, seed):
    """rec: {'toks': [class...], 'muts': [...]} from Grammar.tla -> source text."""
    rnd = random.Random(seed)
    toks = rec["toks"]
    pieces = []          # (text, class)
    delims = []
    nodot = False
    repbudget = 256
    nfault = 0
    for t in toks:
        if t == "nl":
            s = "\n"
        elif t == "nodot":
            nodot = True
            continue
        elif t == "^/":
            d = rnd.choice(CARET_DELIMS)
            delims.append(d)
            s = "^" + d
        elif t == "/^":
            s = delims.pop() if delims else "/"
        elif t.startswith("fault:"):
            nfault += 1
            s = "\n".join(FAULTS[t[6:]]).format(i=nfault)
        elif t in ("repcnt", "repcnt1"):
            c = [x for x in REPS[t] if int(x.rstrip("."), 10 if x.endswith(".") else 8) <= repbudget] or ["1"]
            s = rnd.choice(c)
            v = int(s.rstrip("."), 10 if s.endswith(".") else 8)
            repbudget = repbudget // max(v, 1)
        elif t in REPS:
            s = rnd.choice(REPS[t])
        else:
            s = t
        if nodot and s.startswith("."):
            s = s[1:]
        nodot = False
        pieces.append((s, t))
    out = []
    starts = []
    prev = "nl"
    for s, t in pieces:
        if out and prev not in NO_SPACE_AFTER and t not in NO_SPACE_BEFORE and not (prev == "prefix" and rnd.random() < 0.7) \
                and not (t == "/^"):
            out.append(" ")
        starts.append(sum(len(x) for x in out))
        out.append(s)
        prev = t
    text = "".join(out)
    # character-level mutations, applied at token `at`, offset `off`
    for m in rec.get("cm", []):
        if not starts:
            break
        at = starts[min(max(m["at"] - 1, 0), len(starts) - 1)] + m["off"]
        at = min(at, len(text))
        ch = CHARSET[(m["ch"] - 1) % len(CHARSET)]
        if m["kind"] == "cdel":
            text = text[:at] + text[at + 1:]
        elif m["kind"] == "cins":
            text = text[:at] + ch + text[at:]
        else:
            text = text[:at] + ch + text[at + 1:]
    return text


# ------------------------------------------------------------------------------------------------
# bounds of the property (counts <= 64, shift counts small, no uninterruptible big-integer work)
# ------------------------------------------------------------------------------------------------
# a small literal shift count, not continued by an operator that binds tighter than the shift ('3 + big',
# '3 * big', '3 / 1 - big', '3 - -big', '-1 % big') or by a call '3 (big)', whose value would be the count
_SMALL = r"\s*-?(\d{1,4})\.?(?![\w$.])(?!\s*[-+*/(%])"        # \s: an expression continues across a newline ('>> 0' / '-4294967297')
_SHIFT = re.compile(r"<<|>>|(?<![\w$.])_")
_REPEAT = re.compile(r"repeat\b\s*(\S*)", re.I)
_ALIGN = re.compile(r"align\b\s*(\S*)", re.I)
_BLK = re.compile(r"blk[bw]\b\s*(\S*)", re.I)
_LIT = re.compile(r"-?\d{1,4}\.?$")


def safe(text):
    """True if the text stays inside the bounds of the property (DESIGN section 4): repeat counts
    <= 64 with a bounded product, small literal shift counts, small literal '.align' moduli.
    Returns (ok, reason)."""
    for m in _SHIFT.finditer(text):
        if not re.match(_SMALL, text[m.end():]):
            return False, "shift-count"
    prod = 1
    for m in _REPEAT.finditer(text):
        op = m.group(1).rstrip("{")
        if not _LIT.match(op):
            # a symbolic count is inside the bounds when the text itself defines the symbol as a one-digit literal
            # ('.repeat n { ... }' / 'n = 2': the body is then compiled late, a case of its own)
            d = re.search(r"(?m)^\s*" + re.escape(op.strip()) + r"\s*=\s*([0-7])\s*$", text) if re.fullmatch(r"\s*[A-Za-z_][A-Za-z0-9_]*\s*", op) else None
            if d is None:
                return False, "repeat-count"
            op = d.group(1)
        v = abs(int(op.rstrip("."), 10))
        if v > 64:
            return False, "repeat-count"
        prod *= max(v, 1)
    if prod > 1024:
        return False, "repeat-product"
    for m in _ALIGN.finditer(text):
        if not _LIT.match(m.group(1)):
            return False, "align-count"
    if prod > 1:
        for m in _BLK.finditer(text):
            if not _LIT.match(m.group(1)):
                return False, "blk-in-repeat"
    return True, ""


# ------------------------------------------------------------------------------------------------
# running texts
# ------------------------------------------------------------------------------------------------
HANDLERS = ("collect", "bare", "graphical")


def run_one(text, handler="collect", cpu=2.0, extra_files=None, listing=False):
    """One run of the real assembler.  asm()'s watchdog counts CPU time of this process (a busy machine must not
    turn a slow run into a 'hang') and classifies a run it interrupted as 'hang' even when the interrupt's
    exception was replaced while unwinding.
    -> (outcome, exc, [severity...], n_err, elapsed_cpu, listing or None)"""
    files = [(MAIN, text)] + list(extra_files or [])
    fs = FS if NEEDS_FS.search(text) else None
    t0 = time.process_time()
    try:
        r = asm(files, timeout=cpu, fs=fs, handler=handler, listing=listing)
    except Hang:                 # the interrupt landed in asm()'s own bookkeeping
        return ("hang", None, [], 0, time.process_time() - t0, None)
    used = time.process_time() - t0
    return (r["outcome"], r["exc"], [x[0] for x in r["reports"]], r["n_err"], used, r["listing"])


def _child(tasks, handlers, cpu, wfd, listing=False):
    os.environ["PDPY11_VERIF"] = os.environ.get("PDPY11_VERIF", "1")
    try:
        import resource
        resource.setrlimit(resource.RLIMIT_AS, (3 << 30, 3 << 30))
    except Exception:
        pass
    out = os.fdopen(wfd, "wb", buffering=0)
    for idx, text in tasks:
        res = []
        dirty = False
        for h in handlers:
            try:
                o = run_one(text, h, cpu=cpu, listing=listing)
            except MemoryError:
                o = ("exception", "MemoryError", [], 0, 0.0, None)
                dirty = True
            if not listing:
                o = (o[0], o[1], "".join(x[0] for x in o[2]), o[3])       # severities as a string of w/e/c
            res.append(o)
            if o[0] in ("hang", "exception"):
                dirty = dirty or o[0] == "hang"
                break                       # a run that is already bad is not repeated under the other handlers
        blob = pickle.dumps((idx, res))
        out.write(struct.pack("<I", len(blob)) + blob)
        if dirty:
            break                           # module-level state may be dirty after an interrupt: new process
    out.close()
    os._exit(0)


def run_chunk(arg):
    """pmap item: (tasks=[(idx, text)...], handlers, cpu[, listing]).  Runs them in forked children; a child is
    replaced after a hang, after a hard crash, or when the parent has to kill it.
    -> [(idx, [(outcome, exc, sevs, n_err, cpu_used) per handler run])]"""
    tasks, handlers, cpu = arg[:3]
    listing = len(arg) > 3 and arg[3]
    tasks = list(tasks)
    results = []
    pos = 0
    hard = max(30.0, cpu * 12)
    while pos < len(tasks):
        rfd, wfd = os.pipe()
        pid = os.fork()
        if pid == 0:
            os.close(rfd)
            try:
                _child(tasks[pos:], handlers, cpu, wfd, listing)
            finally:
                os._exit(1)
        os.close(wfd)
        buf = b""
        got = 0
        killed = False
        last = time.time()
        while True:
            r, _, _ = select.select([rfd], [], [], 1.0)
            if r:
                b = os.read(rfd, 1 << 16)
                if not b:
                    break
                buf += b
                while len(buf) >= 4:
                    n = struct.unpack("<I", buf[:4])[0]
                    if len(buf) < 4 + n:
                        break
                    results.append(pickle.loads(buf[4:4 + n]))
                    buf = buf[4 + n:]
                    got += 1
                    last = time.time()
            elif time.time() - last > hard * len(handlers):
                os.kill(pid, signal.SIGKILL)
                killed = True
                break
        os.close(rfd)
        os.waitpid(pid, 0)
        pos += got
        if pos < len(tasks) and (killed or got == 0):
            # the child gave no answer for tasks[pos]: the parent had to kill it (hard hang in C code)
            # or the interpreter died (a child that dies later is restarted on the failing task and
            # then arrives here with got == 0)
            idx, _ = tasks[pos]
            results.append((idx, [("hang", None, [], 0, 0.0, None) if killed else ("exception", "process-died", [], 0, 0.0, None)]))
            pos += 1
    return results


def chunks(items, n):
    return [items[i:i + n] for i in range(0, len(items), n)]


def fresh(text, handler="collect", cpu=5.0, extra_files=None):
    """One run in a process of its own (confirmation of a bad outcome)."""
    rfd, wfd = os.pipe()
    pid = os.fork()
    if pid == 0:
        os.close(rfd)
        try:
            o = run_one(text, handler, cpu=cpu, extra_files=extra_files)
            os.write(wfd, pickle.dumps(o))
        finally:
            os._exit(0)
    os.close(wfd)
    data = b""
    t0 = time.time()
    while True:
        r, _, _ = select.select([rfd], [], [], 1.0)
        if r:
            b = os.read(rfd, 1 << 16)
            if not b:
                break
            data += b
        elif time.time() - t0 > 90:
            os.kill(pid, signal.SIGKILL)
            break
    os.close(rfd)
    os.waitpid(pid, 0)
    if not data:
        return ("hang", None, [], 0, 0.0, None)
    return pickle.loads(data)


# ------------------------------------------------------------------------------------------------
# classifier for the open known finding "cyclic symbol definition"
# ------------------------------------------------------------------------------------------------
SIZE_BEARING = {".blkb", ".blkw", ".repeat", ".align", "blkb", "blkw", "repeat", "align"}


def _names(tok, acc, dot):
    """collect symbol names (lower case) used in an expression tree; dot[0] = True if '.' occurs"""
    m = mods()
    from pdpy11 import types
    if tok is None:
        return
    if isinstance(tok, types.Symbol):
        acc.add(tok.name.lower())
    elif isinstance(tok, types.InstructionPointer):
        dot[0] = True
    elif isinstance(tok, types.Number):
        if getattr(tok, "is_valid_label", False):
            pass
    for attr in ("lhs", "rhs", "operand", "expr"):
        sub = getattr(tok, attr, None)
        if sub is not None and not isinstance(sub, (str, int, bool)):
            _names(sub, acc, dot)
    for attr in ("chunks",):
        for sub in getattr(tok, attr, None) or []:
            _names(sub, acc, dot)


def _walk(block, graph, sized, state):
    from pdpy11 import types
    for insn in block.insns:
        if isinstance(insn, types.Label):
            graph.setdefault(insn.name.lower(), set()).update(sized)
        elif isinstance(insn, types.Assignment):
            acc, dot = set(), [False]
            _names(insn.value, acc, dot)
            if isinstance(insn.target, types.InstructionPointer):
                sized.update(acc)                     # '. = expr' bears size
            else:
                deps = set(acc)
                if dot[0]:
                    deps |= sized
                graph.setdefault(insn.target.name.lower(), set()).update(deps)
        elif isinstance(insn, types.Instruction):
            name = insn.name.name.lower()
            ops = list(insn.operands)
            body = None
            if ops and isinstance(ops[-1], types.CodeBlock):
                body = ops.pop()
            if name in SIZE_BEARING:
                acc, dot = set(), [False]
                for o in ops:
                    _names(o, acc, dot)
                sized.update(acc)
            if body is not None:
                _walk(body, graph, sized, state)


def cyclic_definition(text):
    """True iff the source has a cyclic symbol definition: name -> names in its '=' right-hand side,
    label -> names in the operands of the size-bearing directives before it ('.' likewise)."""
    m = mods()
    graph = {}
    tree = None
    try:
        col = []
        with watchdog(3.0):     # the parser itself may be what hangs or crashes: the classifier then works line-wise
            with m["reports"].handle_reports(lambda *a: col.append(a[1])):
                try:
                    tree = m["parser"].parse(MAIN, text)
                except m["reports"].UnrecoverableError:
                    tree = None
    except (Exception, Hang):
        pass                    # (leaving handle_reports raises when an error was reported: the tree is still good)
    if tree is not None:
        _walk(tree.body, graph, set(), None)
    else:
        # the parser gave up: fallback on every 'name = expr' found in the text
        for mm in re.finditer(r"([A-Za-z_$][\w$.]*)\s*==?\s*([^\n]*)", text):
            graph.setdefault(mm.group(1).lower(), set()).update(x.lower() for x in re.findall(r"[A-Za-z_$][\w$.]*", mm.group(2)))
    # cycle search
    WHITE, GREY, BLACK = 0, 1, 2
    col = {}

    def dfs(u):
        col[u] = GREY
        for v in graph.get(u, ()):
            c = col.get(v, WHITE)
            if c == GREY:
                return True
            if c == WHITE and v in graph and dfs(v):
                return True
        col[u] = BLACK
        return False
    for u in list(graph):
        if col.get(u, WHITE) == WHITE and dfs(u):
            return True
    return False


def shape_tags(text, outcome, exc):
    """Tags that describe a bad run (for known-finding matching and for the report)."""
    tags = []
    if outcome == "hang":
        tags.append("outcome:hang")
    elif outcome == "exception":
        tags.append("outcome:exception:" + (exc or "?").split(":")[0].split(" ")[0])
    else:
        tags.append("outcome:" + outcome)
    # the shapes of two open findings about late-compiled blocks (KF-late-block-*)
    if len(re.findall(r"\.link\b", text, re.I)) >= 2 and re.search(r"\.repeat\s+[A-Za-z_$][\w$.]*\s*\{[^}]*\.link\b", text, re.I):
        tags.append("shape:two-base-directives-one-in-late-compiled-block")
    if "selfrep.mac" in text:
        tags.append("shape:self-include-in-late-compiled-block")
    try:
        if cyclic_definition(text):
            tags.append("shape:cyclic-symbol-definition")
    except Exception as ex:  # classifier trouble never decides anything
        tags.append("classifier-failed:" + type(ex).__name__)
    return tags


# ------------------------------------------------------------------------------------------------
# confirmation and minimisation of bad runs (each test in a process of its own)
# ------------------------------------------------------------------------------------------------
def sev_names(sevs):
    return [{"w": "warning", "e": "error", "c": "critical"}.get(x, x) for x in sevs]


def is_good(o):
    errs = any(sv in ("error", "critical", "e", "c") for sv in o[2])
    return (o[0] == "ok" and not errs) or (o[0] == "error" and errs)


def signature(text, o):
    """what kind of bad run this is: outcome class, exception type and place (without line number)"""
    errs = any(sv in ("error", "critical", "e", "c") for sv in o[2])
    if o[0] == "exception":
        e = o[1] or ""
        name = e.split(":")[0].split(" ")[0]
        where = e.split(" @ ")[-1] if " @ " in e else ""
        parts = where.split(":")
        place = (parts[0] + ":" + parts[-1]) if len(parts) >= 3 else where
        if name == "RecursionError" and "loop.mac" in text:
            place = "recursive-include"
        return "exception:" + name + ("@" + place if place else "")
    if o[0] == "hang":
        return "hang"
    if o[0] == "error" and not errs:
        return "failure-without-diagnostic"
    if o[0] == "ok" and errs:
        return "success-after-error"
    return "good"


def classify_task(arg):
    """(idx, text, outcome, exc) -> (idx, tags)"""
    idx, text, outcome, exc = arg
    return (idx, shape_tags(text, outcome, exc))


def confirm_task(arg):
    """(idx, text, handler, cpu) -> (idx, result tuple of the fresh run, signature, tags)"""
    idx, text, handler, cpu = arg
    o = fresh(text, handler, cpu=cpu)
    sig = signature(text, o)
    tags = shape_tags(text, o[0], o[1]) if sig != "good" else []
    return (idx, o, sig, tags)


def minimise_task(arg):
    """(text, handler, signature, cpu, budget) -> a smaller text with the same signature (and the same
    cyclic-definition classification): lines first, then runs of characters"""
    text, handler, sig, cpu, budget = arg
    cyc = cyclic_definition(text)
    tests = [0]

    def same(t):
        if tests[0] >= budget or not t.strip():
            return False
        tests[0] += 1
        o = fresh(t, handler, cpu=cpu)
        return signature(t, o) == sig and cyclic_definition(t) == cyc and safe(t)[0]

    def ddmin(units, join):
        n = 2
        while len(units) >= 2 and tests[0] < budget:
            size = max(1, len(units) // n)
            removed = False
            for i in range(0, len(units), size):
                cand = units[:i] + units[i + size:]
                if cand and same(join(cand)):
                    units = cand
                    n = max(n - 1, 2)
                    removed = True
                    break
            if not removed:
                if size == 1:
                    break
                n = min(len(units), n * 2)
        return units
    lines = ddmin(text.split("\n"), "\n".join)
    text = "\n".join(lines)
    if len(text) <= 200:
        toks = re.findall(r"\s+|\w+|.", text)
        toks = ddmin(toks, "".join)
        text = "".join(toks)
    return text
