"""Playing the histories of spec/History.tla on the real assembler (C18).

A history is a list of assembly KINDS; `program_for` picks a concrete program of that kind,
`play` runs the whole history in ONE forked child process and then the probe programs, and
returns the probes' results together with the (diagnostic) readings of the module-level state.
"""
import os
import pickle
import random
import select
import shutil
import signal
import tempfile
import time

from .common import tmp_root
from .drive import asm, mods, watchdog, Hang
from . import grammar as G

KINDS = ["valid", "warning", "error", "critical", "internal", "cycle", "interrupted", "deep"]

VALID = [
    "start: mov #msg, r0\n jsr pc, print\n halt\nprint: movb (r0)+, r1\n beq 1\n br print\n1: rts pc\nmsg: .asciz \"hi\"\n .even\n",
    ".word end - . / 2\n.repeat 3 { .byte 1, 2 }\nend:\n",
    "a = b + 1\nb = c * 2\nc = 3\n.word a, b, c\n",
    ".link 3000\nx: .blkb y - x\n.word y\ny = x + 10\n",
    "mov 2+2(r1), @#177714\n1: sob r0, 1\n.rad50 /abc/\n.ascii \"x\" <15> <12>\n",
    "tbl: .word 1, 2, 3\nlen = . - tbl\n.even\n.word len / 2, tbl\nmake_raw \"o.raw\"\n",
    # programs that include the SAME files (same paths) as the probes: per-file bookkeeping ('.once' counters, anything
    # remembered per include path) must not survive an assembly
    ".include \"once.mac\"\n.word once1\n",
    "nop\n.include \"pinc.mac\"\n.include \"once.mac\"\n.include \"once.mac\"\n",
    ".include \"sub/pinc2.mac\"\n.include \"diag.mac\"\n",
    # every radix prefix, in upper and lower case (whatever the parser remembers about a prefix must not outlive the number)
    "nop\n\n\n        .word ^X1F, ^B101, ^O17, ^D99\n\tmov #^xff, r0\n\t.byte ^b11, ^o7, ^d8\n",
    # caret groups nested in one another with different delimiters, and one alone
    ".word ^/ 1 + ^| 2 | /\n", ".word ^| 5 | + 1, ^/ 4 /\n\t.word ^? ^/ 2 / + 1 ?\n",
    # nothing but a statement that evaluates no operand at all
    "halt\nrts pc\n",
]
WARNING = [".byte\n", ".list\n", "mov @r1, r0\n", ".word\n.title demo\n", "clr @(r2)\nnop halt\n", ".include \"diag.mac\"\n"]
ERROR = [".word undef\n", ".byte 400\n", "mov r0\n", "br far\n.blkb 1000\nfar:\n", "x: nop\nx: nop\n", ".word 1/0\n",
         ".byte 1\n.word 2\n", ". = . - 2\n", ".link 1000\n.link 2000\n", ".include \"nope.mac\"\n", ".error stop\n.word 18\n",
         ".include \"bad.mac\"\n", "nop\n.include \"bad.mac\"\n.include \"once.mac\"\n"]
# programs that register values "to be looked at when the assembly ends" and are then aborted, and programs that leave many
# once-per-statement marks behind (definitions inside a repeat body)
ERROR += ["v = w + 1\n\t.word 0 * v\n\t.word r0\nw = 5\n", "v = w\n\t.word v * 0, 1/0\n\t.word undefq\nw = 1\n",
          "\t.repeat 2 {\n" + "".join(f"lq{q}: nop\nla{q} = {q}\n" for q in range(100)) + "\t}\n"]
# errors raised from INSIDE operand encoding (a register where a branch target is expected), also inside a repeat body where the
# assembly carries on; a file that includes itself and then fails at every level on the way back
ERROR += ["bne r0\n", "sob r1, r2\n", "\t.repeat 2 { beq r1 }\n\tnop\n", "br (r0)+\nbne r0\nbr r1\n", ".include \"selfinc.mac\"\n",
          "nop\n.include \"selfinc.mac\"\n.word 1\n"]
CRITICAL = [".word (1\n", "mov r0,\n", ".ascii \"abc\n", "a = \n", "nop , r0\n", ".word ^Q1\n", "mov #\n",
            "nop\nnop\n\t\t.word 1, ^XG\n", ".byte ^B2\n", "x = ^O8\n", "\n\n\n\n.word ^DA\n"]
CRASHERS = ["@.\n", "clr (%a)\n", ".word 1 { }\n", "make_wav \"αβγ\"\n", "'\\", "make_raw \"a\" <4294967296.>\n", "ldf %a, ac0\n", "br #.\n"]
LAZY_ERROR = ["nop\n.blkb 2\n.word later + undef1\nlater:\n", "a = b / 2\nb = c - undef2\nc = 1\n.word a\n", ".byte 1\n.blkb n\n.word 2\nn = 2\n"]
CYCLE = [".blkb a\na:\n", "a = b * 2\nb = a / 2\n", "a = a / 2\n", ".blkw q\nnop\nq:\n"]
HANGING = ["a = a\n", "a = b\nb = a\n", "a = b\nb = c\nc = a\n", ".word a\na = a + 1\n"]
SLOW = ".repeat 64 { .repeat 16 { mov #1, r0\n.word . / 2 } }\n"


def deep_chain(n, linear):
    lines = [".word a0"]
    for i in range(n - 1):
        lines.append(f"a{i} = a{i + 1} + 1" if linear else f"a{i} = a{i + 1} / 1 + 1")
    lines.append(f"a{n - 1} = 5")
    return "\n".join(lines) + "\n"


class Boom(Exception):
    """raised by the report handler of the 'internal' kind, from inside nested evaluation"""


def program_for(kind, rnd):
    """-> (mode, text, timeout).  mode: 'asm' (harness.drive.asm) or 'raise' (handler that raises)."""
    if kind == "valid":
        return ("asm", rnd.choice(VALID), 5.0)
    if kind == "warning":
        return ("asm", rnd.choice(WARNING), 5.0)
    if kind == "error":
        return ("asm", rnd.choice(ERROR + LAZY_ERROR), 5.0)
    if kind == "critical":
        return ("asm", rnd.choice(CRITICAL), 5.0)
    if kind == "internal":
        if rnd.random() < 0.5:
            return ("raise", rnd.choice(LAZY_ERROR), 5.0)
        return ("asm", rnd.choice(CRASHERS), 5.0)
    if kind == "cycle":
        return ("asm", rnd.choice(CYCLE), 5.0)
    if kind == "interrupted":
        if rnd.random() < 0.6:
            return ("asm", rnd.choice(HANGING), 0.3)
        return ("asm", SLOW, rnd.choice([0.002, 0.01, 0.03]))
    if kind == "deep":
        return ("asm", deep_chain(rnd.choice([30, 45, 58]), rnd.random() < 0.5), 10.0)
    raise ValueError(kind)


def assemble_raising(text, timeout):
    """parse + compile_and_link_files with a report handler that raises on the first report."""
    m = mods()

    def handler(priority, identifier, *reps):
        raise Boom(identifier)
    try:
        with watchdog(timeout):
            try:
                with m["reports"].handle_reports(handler):
                    parsed = [m["parser"].parse(G.MAIN, text)]
                    comp = m["compiler"].Compiler()
                    comp.compile_and_link_files(parsed)
                return "ok"
            except m["reports"].UnrecoverableError:
                return "error"
    except Hang:
        return "hang"
    except BaseException as ex:  # noqa
        if isinstance(ex, (KeyboardInterrupt, SystemExit)):
            raise
        return "exception:" + type(ex).__name__


def readings():
    """module-level evaluation state (diagnostic only; None if the attribute is gone)"""
    m = mods()
    out = []
    for fn in (lambda: m["deferred"].try_compute.depth, lambda: len(m["deferred"].Awaiting.awaiting_stack),
               lambda: len(m["reports"].handle_reports.handlers_stack)):
        try:
            out.append(int(fn()))
        except Exception:
            out.append(None)
    return out


# ------------------------------------------------------------------------------------------------ probes
P1 = """        .link 2000
start:  mov #table, r1
        mov count, r2
1:      movb (r1)+, r0
        sob r2, 1
        jsr pc, fin
        br start
table:  .byte 1, 2, 3, size / 2
        .even
count:  .word (fin - table) / 2
        .repeat 3 { .word . / 2, fin }
size = fin - start
vram = 40000
screen = 40000
fin:
twin:   rts pc
        .word a, b, c
a = b * 2 + 1
b = c / 2
c = 12
        make_bin "out/p1.bin"
"""
P2 = """        .byte
        mov @r1, r0
x:      nop
x:      nop
        .word undefined_thing
        .list
        .word later / 0
later:  .word 18
        mov r0
e1 = undef_a + 1
e2 = undef_b / 2
e3 = 19
e4 = e2 / 0
"""
P5 = """        .word 1
        .blkb 3
        .even
        .byte 400
        .word never_reached
"""
P3A = """        .link 1000
main::  mov #shared, r0
        jsr pc, sub1
        halt
local1 = 5
        .word local1, local2
"""
P3B = """sub1::  add #local1, r0
        rts pc
local1 = 7
shared:: .word main, sub1
        .extern local2
local2 = local1 * 3 / 2
        make_raw "p3.raw"
"""
P4 = """        .include "pinc.mac"
        insert_file "data.bin"
        .word px1 + after, plbl
after:  .include "once.mac"
        .include "once.mac"
        .include "sub/pinc2.mac"
"""
P6 = """        .include "diag.mac"
        .word dq
        .include "bad.mac"
"""
P7 = """        nop
        .word ^X1F
        .byte ^B101, ^O17
        .even
bad:    .word ^D12, ^XG
"""
P8 = """        .byte ^O7
        .even
        mov #^B2, r0
"""
# numbers of thousands of digits (converted to and from text outside any operand evaluation)
P9 = "        emt 1 << 15000.\n        .word " + "7" * 5000 + ".\n        br . + <1 << 15000.>\n"
P10 = """        .word ^| 6 / 2 |
        .word ^/ 8 | 1 /
        .word ^? ^| 6 / 2 | ?
"""
P11 = "        .word ^/ ^| 6 / 2 | /\n"
# the first number of a branch operand is a local label ('label-fixup'): every branch mnemonic family once
P12 = """1:      nop
        bne 1+2
        sob r1, 1+2
        beq 1 + 2
2:      br 2-2
"""
P4FS = {
    "selfinc.mac": ".include \"selfinc.mac\"\n.word r0\n",
    "pinc.mac": "px1 == 5\n.word px1, priv\npriv = 3\nplbl:: nop\n",
    "sub/pinc2.mac": "insert_file \"../data.bin\"\n.word . / 2\n",
    "once.mac": ".once\nonce1: .word 1\n",
    "data.bin": bytes(range(8)),
    # parse-time diagnostics and once-only constructs inside included files
    "diag.mac": "dq = 'a'\n.byte\n.even\nmov @r1, r0\n",
    "bad.mac": "r3: nop\n.repeat 2 { lbl: nop }\n.word 18\n",
}
PROBES = [
    ("p1", [("p1.mac", P1)], None),
    ("p2", [("p2.mac", P2)], None),
    ("p3", [("p3a.mac", P3A), ("p3b.mac", P3B)], None),
    ("p4", [("p4.mac", P4)], P4FS),
    ("p5", [("p5.mac", P5)], None),
    ("p6", [("p6.mac", P6)], P4FS),
    ("p7", [("p7.mac", P7)], None),
    ("p8", [("p8.mac", P8)], None),
    ("p9", [("p9.mac", P9)], None),
    ("p10", [("p10.mac", P10)], None),
    ("p11", [("p11.mac", P11)], None),
    ("p12", [("p12.mac", P12)], None),
]


def run_probe(files, fs, root=None):
    r = asm(files, timeout=20.0, fs=fs, listing=True, root=(root if fs is not None else None))
    reports = [(sev, ident, tuple((sp[0], sp[1], sp[2]) for sp in spans)) for sev, ident, spans in r["reports"]]
    return {"outcome": r["outcome"], "exc": r["exc"], "base": r["base"], "code": r["code"], "reports": reports,
            "emitted": [tuple(e) for e in r["emitted"]], "listing": r["listing"]}


def _play_child(kinds, seed, wfd, only=None):
    rnd = random.Random(seed)
    log = []
    # ONE directory for the whole history and the probes: the included files keep their absolute paths from assembly to assembly
    root = tempfile.mkdtemp(prefix="hist-", dir=tmp_root())
    allfs = dict(G.FS)
    allfs.update(P4FS)
    for k in kinds:
        mode, text, timeout = program_for(k, rnd)
        t0 = time.time()
        try:
            if mode == "raise":
                outcome = assemble_raising(text, timeout)
            else:
                # the state an interrupt leaves behind stays (that is the history the property worries about)
                r = asm([(G.MAIN, text)], timeout=timeout, fs=(allfs if G.NEEDS_FS.search(text) else None), reset_after_hang=False,
                        root=(root if G.NEEDS_FS.search(text) else None))
                outcome = r["outcome"] + (":" + (r["exc"] or "").split(":")[0] if r["outcome"] == "exception" else "")
        except Hang:
            outcome = "hang"
        log.append((k, text if len(text) < 200 else text[:200] + "...", outcome, readings(), round(time.time() - t0, 3)))
    probes = {}
    for name, files, fs in PROBES:
        if only is not None and name != only:
            continue
        try:
            probes[name] = run_probe(files, (allfs if fs is not None else None), root)
        except BaseException as ex:  # noqa
            probes[name] = {"outcome": "harness-exception", "exc": f"{type(ex).__name__}: {ex}"}
    shutil.rmtree(root, ignore_errors=True)
    os.write(wfd, pickle.dumps({"log": log, "probes": probes, "final": readings()}))


def play(arg):
    """pmap item (hid, kinds, seed[, only]) -> (hid, result dict or None).  One forked child per history.
    only: name of the single probe to run (a probe ALONE in a fresh process: the other probes are assemblies, too)"""
    hid, kinds, seed = arg[:3]
    only = arg[3] if len(arg) > 3 else None
    rfd, wfd = os.pipe()
    pid = os.fork()
    if pid == 0:
        os.close(rfd)
        try:
            signal.signal(signal.SIGALRM, signal.SIG_DFL)
            _play_child(kinds, seed, wfd, only)
        finally:
            os._exit(0)
    os.close(wfd)
    data = b""
    t0 = time.time()
    limit = 120 + 15 * len(kinds)
    while True:
        r, _, _ = select.select([rfd], [], [], 1.0)
        if r:
            b = os.read(rfd, 1 << 16)
            if not b:
                break
            data += b
        elif time.time() - t0 > limit:
            os.kill(pid, signal.SIGKILL)
            break
    os.close(rfd)
    os.waitpid(pid, 0)
    return (hid, pickle.loads(data) if data else None)


def diff_probe(a, b):
    """names of the observables in which two probe results differ"""
    return [k for k in ("outcome", "exc", "base", "code", "reports", "emitted", "listing") if a.get(k) != b.get(k)]
