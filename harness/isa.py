"""Shared by C01 and C04: configurations of spec/ISA.tla, the renderer from abstract instruction forms
to pdpy11 source text, and the replay of exported forms into the real assembler.

The specification is the oracle (predicted words / predicted refusal, label plan); this module only
spells the forms, lays out the padding that puts labels where the specification wants them, runs the
real assembler and compares.
"""
import json
import os
import struct
import tempfile
import threading
import zlib
from concurrent.futures import ThreadPoolExecutor

from .common import MachineryError, tmp_root
from .drive import asm, pmap
from .tlc import run_tlc, require_ok

DESIGN_INVS = ["TypeOK", "DecodeRecoversSource", "BranchReach", "RelLands", "AliasEncodes",
               "NoOverlap", "SynonymsShare", "AliasWithinParent", "BaseClean", "NamesDistinct"]

BRANCHES = ["br", "bne", "beq", "bge", "blt", "bgt", "ble", "bpl", "bmi", "bhi", "blos", "bvc", "bvs",
            "bcc", "bhis", "bcs", "blo"]
ALL_SHAPES = ["dot", "dotdec", "dec", "lbl", "lblp", "lblm", "loc", "locc", "locp", "numlocc", "parlbl", "lblc", "plbl"]


def tla_set(items):
    items = list(items)
    if items and isinstance(items[0], str):
        return "{" + ", ".join('"%s"' % x for x in items) + "}"
    return "{" + ", ".join(str(int(x)) for x in items) + "}"


def cfg(mode="single", ops=("*",), gen="rep", vals="two", tgts="mid", dists="few", bases=(0o1000,), shapes=("std",),
        proglen=0, invs=()):
    consts = {"Mode": '"%s"' % mode, "OpSel": tla_set(ops), "GenSet": '"%s"' % gen, "ValSet": '"%s"' % vals,
              "TgtSet": '"%s"' % tgts, "DistSet": '"%s"' % dists, "Bases": tla_set(bases), "Shapes": tla_set(shapes),
              "ProgLen": str(proglen)}
    return ("SPECIFICATION Spec\nCONSTANTS\n" + "".join(f" {k} = {v}\n" for k, v in consts.items())
            + "".join(f"INVARIANT {i}\n" for i in invs) + "CHECK_DEADLOCK FALSE\n")


# --------------------------------------------------------------------------------------- rendering

def octs(v):
    return ("-%o" % -v) if v < 0 else ("%o" % v)


def reg(r, variant):
    """r0..r7, also sp/pc and %n."""
    style = variant % 3
    if style == 1:
        return "%%%d" % r
    if style == 2 and r >= 6:
        return "sp" if r == 6 else "pc"
    return "r%d" % r


def target_text(a, shape, A, label):
    """spelling of the address a['t'] (branch target or relative operand) in the given shape"""
    t = a["t"]
    k = t - A
    if shape == "std":
        shape = "dot" if a["k"] == "Br" else "num"
    if shape == "num":
        return "%o" % t
    if shape == "dec":
        return "%d." % t
    if shape == "dot":
        return "." if k == 0 else (".+%o" % k if k > 0 else ".-%o" % -k)
    if shape == "dotdec":
        return ". + %d." % k if k >= 0 else ". - %d." % -k
    if shape == "lbl":
        return label
    if shape == "plbl":
        return "2+" + label              # the number first (in a branch operand a leading number would be a local label: relative operands only)
    if shape == "lblc":
        return "c" + label               # a symbol the program defines by assignment: c<label> = <label>
    if shape == "lblp":
        return label + "+2"
    if shape == "lblm":
        return label + "-4"
    if shape == "loc":
        return label
    if shape == "locc":
        return label + ":"
    if shape == "locp":
        return label + "+2"             # '10+2': the first number of a complex branch operand is a local label
    if shape == "numlocc":
        return "2+" + label + ":"       # a literal plus a local label written with its colon
    if shape == "parlbl":
        return "(" + label + ")+2"
    raise MachineryError(f"unknown shape {shape}")


def operand_text(a, shape, A, variant, label=None, symtab=None):
    """symtab: a list that collects (name, value) pairs; when given, every numeric value of the operand (inline number, immediate,
    index, absolute address) is written as a symbol the caller defines further down (a forward reference)"""
    k, r, v = a["k"], a["r"], a["v"]
    R = reg(r, variant)
    if symtab is not None and k in ("Index", "IndexDef", "Imm", "Abs", "Num"):
        name = "fwq%d" % len(symtab)
        symtab.append((name, v))
        return {"Index": "%s(%s)" % (name, R), "IndexDef": "@%s(%s)" % (name, R), "Imm": "#" + name, "Abs": "@#" + name, "Num": name}[k]
    if k == "Reg":
        return R
    if k == "RegDef":
        if variant % 7 == 3:
            return "@%s" % R              # the legacy spelling, accepted with a warning as (rN)
        return "(%s)" % R
    if k == "AutoInc":
        return "(%s)+" % R
    if k == "AutoIncDef":
        return "@(%s)+" % R
    if k == "AutoDec":
        return "-(%s)" % R
    if k == "AutoDecDef":
        return "@-(%s)" % R
    if k == "Index":
        if variant % 5 == 2:
            # the offset as an unbracketed expression whose tighter-binding operator comes last: v-6 + 2*3
            return "%s+2*3(%s)" % (octs(v - 6), R)
        return "%s(%s)" % (octs(v), R)
    if k == "IndexDef":
        if v == 0 and variant % 5 == 0:
            return "@(%s)" % R            # accepted with a warning as @0(rN)
        return "@%s(%s)" % (octs(v), R)
    if k == "Imm":
        return "#" + octs(v)
    if k == "Abs":
        return "@#" + octs(v)
    if k == "Rel":
        return target_text(a, shape, A, label)
    if k == "RelDef":
        return "@" + target_text(a, shape, A, label)
    if k == "Acc":
        return "ac%d" % r
    if k == "Num":
        return octs(v) if variant % 2 == 0 else ("%d." % v)
    if k == "Br":
        return target_text(a, shape, A, label)
    raise MachineryError(f"unknown operand kind {k}")


def instr_text(rec, variant, labels=None, symtab=None):
    """one instruction statement; labels: per operand the label name to use (or None)"""
    shape = rec.get("sh", "std")
    if shape == "-":
        shape = "std"
    ops = []
    for j, a in enumerate(rec["args"]):
        ops.append(operand_text(a, shape, rec["a"], variant + j, labels[j] if labels else None, symtab))
    sep = ", " if variant % 2 == 0 else ","
    return rec["op"] + ((" " + sep.join(ops)) if ops else "")


def pad_lines(frm, to, marks):
    """statements that reserve the bytes frm..to-1 and define the labels of `marks` = [(addr, name)] in between"""
    out = []
    cur = frm
    for addr, name in sorted(marks):
        if addr > cur:
            out.append(".blkb %o" % (addr - cur))
            cur = addr
        out.append(name + ":")
    if to > cur:
        out.append(".blkb %o" % (to - cur))
    return out


# ordinary symbol names, some of which merely begin or end like a register / accumulator name (ac1buf1 is not ac1)
LABEL_NAMES = ["lab%d", "ac1buf%d", "lab%d", "ac0_save%d", "r0x%d", "lab%d", "sp%d", "ac5%d", "pc%dq", "lab%d", "AC3TMP%d", "r%d0", "xac%d", "ac%dx"]


def render_alone(rec, variant):
    """-> (source text, link start, byte offset of the instruction in the image, expected image length)"""
    A, L = rec["a"], rec["len"]
    shape = rec.get("sh", "-")
    local = shape in ("loc", "locc", "locp", "numlocc")
    names, near, far = [], [], []
    for j, a in enumerate(rec["args"]):
        plan = a.get("lab") or {"a": -1, "near": False}
        if plan["a"] < 0:
            names.append(None)
            continue
        nm = (("1%d" % j) if shape == "locp" else str(j + 1)) if local else LABEL_NAMES[variant % len(LABEL_NAMES)] % (j + 1)      # locp: two-digit local names 10, 11
        names.append(nm)
        (near if plan["near"] else far).append((plan["a"], nm))
    lines = []
    if near:
        pre, post = rec["pre"], rec["post"]
    else:
        pre, post = 0, 0
    start = A - pre
    link_last = variant % 4 == 1         # every fourth case states its base at the very end: unknown while the text is read
    if not (start == 0o1000 and variant % 4 == 3 and not near) and not link_last:
        lines.append(".link %o" % start)
    for addr, nm in far:
        if local:
            raise MachineryError("local label far from its use")
        lines.append("%s = %o" % (nm, addr))
    before = [(x, n) for x, n in near if x < A]
    here = [(x, n) for x, n in near if x == A]
    after = [(x, n) for x, n in near if x >= A + L]
    if len(before) + len(here) + len(after) != len(near):
        raise MachineryError(f"label inside the instruction: {rec}")
    aliases = ["c%s = %s" % (n, n) for n in names if n] if shape == "lblc" else []
    if variant % 2 == 0:
        lines += aliases                  # the assignment stands before or after the instruction
    lines += pad_lines(start, A, before)
    for _, n in here:
        lines.append(n + ":")
    if variant % 7 == 3 and near:
        # the instruction as the body of a one-copy block: labels (numeric local ones too) of the routine around the block
        # are visible inside it, and the copy stands where the statement stood
        lines += [".repeat 1 {", instr_text(rec, variant, names), "}"]
    else:
        lines.append(instr_text(rec, variant, names))
    lines += pad_lines(A + L, A + L + post, after)
    if variant % 2 == 1:
        lines += aliases
    if link_last:
        lines.append(".link %o" % start)
    return "\n".join(lines) + "\n", start, pre, pre + L + post


def words_bytes(ws):
    return b"".join(struct.pack("<H", w) for w in ws)


def judge_alone(rec, r, start, off, total):
    """None if the real assembler did what the specification predicts, else a description"""
    if not rec["ok"]:
        if r["outcome"] == "error" and r["n_err"] >= 1:
            return None
        return "predicted refusal, got outcome=%s" % r["outcome"]
    if r["outcome"] != "ok":
        return "predicted words, got outcome=%s" % r["outcome"]
    if r["base"] != start:
        return "link base %o expected, got %o" % (start, r["base"])
    code = r["code"]
    want = words_bytes(rec["w"])
    got = code[off:off + len(want)]
    if len(code) != total:
        return "image of %d bytes expected (instruction of %d), got %d" % (total, len(want), len(code))
    if neg_imm8(rec):
        # negative spelling of an emt/trap number: verdict only on acceptance and on the operation
        # (high byte); the stored low byte is pdpy11's documented modulo rule, recorded not judged
        if len(got) == 2 and got[1] == want[1]:
            return None if got == want else "NOTE-neg-imm8"
        return "operation byte differs"
    if got != want:
        return "words differ"
    return None


def neg_imm8(rec):
    return rec["fmt"] == "imm8" and rec["args"][0]["v"] < 0


def run_alone(task):
    rec, variant = task
    src, start, off, total = render_alone(rec, variant)
    r = asm([("case.mac", src)], timeout=10)
    why = judge_alone(rec, r, start, off, total)
    got = None
    if r["outcome"] == "ok" and r["code"] is not None:
        code = r["code"][off:off + rec["len"]]
        got = [int.from_bytes(code[i:i + 2], "little") for i in range(0, len(code) - 1, 2)]
    if why is None:
        return (None, got)
    return ((why, src, r["outcome"], got, r["exc"], [x[1] for x in r["reports"]][:6]), got)


def run_batch(task):
    """task = (base, [(line, words)]): position-independent accepted forms as one program.
    On a mismatch every line is assembled alone to find the culprits."""
    base, items = task
    src = ".link %o\n" % base + "\n".join(it[0] for it in items) + "\n"
    want = b"".join(words_bytes(it[1]) for it in items)
    fs = None
    if len(items) >= 8 and zlib.crc32(src.encode()) % 2 == 0:
        # every other batch stands in two sibling include files; the second one writes its numbers as symbols that the main file
        # defines (and exports) at its end, so that it is full of symbol operands where the first one has registers and numbers
        h = len(items) // 2
        symtab = []
        second = [instr_text(it[2], it[3], symtab=symtab) for it in items[h:]]
        fs = {"b1.mac": "\n".join(it[0] for it in items[:h]) + "\n", "b2.mac": "\n".join(second) + "\n"}
        src = (".link %o\n" % base + '.include "b1.mac"\n.include "b2.mac"\n' + "".join("%s == %s\n" % (n, octs(v)) for n, v in symtab))
    r = asm([("batch.mac", src)], timeout=120, fs=fs)
    if r["outcome"] == "ok" and r["code"] == want and r["base"] == base:
        return []
    bad = []
    for ln, w in [(it[0], it[1]) for it in items]:
        s1 = ".link %o\n%s\n" % (base, ln)
        r1 = asm([("case.mac", s1)], timeout=10)
        if not (r1["outcome"] == "ok" and r1["code"] == words_bytes(w) and r1["base"] == base):
            got = None
            if r1["code"] is not None:
                got = [int.from_bytes(r1["code"][i:i + 2], "little") for i in range(0, len(r1["code"]) - 1, 2)]
            bad.append(("words differ" if r1["outcome"] == "ok" else "predicted words, got outcome=%s" % r1["outcome"],
                        s1, r1["outcome"], got, r1["exc"], [x[1] for x in r1["reports"]][:6], w))
    if not bad:
        bad.append(("only inside the mixed program: image differs (outcome=%s, %s bytes, expected %d)"
                    % (r["outcome"], len(r["code"]) if r["code"] is not None else None, len(want)),
                    src[:4000], r["outcome"], None, r["exc"], [x[1] for x in r["reports"]][:6], None))
    return bad


def fmt_words(ws):
    return None if ws is None else " ".join("%06o" % w for w in ws)


class Replay:
    """Collects exported forms (streaming), then replays them."""

    def __init__(self, run, seed, batch=400):
        self.run = run
        self.seed = seed
        self.batch = batch
        self.n = 0
        self.by_base = {}       # base -> [(line, words)]
        self.alone = []         # (rec, variant)
        self.per_fmt = {}
        self.per_shape = {}
        self.accept = 0
        self.reject = 0
        self.mnemonics = set()
        self.trace_cases = []   # filled by replay(): (rec, real words) for accepted position-dependent forms
        self.lock = threading.Lock()

    def add(self, rec):
        with self.lock:
            self._add(rec)

    def _add(self, rec):
        self.n += 1
        # spelling variant: a function of the form itself (TLC's export order varies from run to run)
        key = "%s|%s|%d|%s" % (rec["op"], rec["sh"], rec["a"], ";".join("%s.%d.%d.%d" % (a["k"], a["r"], a["v"], a["h"]) for a in rec["args"]))
        variant = (zlib.crc32(key.encode()) & 0xFFFFF) + self.seed
        self.per_fmt[rec["fmt"]] = self.per_fmt.get(rec["fmt"], 0) + 1
        self.per_shape[rec["sh"]] = self.per_shape.get(rec["sh"], 0) + 1
        self.mnemonics.add(rec["op"])
        if rec["ok"]:
            self.accept += 1
        else:
            self.reject += 1
        if rec["ok"] and rec["pic"] and not neg_imm8(rec):
            self.by_base.setdefault(rec["a"], []).append((instr_text(rec, variant), tuple(rec["w"]), rec, variant))
            if variant % 16 == 0:
                self.alone.append((rec, variant + 1))       # a share of them also alone
        else:
            self.alone.append((rec, variant))

    def replay(self, what):
        run = self.run
        tasks = []
        for base, items in sorted(self.by_base.items()):
            for i in range(0, len(items), self.batch):
                tasks.append((base, items[i:i + self.batch]))
        nb = 0
        for task, bad in zip(tasks, pmap(run_batch, tasks)):
            nb += len(task[1])
            for b in bad:
                run.violation(f"{what}: {b[1].strip().splitlines()[-1]!r} at {task[0]:o}: {b[0]}; expected {fmt_words(b[6])} got {fmt_words(b[3])} "
                              f"exc={b[4]} reports={b[5]}",
                              {"why": b[0], "expected_words": b[6], "got_words": b[3], "outcome": b[2], "base": task[0]},
                              files={"case.mac": b[1]})
        results = pmap(run_alone, self.alone)
        for (rec, variant), (bad, got) in zip(self.alone, results):
            if bad is None:
                if rec["ok"] and got is not None:
                    self.trace_cases.append((rec, got))
                continue
            if bad[0] == "NOTE-neg-imm8":
                run.bump("neg_imm8_low_byte_differs_from_modulo_rule")
                continue
            run.violation(f"{what}: {bad[1].strip().splitlines()!r}: {bad[0]}; predicted "
                          f"{'words ' + fmt_words(rec['w']) if rec['ok'] else 'refusal'}, got outcome={bad[2]} words={fmt_words(bad[3])} "
                          f"exc={bad[4]} reports={bad[5]}",
                          {"why": bad[0], "form": rec, "got_words": bad[3], "outcome": bad[2]},
                          files={"case.mac": bad[1]})
        run.add_eval(nb + len(self.alone))
        run.bump("forms_in_mixed_batches", nb)
        run.bump("forms_assembled_alone", len(self.alone))
        run.bump("batch_programs", len(tasks))
        return self


def tlc_parallel(jobs):
    """jobs: [(kwargs for run_tlc)] started together (TLC runs are independent JVMs); -> results in order"""
    with ThreadPoolExecutor(max_workers=len(jobs)) as ex:
        futs = [ex.submit(run_tlc, "ISA", **kw) for kw in jobs]
        return [require_ok(f.result()) for f in futs]


def trace_check(run, cases, what, label):
    """(C->M) the specification's processor machine alone on the REAL words: name, words consumed and the
    effective address of every PC-relative operand / branch target.  cases: [(rec, real words)]"""
    if not cases:
        run.not_exercised.append(f"{label}: no accepted position-dependent case")
        return
    cases = [(rec, got) for rec, got in cases if rec["rt"]]      # forms for which a round trip is claimed (see ISA.tla PcIncSane)
    recs = []
    for rec, got in cases:
        chk = [{"i": a["ci"], "ea": a["t"] % 65536} for a in rec["args"] if a["t"] >= 0]
        recs.append({"a": rec["a"], "w": got, "name": rec["cpu"], "chk": chk, "n": len(got) + rec["ninc"]})
    fd, path = tempfile.mkstemp(prefix="isa-trace-", suffix=".json", dir=tmp_root())
    try:
        with os.fdopen(fd, "w") as f:
            json.dump(recs, f)
        res = require_ok(run_tlc("ISA", cfg_text=cfg(mode="trace", invs=["TypeOK", "ExportTrace"]), env={"TRACE_FILE": path},
                                 label=label, timeout=900))
    finally:
        try:
            os.unlink(path)
        except OSError:
            pass
    run.add_tlc(res)
    if res.violated:
        run.violation(f"model: invariant {res.violated} violated in ISA.tla (trace mode)", {"tail": res.tail})
    if res.n_exports != len(recs):
        raise MachineryError(f"{label}: {len(recs)} cases, {res.n_exports} verdicts")
    for e in res.exports:
        rec, got = cases[e["tid"] - 1]
        if not e["ok"]:
            src = render_alone(rec, 0)[0]
            run.violation(f"{what}: the processor, run on the real words {fmt_words(got)} at {rec['a']:o}, executes {e['name']} "
                          f"consuming {e['n']} words with effective addresses {e['eas']}; the source names {rec['cpu']} "
                          f"and target(s) {[a['t'] for a in rec['args'] if a['t'] >= 0]}",
                          {"form": rec, "got_words": got, "cpu": e}, files={"case.mac": src})
    run.add_traces(len(recs))
