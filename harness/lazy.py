"""Helpers for spec/Lazy.tla: config text, rendering of exported programs, parsing of a TLC
counterexample, and the (M->C) replay of the model's prediction on the real assembler."""
import json
import re

from . import grammar as G

ALL_FORMS = ["const", "ref", "add", "sub", "mul", "div"]
ALL_KINDS = ["def", "label", "blkb", "word"]


def cfg(syms, forms, kinds, maxlen, cyclic, invs=(), props=(), inject=False, fault="none", ks="{2, 5}",
        addks="{1}", mulks="{0, 2}", divks="{2}", maxheap=24, maxstk=40, maxmag=20000, alias=True):
    q = lambda xs: "{" + ", ".join('"%s"' % x for x in xs) + "}"
    t = ("SPECIFICATION Spec\nCONSTANTS\n Syms = %s\n Ks = %s\n AddKs = %s\n MulKs = %s\n DivKs = %s\n Forms = %s\n"
         " Kinds = %s\n MaxLen = %d\n Cyclic = %s\n Inject = %s\n Fault = \"%s\"\n MaxHeap = %d\n MaxStk = %d\n MaxMag = %d\n"
         % (q(syms), ks, addks, mulks, divks, q(forms), q(kinds), maxlen, "TRUE" if cyclic else "FALSE",
            "TRUE" if inject else "FALSE", fault, maxheap, maxstk, maxmag))
    t += "".join("INVARIANT %s\n" % i for i in invs) + "".join("PROPERTY %s\n" % p for p in props)
    if alias:
        t += "ALIAS Alias\n"
    return t + "CHECK_DEADLOCK FALSE\n"


def render(prog):
    out = []
    for st in prog:
        k = st["k"]
        if k == "def":
            rhs = {"const": "%d" % st["n"], "ref": st["a"], "add": "%s + %d" % (st["a"], st["n"]),
                   "sub": "%s - %s" % (st["a"], st["b"]), "mul": "%s * %d" % (st["a"], st["n"]),
                   "div": "%s / %d" % (st["a"], st["n"])}[st["f"]]
            out.append("%s = %s" % (st["s"], rhs))
        elif k == "label":
            out.append("%s:" % st["s"])
        elif k == "blkb":
            out.append(".blkb %s" % st["a"])
        elif k == "word":
            out.append(".word %s" % st["a"])
    return "\n".join(out) + "\n"


def stmt(k, s="", f="", a="", b="", n=0):
    return {"k": k, "s": s, "f": f, "a": a, "b": b, "n": n}


def parse_source(src):
    """the sub-language of Lazy.tla -> statement records (to ask the model about a given program)"""
    out = []
    for ln in src.strip().split("\n"):
        ln = ln.strip()
        m = re.fullmatch(r"(\w+):", ln)
        if m:
            out.append(stmt("label", m.group(1)))
            continue
        m = re.fullmatch(r"\.(blkb|word) (\w+)", ln)
        if m:
            out.append(stmt(m.group(1), a=m.group(2)))
            continue
        m = re.fullmatch(r"(\w+) = (\d+)", ln)
        if m:
            out.append(stmt("def", m.group(1), "const", n=int(m.group(2))))
            continue
        m = re.fullmatch(r"(\w+) = ([a-z]\w*)", ln)
        if m:
            out.append(stmt("def", m.group(1), "ref", m.group(2)))
            continue
        m = re.fullmatch(r"(\w+) = ([a-z]\w*) ([-+*/]) (\w+)", ln)
        if not m:
            raise ValueError("not in the sub-language of Lazy.tla: %r" % ln)
        if m.group(3) == "-":
            out.append(stmt("def", m.group(1), "sub", m.group(2), m.group(4)))
        else:
            out.append(stmt("def", m.group(1), {"+": "add", "*": "mul", "/": "div"}[m.group(3)], m.group(2), n=int(m.group(4))))
    return out


_REC = re.compile(r"\[([^\]]*)\]")


def prog_from_tail(tail):
    """last `prog = <<...>>` of a TLC error trace printed through ALIAS Alias (TLC may wrap it)"""
    last = None
    lines = tail.split("\n")
    for i, ln in enumerate(lines):
        if ln.startswith("/\\ prog = "):
            buf = ln[len("/\\ prog = "):]
            j = i + 1
            while j < len(lines) and not lines[j].startswith("/\\ ") and lines[j].strip() and not lines[j].startswith("State "):
                buf += " " + lines[j].strip()
                j += 1
            last = buf
    if last is None:
        return None
    prog = []
    for rec in _REC.findall(last):
        d = {}
        for fld in rec.split(","):
            k, v = fld.split("|->")
            v = v.strip()
            d[k.strip()] = v.strip('"') if v.startswith('"') else int(v)
        prog.append(d)
    return prog


def listing_values(listing):
    vals = {}
    if listing:
        for ln in listing.splitlines()[1:]:
            p = ln.split()
            if len(p) == 2:
                try:
                    vals[p[1]] = int(p[0], 8)
                except ValueError:
                    pass
    return vals


def real_class(o):
    """outcome class of one real run (a tuple of grammar.run_one) in the vocabulary of Lazy.tla"""
    outcome, exc, sevs, n_err = o[0], o[1], o[2], o[3]
    if outcome == "ok":
        return "ok" if n_err == 0 else "ok-after-error"
    if outcome == "error":
        return "unrecoverable" if n_err >= 1 else "silent-failure"
    if outcome == "hang":
        return "hang"
    return "exc:" + (exc or "?").split(":")[0].split(" ")[0]


def agrees(pred, real):
    if pred in ("spin", "diverged"):
        return real == "hang" or real in ("exc:RecursionError", "exc:MemoryError")
    return pred == real
