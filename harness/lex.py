"""Tokenizer, site finder and text rewriter for C10 ("spelling does not matter").

Independent of pdpy11's parser: a hand-written scanner over the source text that produces the abstract
tokens of spec/Lex.tla (records k, v, s, u, a, b, m -- see the module header there) together with their
text spans.  The site predicates below are a line-by-line transcription of the enabling conditions
`En*` of Lex.tla; C10.py cross-checks the two on every statement shape it meets (TLC computes the
enabled sites of the same abstract tokens in Mode = "sites").

Conservative by construction: anything the scanner does not fully understand becomes an opaque token
("junk": the whole statement; "blob": the operand text of a string-taking directive) on which no
rewrite rule has a site.

EXCLUSIONS (the numbering E1..E16 and the reasons are in the header of spec/Lex.tla; here is where each one
lives in this file):
  E1  opaque text ........ scan(): operand of a string-taking / unknown directive -> one "blob" token; tokenize():
                           a statement with anything not understood -> one "junk" token; Ctx.opq(), Ctx.gap_blocked()
  E2  char literals ...... scan(): 'c "cc ^Rccc are "str" tokens; en_caseflip() accepts a "str" only if it consists of
                           escapes with a letter ('\n "\x1b\t: s = 1, identity taken from the lower-case text)
  E3  trivia ............. en_trivia(): blanks between tokens only (tokens are atomic), '; comment' only before a new
                           line, blank line only next to a new line
  E4  Radix / branch ..... en_radix(): stmt_kind == "br"            E5  label '1:' ... en_radix(): next token is ':'
      ('1$', '0ball', bare 8/9 digits are "loc" tokens, never numbers: classify_number())
  E6  '% n' .............. en_radix(): previous token is a lone '%' ('%3' is one "reg" token)
  E7  '^X..' at line start en_radix(): at_line_start and a '^' spelling on either side
  E8/E9 grouping only .... Ctx.role() ("idx" after a value, "mode" for (rN)); en_bracket(): never into '(rN)'
  E10 Bracket / branch ... en_bracket(): stmt_kind == "br"          E11 caret delimiter clash ... en_bracket(): bit set m
  E12 first token of line  en_bracket(), en_regalias(): at_line_start
  E13 'r0:' / 'r0 =' ..... en_regalias(): next token is ':' or '='
  E14 Synonym ............ en_synonym(): statement name only (scan() makes "mn"/"dir" tokens only at statement heads)
  E15 WordListForm ....... first_ok(): a number not spelled with '^', or a plain symbol (no '_' first, no '$' '.')
                           followed by ','
  E16 LegacyDeferred ..... en_legacy(): whole operand '(rN)' / '@rN' of an instruction (operand_start / operand_end)

Lexical facts used (learned by reading what pdpy11 *accepts*, never its expected values):
  * names  [a-z_$][a-z_0-9$.]*   numbers / local symbols  \\d[a-z_0-9$.]*   (both case-insensitive)
  * a ';' comment runs to the end of the line; every kind of white space, *including new lines*, is
    skipped between the tokens of an expression.  Hence a line that starts with something that can
    continue an expression (an infix operator character, '(' ...) after a line that ends in a value
    is a continuation ("soft" new line), not a new statement.
  * after a value, '<<' '>>' '^' '%' '_' are infix operators and '(' opens an index/call; elsewhere
    '<' '^x' '(' open groups, '%' is the register prefix, '_' starts a name.
"""
import re

# ----------------------------------------------------------------------------------------- tables
# Mnemonics (DESIGN.md Appendix A, authored from the handbooks).  Names joined by '/' are synonyms.
_MNEMONIC_TABLE = """
halt/hlt wait rti bpt iot reset rtt mfpt start step rd urd rdpc rdps uwr wrpc wrps ret/return u3000 nop
clc clv clvc clz clzc clzv clzvc cln clnc clnv clnvc clnz clnzc clnzv ccc/clnzvc sec sev sevc sez sezc sezv
sezvc sen senc senv senvc senz senzc senzv scc/senzvc movc movrc movtc locc skpc scanc spanc cmpc matc addn
subn cmpn cvtnl cvtpn cvtnp ashn cvtln addp subp cmpp cvtpl mulp divp ashp cvtlp movci movrci movtci locci
skpci scanci spanci cmpci matci addni subni cmpni cvtnli cvtpni cvtnpi ashni cvtlni addpi subpi cmppi cvtpli
mulpi divpi ashpi cvtlpi med/med6x med74c cfcc setf seti ldub ldsc/mns/msn mpp/sta0 mrs/stb0 stq0 setd setl
jmp/callr swab call clr com inc dec neg adc sbc tst ror rol asr asl mfpi mtpi sxt csm tstset wrtlck pop clrb
comb incb decb negb adcb sbcb tstb rorb rolb asrb aslb mtps mfpd mtpd mfps ldfps stfps stst push
mov cmp bit bic bis add movb cmpb bitb bicb bisb sub jsr xor mul div ash ashc
rts medlsi fadd fsub fmul fdiv l2dr l3dr
sob br bne beq bge blt bgt ble bpl bmi bhi blos bvc bvs bcc/bhis bcs/blo
emt trap/sys mark xfc spl
clrf/clrd tstf/tstd absf/absd negf/negd mulf/muld modf/modd addf/addd ldf/ldd subf/subd cmpf/cmpd divf/divd
ldcdf/ldcfd stf/std stcdf/stcfd stexp stcfi/stcfl/stcdi/stcdl ldexp ldcif/ldclf/ldcid/ldcld
"""
BRANCHES = {"sob", "br", "bne", "beq", "bge", "blt", "bgt", "ble", "bpl", "bmi", "bhi", "blos", "bvc", "bvs",
            "bcc", "bhis", "bcs", "blo"}
MN_CLASSES = [g.split("/") for g in _MNEMONIC_TABLE.split()]
MNEMONIC = {}                      # name -> (class id, variant index)
for _ci, _g in enumerate(MN_CLASSES):
    for _vi, _n in enumerate(_g):
        MNEMONIC[_n] = (_ci, _vi)

# Directives.  class id 0 = word, 1 = byte; b = 1 word list, 2 takes text (opaque operand), 0 expressions.
DIR_CLASSES = [[".word", ".dw"], [".byte", ".db"], [".dword"], [".blkb"], [".blkw"], [".even"], [".odd"], [".align"],
               [".repeat"], [".link"], [".end"], [".once"], [".extern"], [".list"], [".nlist"], [".page"]]
DIRECTIVE = {}
for _ci, _g in enumerate(DIR_CLASSES):
    for _vi, _n in enumerate(_g):
        DIRECTIVE[_n] = (_ci, _vi)
# string-taking directives: their whole operand text is opaque
STR_QUOTED = {".ascii", ".asciz", ".rad50", ".include", ".ident", "insert_file", "make_bin", "make_raw",
              "make_bk0010_rom", "make_wav", "make_turbo_wav", ".library"}
STR_LINE = {".title", ".sbttl", ".error"}
STR_CLASS_ID = 100                 # every string-taking directive (and every unknown one) is class 100+
REGS = {"r0": 0, "r1": 1, "r2": 2, "r3": 3, "r4": 4, "r5": 5, "r6": 6, "r7": 7, "sp": 6, "pc": 7}

# caret-group delimiters the rewriter may choose (ids 1..4); other legal delimiters get ids >= 5
DELIMS = "/|:?"                    # (':' instead of the former backslash: a caret group closed by a colon right after a symbol is a case of its own)
_ALL_DELIMS = "$_=[]\\{}|:/<>?"
OP_IDS = {"/": 1, "|": 2, "*": 10, "&": 11, "!": 12, "_": 13, "^": 14, "%": 15, "<<": 16, ">>": 17, "~": 18, "^c": 19}

RADIX_N = 9                        # 0 bare octal, 1 decimal '.', 2 0x, 3 0o, 4 0b, 5 ^X, 6 ^O, 7 ^B, 8 ^D
VE_KINDS = {"sym", "num", "loc", "str", "dot", "reg", "close", "junk"}
# after one of these the statement cannot be complete: the next line continues it
EXPECT_MORE = {"comma", "op", "hash", "at", "pct", "open", "eq"}


def delim_id(ch):
    i = DELIMS.find(ch)
    return i + 1 if i >= 0 else 5 + _ALL_DELIMS.find(ch)


def mask_of(text):
    m = 0
    for i, ch in enumerate(DELIMS):
        if ch in text:
            m |= 1 << i
    return m


def case_of(text):
    letters = [c for c in text if c.isalpha()]
    if not letters or all(c.islower() for c in letters):
        return 0
    if all(c.isupper() for c in letters):
        return 1
    return 2


class Tok:
    __slots__ = ("k", "v", "s", "u", "a", "b", "m", "p0", "p1", "text")

    def __init__(self, k, p0, p1, text, v=0, s=0, u=0, a=0, b=0):
        self.k, self.v, self.s, self.u, self.a, self.b = k, v, s, u, a, b
        self.p0, self.p1, self.text = p0, p1, text
        self.m = mask_of(text)

    def abstract(self):
        return {"k": self.k, "v": self.v % 30000, "s": self.s, "u": self.u, "a": self.a, "b": self.b, "m": self.m}

    def __repr__(self):
        return f"{self.k}:{self.text!r}"


_NAME = re.compile(r"[A-Za-z_$][A-Za-z_0-9$.]*")
_NUMLIKE = re.compile(r"[0-9][A-Za-z_0-9$.]*")
_LABEL = re.compile(r"([A-Za-z_0-9$.]+)([ \t]*)(::?)")
_INSN = re.compile(r"\.?[A-Za-z_][A-Za-z_0-9]*")
_CARETNUM = re.compile(r"\^([XxOoBbDd])([0-9A-Fa-f]+)(?![A-Za-z_0-9$.])")
_R50 = re.compile(r"\^[Rr][A-Za-z0-9$.%]+")
_HSPACE = re.compile(r"[^\S\n]+")


def classify_number(text):
    """-> (kind, value, spelling) for a \\d[a-z_0-9$.]* lexeme."""
    low = text.lower()
    if low.isdigit():
        if "8" in low or "9" in low:
            return "loc", 0, 0            # bare 8/9: an error or a local label -- never respelled
        return "num", int(low, 8), 0
    if low.endswith(".") and low[:-1].isdigit():
        return "num", int(low[:-1], 10), 1
    if len(low) > 2 and low[0] == "0" and low[1] in "xob":
        base = {"x": 16, "o": 8, "b": 2}[low[1]]
        try:
            return "num", int(low[2:], base), {"x": 2, "o": 3, "b": 4}[low[1]]
        except ValueError:
            pass
    return "loc", 0, 0


class Lexed:
    """Result of tokenizing one source text."""

    def __init__(self, text, toks):
        self.text = text
        self.toks = toks
        self.ctx = Ctx([t.abstract() for t in toks])


_ASSIGN = re.compile(r"([A-Za-z_$][A-Za-z_0-9$.]*|\.)([ \t]*)(==?)")
_SIMPLE = {",": "comma", "#": "hash", "@": "at", "=": "eq", ":": "colon", "+": "plus", "-": "minus"}


def scan(text):
    """First pass: raw tokens and the set of token indices at which something was not understood."""
    toks = []
    bad = set()
    names = {}
    n = len(text)
    pos = 0
    at_head = True
    stack = []                 # open brackets of the current statement: (style, closing character)

    def intern(name):
        return names.setdefault(name.lower(), len(names) + 1)

    def prev_kind():
        for t in reversed(toks):
            if t.k != "nl":
                return t.k
        return "none"

    def prev_is_value():
        return prev_kind() in VE_KINDS

    def emit(tok, junk=False):
        if junk:
            bad.add(len(toks))
        toks.append(tok)

    resumed = False
    while pos < n:
        ch = text[pos]
        if not at_head:
            resumed = False
        if ch == "\n":
            emit(Tok("nl", pos, pos + 1, "\n"))
            pos += 1
            at_head = True
            continue
        if ch.isspace():
            pos = _HSPACE.match(text, pos).end()
            continue
        if ch == ";":
            e = text.find("\n", pos)
            pos = n if e < 0 else e
            continue
        if at_head and toks and toks[-1].k == "nl" and (prev_kind() in EXPECT_MORE
                                                        or (prev_is_value() and _continues(text, pos))):
            at_head = False                    # this line continues the statement of the previous one
        elif at_head:
            if stack:
                bad.add(len(toks) - 1)         # unbalanced brackets in the statement that just ended
                del stack[:]
            m = _LABEL.match(text, pos)
            if m:
                if m.group(1)[0].isdigit():
                    kind, val, sp = classify_number(m.group(1))
                    emit(Tok(kind, pos, m.end(1), m.group(1), v=val if kind == "num" else intern(m.group(1)), s=sp,
                             u=case_of(m.group(1)), a=1 if any(c.isalpha() for c in m.group(1)) else 0))
                else:
                    emit(_name_token(m.group(1), pos, intern))
                emit(Tok("colon", m.start(3), m.end(3), m.group(3), s=len(m.group(3)) - 1))
                pos = m.end()
                continue                       # still at the head: more labels or the statement proper
            m = _ASSIGN.match(text, pos)
            if m:
                if m.group(1) == ".":
                    emit(Tok("dot", pos, pos + 1, "."))
                else:
                    emit(_name_token(m.group(1), pos, intern))
                emit(Tok("eq", m.start(3), m.end(3), m.group(3), s=len(m.group(3)) - 1))
                pos = m.end()
                at_head = False
                continue
            at_head = False
            m = _INSN.match(text, pos)
            if m:
                word = m.group()
                low = word.lower()
                full = _NAME.match(text, pos) if word[0] != "." else None
                if full is not None and full.end() > m.end():
                    low = None                 # e.g. 'mov$x': a plain symbol, not a statement name
                if low is not None and low in DIRECTIVE:
                    ci, vi = DIRECTIVE[low]
                    emit(Tok("dir", pos, m.end(), word, v=ci, s=vi, u=case_of(word), a=len(DIR_CLASSES[ci]),
                             b=1 if ci == 0 else 0))
                    pos = m.end()
                    continue
                if low is not None and (low[0] == "." or low in STR_QUOTED or ("." + low) in DIRECTIVE
                                        or ("." + low) in STR_QUOTED or ("." + low) in STR_LINE):
                    # string-taking, dot-less or unknown directive: the operand text is opaque
                    emit(Tok("dir", pos, m.end(), word, v=STR_CLASS_ID + intern(low) % 1000, s=0, u=case_of(word), a=1, b=2))
                    pos = m.end()
                    quoted = low in STR_QUOTED or ("." + low) in STR_QUOTED
                    e = _scan_opaque(text, pos, not quoted)
                    body = text[pos:e]
                    if body.strip():
                        lead = len(body) - len(body.lstrip())
                        emit(Tok("blob", pos + lead, e, text[pos + lead:e], v=1))
                    pos = e
                    continue
                if low is not None and low in MNEMONIC:
                    ci, vi = MNEMONIC[low]
                    emit(Tok("mn", pos, m.end(), word, v=ci, s=vi, u=case_of(word), a=len(MN_CLASSES[ci]),
                             b=1 if low in BRANCHES else 0))
                    pos = m.end()
                    continue
                # anything else: an implicit word list or an unknown name -- ordinary tokens
        # ------------------------------------------------------------------ ordinary tokens
        pv = prev_is_value()
        two = bool(toks) and toks[-1].k in VE_KINDS      # two values in a row on one line: not understood
        if pv and any(st == 2 and ch == d for (st, d) in stack):
            while not (stack[-1][0] == 2 and stack[-1][1] == ch):
                stack.pop()
                bad.add(len(toks))
            stack.pop()
            emit(Tok("close", pos, pos + 1, ch, s=2, v=delim_id(ch)))
            pos += 1
            continue
        if ch.isdigit():
            m = _NUMLIKE.match(text, pos)
            kind, val, sp = classify_number(m.group())
            emit(Tok(kind, pos, m.end(), m.group(), v=val if kind == "num" else intern(m.group()), s=sp,
                     u=case_of(m.group()), a=1 if any(c.isalpha() for c in m.group()) else 0), junk=two)
            pos = m.end()
            continue
        if ch == "_" and pv:
            emit(Tok("op", pos, pos + 1, ch, v=OP_IDS["_"], b=1))
            pos += 1
            continue
        if (ch.isalpha() and ch.isascii()) or ch in "_$":
            m = _NAME.match(text, pos)
            emit(_name_token(m.group(), pos, intern), junk=two)
            pos = m.end()
            continue
        if ch == ".":
            if pos + 1 < n and (text[pos + 1].isalnum() or text[pos + 1] == "_"):
                if two and not stack and not resumed:
                    # 'value .directive': a second statement on the same line.  It is scanned as a statement
                    # name (its text operand becomes opaque) but stays in the same abstract statement, where
                    # only the rules for non-leading tokens apply to it.
                    at_head = True
                    resumed = True
                    continue
                m = _INSN.match(text, pos)
                e = m.end() if m else pos + 1
                emit(Tok("junk", pos, e, text[pos:e], v=1), junk=True)      # '.name' in operand position
                pos = e
                continue
            emit(Tok("dot", pos, pos + 1, "."), junk=two)
            pos += 1
            continue
        if ch == "'":
            e = pos + 1
            if e < n and text[e] != "'":
                e = _string_char(text, e)
            if e < n and text[e] == "'":
                e += 1
            emit(_char_literal(text, pos, e), junk=two or any(c in text[pos:e] for c in "\n\t\r"))
            pos = e
            continue
        if ch == '"':
            e = pos + 1
            for _ in range(2):
                if e < n and text[e] != '"':
                    e = _string_char(text, e)
            if e < n and text[e] == '"':
                e += 1
            emit(_char_literal(text, pos, e), junk=two or any(c in text[pos:e] for c in "\n\t\r"))
            pos = e
            continue
        if ch == "^":
            if pv:
                emit(Tok("op", pos, pos + 1, ch, v=OP_IDS["^"], b=1))
                pos += 1
                continue
            m = _CARETNUM.match(text, pos)
            if m:
                base = {"x": 16, "o": 8, "b": 2, "d": 10}[m.group(1).lower()]
                try:
                    val = int(m.group(2), base)
                    emit(Tok("num", pos, m.end(), m.group(), v=val, s={"x": 5, "o": 6, "b": 7, "d": 8}[m.group(1).lower()],
                             u=case_of(m.group()), a=1))
                except ValueError:
                    emit(Tok("junk", pos, m.end(), m.group(), v=1), junk=True)
                pos = m.end()
                continue
            m = _R50.match(text, pos)
            if m:
                emit(Tok("str", pos, m.end(), m.group(), v=_stable_id(m.group()), a=1))
                pos = m.end()
                continue
            if text[pos:pos + 2].lower() == "^c":
                emit(Tok("op", pos, pos + 2, text[pos:pos + 2], v=OP_IDS["^c"], a=1, b=1))
                pos += 2
                continue
            if pos + 1 < n and text[pos + 1] in _ALL_DELIMS:
                d = text[pos + 1]
                stack.append((2, d))
                emit(Tok("open", pos, pos + 2, text[pos:pos + 2], s=2, v=delim_id(d)))
                pos += 2
                continue
            emit(Tok("junk", pos, pos + 1, ch, v=1), junk=True)
            pos += 1
            continue
        if ch == "(":
            stack.append((0, ")"))
            emit(Tok("open", pos, pos + 1, ch, s=0))
            pos += 1
            continue
        if ch == ")":
            ok = bool(stack) and stack[-1][0] == 0
            if ok:
                stack.pop()
            emit(Tok("close", pos, pos + 1, ch, s=0), junk=not ok)
            pos += 1
            continue
        if ch == "<":
            if pv:
                if text[pos:pos + 2] == "<<":
                    emit(Tok("op", pos, pos + 2, "<<", v=OP_IDS["<<"], b=1))
                    pos += 2
                else:
                    emit(Tok("junk", pos, pos + 1, ch, v=1), junk=True)
                    pos += 1
                continue
            stack.append((1, ">"))
            emit(Tok("open", pos, pos + 1, ch, s=1))
            pos += 1
            continue
        if ch == ">":
            if pv and text[pos:pos + 2] == ">>":
                emit(Tok("op", pos, pos + 2, ">>", v=OP_IDS[">>"], b=1))
                pos += 2
                continue
            if pv and stack and stack[-1][0] == 1:
                stack.pop()
                emit(Tok("close", pos, pos + 1, ch, s=1))
            else:
                emit(Tok("junk", pos, pos + 1, ch, v=1), junk=True)
            pos += 1
            continue
        if ch == "%":
            if pv:
                emit(Tok("op", pos, pos + 1, ch, v=OP_IDS["%"], b=1))
                pos += 1
                continue
            if pos + 1 < n and text[pos + 1] in "01234567" and not (pos + 2 < n and (text[pos + 2].isalnum() or text[pos + 2] in "_$.")):
                emit(Tok("reg", pos, pos + 2, text[pos:pos + 2], v=int(text[pos + 1]), s=1))
                pos += 2
                continue
            emit(Tok("pct", pos, pos + 1, ch))
            pos += 1
            continue
        if ch in _SIMPLE:
            e, s = pos + 1, 0
            if ch in "=:" and text[pos:pos + 2] == ch * 2:
                e, s = pos + 2, 1
            emit(Tok(_SIMPLE[ch], pos, e, text[pos:e], s=s))
            pos = e
            continue
        if ch in "{}":
            if stack:
                bad.add(len(toks) - 1)
                del stack[:]
            emit(Tok("lbrace" if ch == "{" else "rbrace", pos, pos + 1, ch))
            pos += 1
            at_head = True
            continue
        if ch in "*/&|!~":
            emit(Tok("op", pos, pos + 1, ch, v=OP_IDS[ch], a=1 if ch == "~" else 0, b=0 if ch == "~" else 1))
            pos += 1
            continue
        emit(Tok("junk", pos, pos + 1, ch, v=1), junk=True)
        pos += 1
    if stack and toks:
        bad.add(len(toks) - 1)
    return toks, bad


def tokenize(text):
    """Tokens of `text`; every statement that contains something not understood is one opaque 'junk' token."""
    toks, bad = scan(text)
    if bad:
        c = Ctx([t.abstract() for t in toks])
        # statements (segments of w) that contain a flagged token -> t-index ranges to collapse
        ranges = set()
        inv = {ti: q for q, ti in enumerate(c.idx)}
        for ti in bad:
            ti = min(max(ti, 0), len(toks) - 1)
            while ti not in inv or c.w[inv[ti]]["k"] in ("nl", "lbrace", "rbrace"):
                ti -= 1                        # a soft new line / boundary: attribute to the token before it
                if ti < 0:
                    break
            if ti < 0:
                continue
            q = inv[ti]
            ranges.add((c.idx[c.seg_start[q]], c.idx[c.seg_end[q]]))
        out = []
        i = 0
        rs = sorted(ranges)
        for a, b in rs:
            if a < i:
                continue
            out.extend(toks[i:a])
            out.append(Tok("junk", toks[a].p0, toks[b].p1, text[toks[a].p0:toks[b].p1], v=1))
            i = b + 1
        out.extend(toks[i:])
        toks = out
    return Lexed(text, toks)


def _stable_id(s):
    h = 0
    for c in s:
        h = (h * 131 + ord(c)) % 29989
    return h + 1


def _continues(text, pos):
    """Does the text at pos start with something that continues an expression after a value?"""
    c = text[pos]
    return c in "*/%+-_&^|!(" or text[pos:pos + 2] in ("<<", ">>")


def _name_token(name, pos, intern):
    low = name.lower()
    if low in REGS:
        return Tok("reg", pos, pos + len(name), name, v=REGS[low], s=2 if low in ("sp", "pc") else 0, u=case_of(name))
    reserved = low in MNEMONIC or low in DIRECTIVE or ("." + low) in DIRECTIVE or low in STR_QUOTED or ("." + low) in STR_QUOTED \
        or ("." + low) in STR_LINE
    # s: 1 = starts with '_' (an infix operator character), 2 = contains '$' or '.' (longer than a statement name)
    return Tok("sym", pos, pos + len(name), name, v=intern(name),
               s=1 if name[0] == "_" else (2 if ("$" in name or "." in name) else 0), u=case_of(name),
               a=1 if reserved else 0)


_ESC_ONLY = re.compile(r"""(?:'|")(?:\\(?:[xX][0-9a-fA-F]{2}|[ntrNTR]))+(?:'|")?\Z""")


def _char_literal(text, pos, e):
    """'c / "cc token.  A literal made of escapes only ('\\n "\\x1b\\t) carries no content letters: its letters are spelling
    (s = 1, identity from the lower-case text, CaseFlip may respell it); any other literal is kept as it is (E2)."""
    lit = text[pos:e]
    if _ESC_ONLY.match(lit) and any(c.isalpha() for c in lit):
        return Tok("str", pos, e, lit, v=_stable_id(lit.lower()), s=1, u=case_of(lit))
    return Tok("str", pos, e, lit, v=_stable_id(lit))


def _string_char(text, e):
    """position after one (possibly escaped) character starting at e"""
    if text[e] == "\\" and e + 1 < len(text):
        if text[e + 1] in "xX":
            return min(len(text), e + 4)
        return e + 2
    return e + 1


def _scan_opaque(text, pos, line_only):
    """End of the operand text of a string-taking directive that starts at pos."""
    n = len(text)
    if line_only:
        e = text.find("\n", pos)
        return n if e < 0 else e
    p = pos
    last = pos
    while True:
        # white space, comments, new lines between the chunks
        while p < n and (text[p].isspace() or text[p] == ";"):
            if text[p] == ";":
                e = text.find("\n", p)
                p = n if e < 0 else e
            else:
                p += 1
        if p >= n:
            return last
        c = text[p]
        if c in "'\"/":
            q = p + 1
            while q < n and text[q] != c:
                q = _string_char(text, q)
            if q >= n:
                return n                       # unterminated: everything is opaque
            p = q + 1
            last = p
            continue
        if c == "<":
            depth = 0
            q = p
            while q < n:
                if text[q] == "<":
                    depth += 1
                elif text[q] == ">":
                    depth -= 1
                    if depth == 0:
                        break
                elif text[q] == "\n":
                    break
                q += 1
            if q >= n or text[q] != ">":
                e = text.find("\n", p)
                return n if e < 0 else e
            p = q + 1
            last = p
            continue
        if c == "," and last > pos:
            p += 1
            continue
        # anything else on the same line as the last chunk belongs to the statement and is not understood
        e = text.find("\n", last)
        e = n if e < 0 else e
        if text[last:e].split(";")[0].strip():
            return e
        return last


# =========================================================================================== contexts
class Ctx:
    """Derived structure of an abstract token list -- a transcription of Lex.tla's operators
    (same names: Soft, Head, StmtKind, Match, Role, AtLineStart, Opaque ...).  Indices are 0-based here."""

    def __init__(self, t):
        self.t = t
        n = len(t)
        # ---- Opaque: after a string-taking directive until the new line
        self.opaque = [False] * n
        on = False
        for i, x in enumerate(t):
            if x["k"] == "nl":
                on = False
            self.opaque[i] = on
            if x["k"] == "dir" and x["b"] == 2:
                on = True
        # ---- w0 = live tokens (no trivia here), soft new lines
        self.soft = [False] * n
        i = 0
        while i < n:
            if t[i]["k"] == "nl":
                j = i
                while j < n and t[j]["k"] == "nl":
                    j += 1
                p = i - 1
                soft = p >= 0 and j < n and (t[p]["k"] in EXPECT_MORE or (self.is_ve(p) and self.cont_start(j)))
                for q in range(i, j):
                    self.soft[q] = soft
                i = j
            else:
                i += 1
        self.als = [i == 0 or t[i - 1]["k"] == "nl" for i in range(n)]
        # ---- w = tokens without soft new lines; idx maps w-index -> t-index
        self.idx = [i for i in range(n) if not self.soft[i]]
        w = self.w = [t[i] for i in self.idx]
        m = len(w)
        self.seg_start = [0] * m
        self.seg_end = [0] * m
        s = 0
        for q in range(m):
            if w[q]["k"] in ("nl", "lbrace", "rbrace"):
                s = q + 1
                self.seg_start[q] = q
            else:
                self.seg_start[q] = s
        e = m - 1
        for q in range(m - 1, -1, -1):
            if w[q]["k"] in ("nl", "lbrace", "rbrace"):
                e = q - 1
                self.seg_end[q] = q
            else:
                self.seg_end[q] = e
        # ---- heads: skip (name, colon) pairs
        self.head = [0] * m
        q = 0
        while q < m:
            if w[q]["k"] in ("nl", "lbrace", "rbrace"):
                self.head[q] = q
                q += 1
                continue
            s, e = q, self.seg_end[q]
            h = s
            while h + 1 <= e and w[h]["k"] in ("sym", "loc", "num", "reg") and w[h + 1]["k"] == "colon":
                h += 2
            for r in range(s, e + 1):
                self.head[r] = h
            q = e + 1
        # ---- bracket matching inside a statement
        self.match = [-1] * m
        q = 0
        while q < m:
            if w[q]["k"] in ("nl", "lbrace", "rbrace"):
                q += 1
                continue
            e = self.seg_end[q]
            st = []
            for r in range(q, e + 1):
                if w[r]["k"] == "open":
                    st.append(r)
                elif w[r]["k"] == "close":
                    if st:
                        o = st.pop()
                        if w[o]["s"] == w[r]["s"] and w[o]["v"] == w[r]["v"]:
                            self.match[o] = r
                            self.match[r] = o
            q = e + 1

    # --- token classes
    def is_ve(self, i):
        return self.t[i]["k"] in VE_KINDS

    def cont_start(self, i):
        x = self.t[i]
        k = x["k"]
        if k in ("minus", "plus", "pct"):
            return True
        if k == "op":
            return x["b"] == 1
        if k == "open":
            if x["s"] in (0, 2):
                return True
            return i + 1 < len(self.t) and self.t[i + 1]["k"] == "open" and self.t[i + 1]["s"] == 1
        if k == "num":
            return x["s"] >= 5
        if k == "reg":
            return x["s"] == 1
        if k == "sym":
            return x["s"] == 1
        if k == "str":
            return x["a"] == 1
        return False

    # --- w-level predicates (q = index in w)
    def kind(self, q):
        return self.w[q]["k"] if 0 <= q < len(self.w) else "none"

    def opq(self, q):
        return self.opaque[self.idx[q]] or self.w[q]["k"] in ("junk", "blob")

    def at_line_start(self, q):
        return self.als[self.idx[q]]

    def is_head(self, q):
        return self.head[q] == q

    def stmt_kind(self, q):
        h = self.head[q]
        if h >= len(self.w) or h > self.seg_end[q]:
            return "none"
        x = self.w[h]
        if x["k"] == "mn":
            return "br" if x["b"] == 1 else "insn"
        if x["k"] == "dir":
            return "str" if x["b"] == 2 else "dir"
        if x["k"] in ("sym", "dot") and self.kind(h + 1) == "eq" and h + 1 <= self.seg_end[q]:
            return "asg"
        return "impl"

    def in_seg(self, q, r):
        return self.seg_start[q] <= r <= self.seg_end[q]

    def prev_kind(self, q):
        return self.kind(q - 1) if q - 1 >= self.seg_start[q] else "none"

    def next_kind(self, q):
        return self.kind(q + 1) if q + 1 <= self.seg_end[q] else "none"

    def role(self, q):
        """role of an open bracket"""
        j = self.match[q]
        if j < 0:
            return "junk"
        if q - 1 >= self.seg_start[q] and self.w[q - 1]["k"] in VE_KINDS:
            return "idx" if self.w[q]["s"] == 0 else "junk"
        if self.w[q]["s"] == 0 and j == q + 2 and self.w[q + 1]["k"] == "reg":
            return "mode"
        return "grp"

    def operand_start(self, q):
        """token q starts an operand of an instruction: previous token is the head mnemonic or a comma"""
        p = q - 1
        if p < self.seg_start[q]:
            return False
        return (self.w[p]["k"] == "mn" and self.is_head(p)) or self.w[p]["k"] == "comma"

    def operand_end(self, q):
        """token q ends an operand: next token is a comma or the statement ends"""
        return q + 1 > self.seg_end[q] or self.w[q + 1]["k"] == "comma"

    # ================================================================ enabling conditions (Lex.tla En*)
    def en_caseflip(self, q):
        x = self.w[q]
        if self.opq(q):
            return False
        k = x["k"]
        if k in ("mn", "dir", "sym"):
            return True
        if k == "reg":
            return x["s"] != 1
        if k == "num":
            return x["s"] >= 2
        if k == "loc":
            return x["a"] == 1
        if k == "str":
            return x["s"] == 1                   # E2: escapes only
        if k == "op":
            return x["v"] == OP_IDS["^c"]        # the one operator spelled with a letter
        return False

    def en_regalias(self, q):
        x = self.w[q]
        return (x["k"] == "reg" and not self.opq(q) and not self.at_line_start(q)
                and self.next_kind(q) not in ("colon", "eq"))

    def en_radix(self, q, p):
        x = self.w[q]
        if x["k"] != "num" or self.opq(q):
            return False
        if self.stmt_kind(q) == "br":                 # a number in a branch/SOB statement may be a label name
            return False
        if self.next_kind(q) == "colon":              # '1:' is a label
            return False
        if self.prev_kind(q) == "pct":                # conservative: '% n' names a register
            return False
        if self.at_line_start(q) and (x["s"] >= 5 or p >= 5):   # '^X..' at line start continues the previous line
            return False
        return True

    def en_synonym(self, q):
        x = self.w[q]
        return x["k"] in ("mn", "dir") and self.is_head(q) and x["a"] > 1 and not self.opq(q)

    def bracket_target(self, p):
        ts = p % 3
        td = 1 + (p // 3) % 4
        return ts, (td if ts == 2 else 0)

    def en_bracket(self, q, p):
        x = self.w[q]
        if x["k"] != "open" or self.opq(q):
            return False
        j = self.match[q]
        if j < 0 or self.role(q) != "grp" or self.opq(j):
            return False
        if self.stmt_kind(q) == "br":                 # '(' in a branch operand switches the label heuristic off
            return False
        if self.at_line_start(q):                     # '(' '^/' '<<' at line start continue the previous line
            return False
        ts, td = self.bracket_target(p)
        if ts == 0 and j == q + 2 and self.w[q + 1]["k"] == "reg":
            return False                              # '(rN)' is an addressing mode
        if ts == 2:
            bit = 1 << (td - 1)
            for r in range(q + 1, j):
                if self.w[r]["m"] & bit:
                    return False                      # the delimiter occurs inside the group
            for o in range(self.seg_start[q], q):
                if self.w[o]["k"] == "open" and self.w[o]["s"] == 2 and self.w[o]["v"] == td and self.match[o] > j:
                    return False                      # an enclosing caret group uses the same delimiter
        return True

    def first_ok(self, f):
        """can token f be the first token of an implicit word list (and is safely recognised as such)?"""
        x = self.w[f]
        if x["k"] == "num":
            return x["s"] < 5 and self.next_kind(f) != "colon"
        if x["k"] == "sym":
            return x["a"] == 0 and x["s"] == 0 and self.next_kind(f) == "comma"
        return False

    def en_wordlist(self, q):
        """-> 'drop' | 'add' | None"""
        x = self.w[q]
        if self.opq(q) or not self.is_head(q):
            return None
        if x["k"] == "dir" and x["b"] == 1:
            f = q + 1
            if f <= self.seg_end[q] and self.first_ok(f):
                return "drop"
            return None
        if self.stmt_kind(q) == "impl" and self.first_ok(q):
            return "add"
        return None

    def en_legacy(self, q):
        """-> 'to_at' | 'to_paren' | None"""
        x = self.w[q]
        if self.opq(q) or self.stmt_kind(q) != "insn":
            return None
        if x["k"] == "open" and x["s"] == 0 and self.match[q] == q + 2 and self.w[q + 1]["k"] == "reg" \
                and self.operand_start(q) and self.operand_end(q + 2):
            return "to_at"
        if x["k"] == "at" and q + 1 <= self.seg_end[q] and self.w[q + 1]["k"] == "reg" \
                and self.operand_start(q) and self.operand_end(q + 1):
            return "to_paren"
        return None

    # Trivia: gaps g = 0..len(t) in t (gap g lies before token g, 0-based; g = len(t) is the end)
    def gap_blocked(self, g):
        t = self.t
        if g >= 1:
            x = t[g - 1]
            if self.opaque[g - 1] or (x["k"] == "dir" and x["b"] == 2) or x["k"] in ("junk", "blob"):
                return True
        if g < len(t) and t[g]["k"] in ("junk", "blob"):
            return True
        return False

    def en_trivia(self, g, kind):
        t = self.t
        if kind in (0, 1):
            return not self.gap_blocked(g)
        if kind == 2:
            return not self.gap_blocked(g) and (g == len(t) or t[g]["k"] == "nl")
        if kind == 3:
            return g == 0 or t[g - 1]["k"] == "nl"
        return False

    # ================================================================ site lists (indices into t / gaps)
    def sites(self, rule):
        """Enabled sites of a rule, in text order.  For parameter-dependent rules the site is listed if it is
        enabled for at least one parameter; apply() re-checks with the actual parameter."""
        w = self.w
        out = []
        if rule == "Trivia":
            for g in range(len(self.t) + 1):
                if any(self.en_trivia(g, k) for k in range(4)):
                    out.append(g)
            return out
        for q in range(len(w)):
            if rule == "CaseFlip":
                ok = self.en_caseflip(q)
            elif rule == "RegAlias":
                ok = self.en_regalias(q)
            elif rule == "Radix":
                ok = any(self.en_radix(q, p) for p in range(RADIX_N))
            elif rule == "Synonym":
                ok = self.en_synonym(q)
            elif rule == "Bracket":
                ok = any(self.en_bracket(q, p) for p in range(12))
            elif rule == "WordListForm":
                ok = self.en_wordlist(q) is not None
            elif rule == "LegacyDeferred":
                ok = self.en_legacy(q) is not None
            else:
                raise ValueError(rule)
            if ok:
                out.append(self.idx[q])
        return out

    def enabled_table(self):
        """Everything TLC is asked to reproduce in Mode = "sites" (1-based indices, like the module)."""
        w = self.w
        tab = {}
        tab["CaseFlip"] = [self.idx[q] + 1 for q in range(len(w)) if self.en_caseflip(q)]
        tab["RegAlias"] = [self.idx[q] + 1 for q in range(len(w)) if self.en_regalias(q)]
        tab["Synonym"] = [self.idx[q] + 1 for q in range(len(w)) if self.en_synonym(q)]
        tab["WordListForm"] = [self.idx[q] + 1 for q in range(len(w)) if self.en_wordlist(q) is not None]
        tab["LegacyDeferred"] = [self.idx[q] + 1 for q in range(len(w)) if self.en_legacy(q) is not None]
        tab["Radix"] = [[self.idx[q] + 1, p] for q in range(len(w)) for p in range(RADIX_N) if self.en_radix(q, p)]
        tab["Bracket"] = [[self.idx[q] + 1, p] for q in range(len(w)) for p in range(12) if self.en_bracket(q, p)]
        tab["Trivia"] = [[g, k] for g in range(len(self.t) + 1) for k in range(4) if self.en_trivia(g, k)]
        return tab


RULES = ["CaseFlip", "Trivia", "Radix", "Bracket", "RegAlias", "Synonym", "WordListForm", "LegacyDeferred"]


# =========================================================================================== rendering
def render_case(text, p):
    if p == 0:
        return text.lower()
    if p == 1:
        return text.upper()
    out = []
    up = False
    for c in text:
        if c.isalpha():
            out.append(c.upper() if up else c.lower())
            up = not up
        else:
            out.append(c)
    return "".join(out)


def render_number(value, s):
    if s == 0:
        return "%o" % value
    if s == 1:
        return "%d." % value
    if s == 2:
        return "0x%x" % value
    if s == 3:
        return "0o%o" % value
    if s == 4:
        return "0b" + bin(value)[2:]
    if s == 5:
        return "^X%x" % value
    if s == 6:
        return "^O%o" % value
    if s == 7:
        return "^B" + bin(value)[2:]
    if s == 8:
        return "^D%d" % value
    raise ValueError(s)


def reg_forms(n):
    forms = ["r%d" % n, "%%%d" % n]
    if n == 6:
        forms.append("sp")
    if n == 7:
        forms.append("pc")
    return forms


COMMENTS = [" ; c", ";(1)+'a\"b/ <x>", "\t;;; .word 5, r0: 1$ ^X", " ;"]
BLANKS = ["\n", " \n", "\t\n", "\n\n"]
SPACES = [" ", "  ", "\t", " \t "]


def edits_for(lx, rule, site, p):
    """Text edits [(start, end, replacement)] that apply `rule` with parameter p at `site` (an index into
    lx.toks, or a gap for Trivia), or None when the rule is not enabled there with this parameter."""
    c = lx.ctx
    toks = lx.toks
    if rule == "Trivia":
        kind = p % 4
        var = (p // 4) % 4
        g = site
        if not c.en_trivia(g, kind):
            # Resolve of Lex.tla: the first enabled kind after the requested one (cyclically)
            for dd in range(1, 4):
                if c.en_trivia(g, (kind + dd) % 4):
                    kind = (kind + dd) % 4
                    break
            else:
                return None
        if kind in (0, 1):
            at = toks[g].p0 if g < len(toks) else len(lx.text)
            return [(at, at, SPACES[var] if kind == 0 else "\t" * (1 + var % 2))]
        if kind == 2:
            at = toks[g - 1].p1 if g >= 1 and toks[g - 1].k != "nl" else (toks[g].p0 if g < len(toks) else len(lx.text))
            return [(at, at, COMMENTS[var])]
        at = toks[g - 1].p1 if g >= 1 else 0
        return [(at, at, BLANKS[var])]
    # map t-index -> w-index
    try:
        q = _w_index(c, site)
    except KeyError:
        return None
    tk = toks[site]
    if rule == "CaseFlip":
        if not c.en_caseflip(q):
            return None
        return [(tk.p0, tk.p1, render_case(tk.text, p % 3))]
    if rule == "RegAlias":
        if not c.en_regalias(q):
            return None
        forms = reg_forms(tk.v)
        return [(tk.p0, tk.p1, forms[p % len(forms)])]
    if rule == "Radix":
        s = p % RADIX_N
        if not c.en_radix(q, s):
            # fall back to the first enabled spelling after s
            for d in range(1, RADIX_N):
                if c.en_radix(q, (s + d) % RADIX_N):
                    s = (s + d) % RADIX_N
                    break
            else:
                return None
        return [(tk.p0, tk.p1, render_number(tk.v, s))]
    if rule == "Synonym":
        if not c.en_synonym(q):
            return None
        group = MN_CLASSES[tk.v] if tk.k == "mn" else DIR_CLASSES[tk.v]
        return [(tk.p0, tk.p1, group[p % len(group)])]
    if rule == "Bracket":
        pp = p % 12
        if not c.en_bracket(q, pp):
            for d in range(1, 12):
                if c.en_bracket(q, (pp + d) % 12):
                    pp = (pp + d) % 12
                    break
            else:
                return None
        ts, td = c.bracket_target(pp)
        j = c.idx[c.match[q]]
        ck = toks[j]
        if ts == 0:
            o, cl = "(", ")"
        elif ts == 1:
            o, cl = "<", ">"
            # '>>' would be read as a shift operator: keep closing angle brackets apart (blanks are trivia)
            if ck.p1 < len(lx.text) and lx.text[ck.p1] == ">":
                cl = "> "
            if ck.p0 > 0 and lx.text[ck.p0 - 1] == ">":
                cl = " " + cl
        else:
            d = DELIMS[td - 1]
            # character-level guard: the delimiter must not occur in the text of the group at all
            if d in lx.text[tk.p1:ck.p0].split(";")[0] and d in "".join(t.text for t in toks[site + 1:j]):
                return None
            o, cl = "^" + d, d
        return [(tk.p0, tk.p1, o), (ck.p0, ck.p1, cl)]
    if rule == "WordListForm":
        how = c.en_wordlist(q)
        if how is None:
            return None
        if how == "drop":
            return [(tk.p0, tk.p1, "")]
        return [(tk.p0, tk.p0, [".word ", ".word\t"][p % 2])]     # Lex.tla inserts the lower-case '.word'; Synonym / CaseFlip respell it
    if rule == "LegacyDeferred":
        how = c.en_legacy(q)
        if how is None:
            return None
        if how == "to_at":
            reg = toks[c.idx[q + 1]]
            end = toks[c.idx[q + 2]]
            return [(tk.p0, end.p1, "@" + reg.text)]
        reg = toks[c.idx[q + 1]]
        return [(tk.p0, reg.p1, "(" + reg.text + ")")]
    raise ValueError(rule)


def _w_index(c, ti):
    if not hasattr(c, "_inv"):
        c._inv = {ti_: q for q, ti_ in enumerate(c.idx)}
    return c._inv[ti]


def apply_edits(text, edits):
    out = text
    for a, b, rep in sorted(edits, key=lambda e: (e[0], e[1]), reverse=True):
        out = out[:a] + rep + out[b:]
    return out


def hsel(n, j):
    """the selector hash shared with Lex.tla (HSel)"""
    return (n * 7919 + j * 7907) % 65521


def apply_step(text, step):
    """Apply one step of a TLC behaviour: step = {r: rule, n: site selector, p: parameter, d: density}.
    d = 0: one site (sites[n mod count]); d = 1: every site j with HSel(n, j) % 4 = 0; d = 2: every site.
    Sites are rewritten from the last to the first on one tokenization (rewrites at distinct sites of one rule
    are independent, except nested Bracket rewrites, which are re-checked on the text rewritten so far).
    -> (new text, number of sites rewritten, number of sites of the rule)"""
    rule, n, p, d = step["r"], step["n"], step["p"], step["d"]
    lx = tokenize(text)
    sites = lx.ctx.sites(rule)
    if not sites:
        return text, 0, 0
    if d == 0:
        chosen = [(n % len(sites), sites[n % len(sites)])]
    else:
        chosen = [(j, s) for j, s in enumerate(sites) if d == 2 or hsel(n, j) % 4 == 0]
    if rule == "Bracket" and len(chosen) > 1:
        # nested groups interact (delimiter clashes): rewrite one at a time, innermost (rightmost) first
        done = 0
        for j, _ in sorted(chosen, reverse=True):
            lx = tokenize(text)
            cur = lx.ctx.sites(rule)
            if j >= len(cur):
                continue
            ed = edits_for(lx, rule, cur[j], p + hsel(n, j))
            if ed:
                text = apply_edits(text, ed)
                done += 1
        return text, done, len(sites)
    edits = []
    done = 0
    for j, s in chosen:
        ed = edits_for(lx, rule, s, p if d == 0 else p + hsel(n, j))
        if ed:
            edits.extend(ed)
            done += 1
    return apply_edits(text, edits), done, len(sites)


# =========================================================================================== windows
WINDOW_MAX = 48                    # longer windows are cut (TLC's recursive operators are depth-limited)


def windows(lx):
    """Abstract statement windows (previous statement + statement, boundaries included) with identities
    normalised, for the site cross-check against Lex.tla (Mode = "sites").  -> list of token-dict lists"""
    c = lx.ctx
    t = c.t
    segs = []
    cur = []
    for i, x in enumerate(t):
        cur.append(x)
        hard = x["k"] in ("lbrace", "rbrace") or (x["k"] == "nl" and not c.soft[i])
        if hard:
            segs.append(cur)
            cur = []
    if cur:
        segs.append(cur)
    out = []
    for k in range(len(segs)):
        win = (segs[k - 1] if k else []) + segs[k]
        if all(x["k"] == "nl" for x in segs[k]):
            continue
        out.append(normalise(win[-WINDOW_MAX:]))
    return out


def normalise(win):
    ids = {}
    res = []
    for x in win:
        y = dict(x)
        if y["k"] == "sym":
            y["v"] = ids.setdefault(("sym", x["v"]), len(ids) + 1)
        elif y["k"] in ("num", "loc", "str", "junk", "blob"):
            y["v"] = 1
        elif y["k"] in ("mn", "dir"):
            y["v"] = 1 if y["k"] == "mn" else (0 if y["b"] == 1 else 1)
            y["s"] = min(y["s"], y["a"] - 1)
        res.append(y)
    return res


def window_key(win):
    return tuple((x["k"], x["v"], x["s"], x["u"], x["a"], x["b"], x["m"]) for x in win)
