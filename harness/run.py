"""Entry point:  python -m harness.run <ID> [--tier quick|thorough] [--seed N] [--replay path]"""
import importlib
import sys

from .common import run_check


def main():
    if len(sys.argv) < 2:
        print("usage: check <property id> [--tier quick|thorough] [--seed N]", file=sys.stderr)
        sys.exit(2)
    pid = sys.argv[1]
    try:
        mod = importlib.import_module(f"harness.checks.{pid}")
    except ModuleNotFoundError:
        print(f"no check for {pid}", file=sys.stderr)
        sys.exit(2)
    run_check(pid, mod.main)


if __name__ == "__main__":
    main()
