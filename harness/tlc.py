"""Run TLC on a module of /verif/spec and collect what it says.

Exports: a spec prints one JSON record per terminal state with
    Export == cond => PrintT(ToJson(rec))        (listed as INVARIANT in the cfg)
TLC prints the record as a TLA+ string, i.e. a line  "{\"k\":...}"  -> json.loads twice.
"""
import json
import os
import re
import subprocess
import tempfile
import time
from dataclasses import dataclass, field
from pathlib import Path

from .common import SPEC, MachineryError, tmp_root, rmtree

JAR = "/opt/veriftools/tla/tla2tools.jar:/opt/veriftools/tla/CommunityModules-deps.jar"


@dataclass
class TlcResult:
    label: str
    mode: str
    cmd: str
    rc: int
    wall: float
    generated: int = 0
    distinct: int = 0
    ok: bool = False                 # finished and no invariant/property violated
    violated: list = field(default_factory=list)     # names of violated invariants / properties
    errors: list = field(default_factory=list)       # other TLC errors (evaluation errors, parse errors)
    exports: list = field(default_factory=list)
    n_exports: int = 0
    printed: list = field(default_factory=list)      # other PrintT lines
    tail: str = ""
    postcondition_failed: bool = False
    coverage: dict = field(default_factory=dict)


_GEN = re.compile(r"(\d+) states generated, (\d+) distinct states found")
_SIM = re.compile(r"The number of states generated: (\d+)")
_INV = re.compile(r"Error: Invariant (\S+) is violated")
_PROP = re.compile(r"Error: (?:Temporal properties were violated|Action property (\S+) is violated|Temporal property (\S+) was violated)")


def run_tlc(module, cfg=None, *, cfg_text=None, workers=16, simulate=None, depth=None, seed=None,
            timeout=900, env=None, label=None, keep_exports=True, export_filter=None, deadlock=None,
            extra=(), heap="4g", dfs=False, on_export=None):
    """module: name of a .tla file in /verif/spec (without suffix).
    cfg: name of a .cfg in /verif/spec, or cfg_text: contents of a config to write to a scratch file.
    simulate: None for exhaustive BFS, or an int N (number of behaviours) for `-simulate num=N`.
    on_export: optional callback(record) invoked per export instead of keeping them (for big runs)."""
    work = Path(tempfile.mkdtemp(prefix="tlc-", dir=tmp_root()))
    try:
        if cfg_text is not None:
            cfg_path = work / f"{module}.cfg"
            cfg_path.write_text(cfg_text)
        else:
            cfg_path = SPEC / (cfg if cfg.endswith(".cfg") else cfg + ".cfg")
            if not cfg_path.exists():
                raise MachineryError(f"missing cfg {cfg_path}")
        (work / "jtmp").mkdir(exist_ok=True)          # TLC unpacks its standard modules into java.io.tmpdir and leaves them there
        cmd = ["java", "-XX:+UseParallelGC", f"-Xmx{heap}", "-Xss64m", f"-Djava.io.tmpdir={work / 'jtmp'}"]
        if dfs:
            cmd.append("-Dtlc2.tool.queue.IStateQueue=StateDeque")
        cmd += ["-cp", JAR, "tlc2.TLC", "-config", str(cfg_path), "-metadir", str(work / "meta"),
                "-noGenerateSpecTE", "-workers", str(workers)]
        mode = "bfs"
        if simulate is not None:
            mode = f"simulate num={simulate} depth={depth or 100}"
            cmd += ["-simulate", f"num={simulate}", "-depth", str(depth or 100)]
            if seed is not None:
                cmd += ["-seed", str(seed)]
        elif depth is not None:
            pass
        if deadlock is False:
            cmd += ["-deadlock"]
        cmd += list(extra)
        cmd += [module]
        e = dict(os.environ)
        e.pop("JAVA_TOOL_OPTIONS", None)
        if env:
            e.update({k: str(v) for k, v in env.items()})
        out_path = work / "out.txt"
        t0 = time.time()
        with open(out_path, "wb") as out:
            try:
                p = subprocess.run(cmd, cwd=str(SPEC), stdout=out, stderr=subprocess.STDOUT, env=e, timeout=timeout)
                rc = p.returncode
            except subprocess.TimeoutExpired:
                rc = -9
        wall = time.time() - t0
        res = TlcResult(label=label or f"{module}/{cfg or 'inline'}", mode=mode, cmd=" ".join(cmd[4:]), rc=rc, wall=wall)
        finished = False
        tail = []
        with open(out_path, "r", errors="replace") as f:
            for line in f:
                line = line.rstrip("\n")
                if line.startswith('"{') or line.startswith('"['):
                    try:
                        rec = json.loads(json.loads(line))
                    except Exception:
                        res.errors.append("unparsable export: " + line[:200])
                        continue
                    if export_filter is not None and not export_filter(rec):
                        continue
                    res.n_exports += 1
                    if on_export is not None:
                        on_export(rec)
                    elif keep_exports:
                        res.exports.append(rec)
                    continue
                tail.append(line)
                if len(tail) > 400:
                    del tail[:200]
                m = _GEN.search(line)
                if m:
                    res.generated, res.distinct = int(m.group(1)), int(m.group(2))
                m = _SIM.search(line)
                if m:
                    res.generated = int(m.group(1))
                    res.distinct = max(res.distinct, int(m.group(1)))
                m = _INV.search(line)
                if m:
                    res.violated.append(m.group(1))
                m = _PROP.search(line)
                if m:
                    res.violated.append(m.group(1) or m.group(2) or "temporal")
                if "Model checking completed. No error has been found." in line or "Finished in" in line:
                    finished = True
                if line.startswith("Error: The behavior up to this point is") or line.startswith("Error: The following behavior constitutes a counter-example"):
                    continue            # header of a counterexample trace, not an error of its own
                if line.startswith("Error:") and not _INV.search(line) and not _PROP.search(line):
                    if "Postcondition" in line or "POSTCONDITION" in line or "post-condition" in line.lower():
                        res.postcondition_failed = True
                    res.errors.append(line)
                if "Deadlock reached" in line:
                    res.violated.append("Deadlock")
                if (line.startswith('"') and not line.startswith('"{')) or line.startswith("<<"):
                    res.printed.append(line)             # other PrintT output (strings, tuples)
        res.tail = "\n".join(tail[-60:])
        if rc == -9:
            res.errors.append(f"TLC timed out after {timeout}s")
        # -simulate ends when num behaviours are generated; TLC then exits 0 without the "No error" banner
        res.ok = (rc == 0) and not res.violated and not res.errors
        if not finished and rc not in (0,) and not res.violated and not res.errors:
            res.errors.append(f"TLC exited with status {rc}")
        return res
    finally:
        rmtree(work)


def require_ok(res, what=""):
    """Machinery guard: TLC must have run to completion without evaluation errors.  Invariant
    violations are returned to the caller (they are findings about the model), other errors raise."""
    if res.errors:
        raise MachineryError(f"TLC failed {what or res.label}: {res.errors[:3]}\n{res.tail[-1500:]}")
    return res
