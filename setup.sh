#!/bin/sh
# Offline setup: nothing is downloaded or compiled; verify the tools the checks need.
cd "$(dirname "$0")" || exit 1
command -v java >/dev/null || { echo "java missing"; exit 1; }
test -f /opt/veriftools/tla/tla2tools.jar || { echo "tla2tools.jar missing"; exit 1; }
test -x /venv/bin/python || { echo "/venv/bin/python missing"; exit 1; }
mkdir -p evidence replay
/venv/bin/python - <<'PY' || exit 1
import sys
sys.path.insert(0, "/verif")
from harness.drive import asm
r = asm([("t.mac", "mov #1, r0\n")])
assert r["outcome"] == "ok" and r["code"].hex() == "c0150100", r
print("setup ok")
PY
