----------------------------- MODULE ArithLaws -----------------------------
(* C05: laws of the documented integer arithmetic that hold for UNBOUNDED integers and therefore let the real assembler be
   checked on operands far beyond TLC's 32-bit integers: for floor division and floor modulo (b # 0)
        (a / b) * b + (a % b) = a        and        0 <= (a % b) < b  for b > 0,   b < (a % b) <= 0  for b < 0,
   and for shifts (k >= 0)      (a << k) >> k = a ,   (a << k) = a * 2^k.
   TLC checks the laws on a small grid (they are identities of integer arithmetic); the harness then writes each law as
   an expression over big literals (> 2^53, > 2^64) whose value must be 0 / 1 and assembles it with the real code.   *)
EXTENDS Integers, TLC, Json
Mod(a, b) == a - b * (a \div b)
Grid == (-12..12)
DivModLaw == \A a \in Grid : \A b \in Grid \ {0} : (a \div b) * b + Mod(a, b) = a
ModRange  == \A a \in Grid : \A b \in Grid \ {0} : IF b > 0 THEN Mod(a, b) \in 0..(b - 1) ELSE Mod(a, b) \in (b + 1)..0
ShiftLaw  == \A a \in Grid : \A k \in 0..6 : ((a * 2^k) \div 2^k) = a
VARIABLE x
Init == x = 0
Next == UNCHANGED x
Spec == Init /\ [][Next]_x
Laws == DivModLaw /\ ModRange /\ ShiftLaw
(* the law instances the harness replays: [law, a, b] with a, b given as decimal digit strings *)
Bigs == << "4611686018427387904", "12345678901234567890", "340282366920938463463374607431768211455", "9007199254740993", "18446744073709551617" >>
Divs == << "3", "7", "1000", "65537", "4294967297" >>
Export == PrintT(ToJson([bigs |-> Bigs, divs |-> Divs]))
=============================================================================
