------------------------------- MODULE AsmCore -------------------------------
(* The compile pass of the assembler as a declared (denotational) semantics over abstract programs
   that TLC itself writes: every state of the graph is a complete program (1..MaxFiles linked files
   of at most MaxStmts statements from `Alphabet`), and `Eval` gives what the LANGUAGE says that
   program means: success/failure, link base, image bytes, symbol values.  Addresses are
   base + number of bytes before; symbols are resolved by declared scoping (own local region, own
   file instance, exported definitions); values of constants are evaluated on demand, so they do
   not depend on statement order; `.repeat n {B}` is B written n times; `.include` is the file's
   statements in a fresh private scope; `.end` discards the rest of its own file.

   Used for C02 C03 C09 C11 C12 C16 C19: TLC checks the design-level invariants below on every
   program and exports (PrintT/ToJson) each program with its predicted observables; the harness
   renders the program as source text and assembles it with the real code.                      *)
EXTENDS Integers, Sequences, FiniteSets, TLC, Json, IOUtils

CONSTANTS Alphabet,      \* set of statements TLC may append          (cfg: Alphabet <- XxxAlphabet)
          MaxStmts,      \* per file
          MaxFiles,
          Bases,         \* link bases; with HarnessLink the program is assembled behind `.link b`
          HarnessLink,   \* TRUE: a leading `.link b` (b \in Bases) is part of the rendered program
          IncFiles,      \* pool of includable files: sequence of [name |-> STRING, body |-> Seq(stmt)]
          Extra          \* extra design clauses to evaluate (they re-evaluate transformed programs): subset of {"moves", "concat"}

VARIABLES files
vars == <<files>>

(* ------------------------------------------------------------------ small arithmetic *)
Mod(a, b)  == a - b * (a \div b)                 \* floor modulo, any sign of a (b > 0)
Pow2(n)    == 2 ^ n
LE16(v)    == LET w == Mod(v, 65536) IN << w % 256, w \div 256 >>
Zeros(n)   == [ q \in 1..n |-> 0 ]
MinOf(S)   == CHOOSE x \in S : \A y \in S : x <= y
RECURSIVE Concat(_)
Concat(ss) == IF ss = <<>> THEN <<>> ELSE Head(ss) \o Concat(Tail(ss))

(* ------------------------------------------------------------------ expressions (abstract syntax)
   [t |-> "num", v]  [t |-> "sym", n]  [t |-> "dot"]  [t |-> "neg", e]  [t |-> "bin", op, l, r]
   op \in {"+", "-", "*", "/", "%", "<<", ">>"}                                                  *)
Num(v)        == [t |-> "num", v |-> v]
BadNum(v)     == [t |-> "num", v |-> v, bad |-> TRUE]   \* a literal written with a digit 8 or 9 and no decimal point: reported when evaluated
Sym(n)        == [t |-> "sym", n |-> n]
Dot           == [t |-> "dot"]
Neg(e)        == [t |-> "neg", e |-> e]
Bin(op, l, r) == [t |-> "bin", op |-> op, l |-> l, r |-> r]

LocalNames == {"1", "2", "3", "10", "11", "12", "21", "1$"}
IsLocalName(n) == n \in LocalNames

(* ------------------------------------------------------------------ flattening
   item = [s |-> statement, inst |-> file instance, reg |-> local-label region, rep |-> inside a
           repeat copy, fname |-> file name]                                                     *)
Item(s, st) == [s |-> s, inst |-> st.inst, reg |-> st.reg, rep |-> st.rep, fname |-> st.fname]

RECURSIVE Flat(_, _, _), Unroll(_, _, _)
Flat(stmts, i, st) ==
    IF i > Len(stmts) THEN st
    ELSE LET s == stmts[i] IN
      CASE s.k = "end"  -> [st EXCEPT !.items = Append(@, Item(s, st))]          \* rest of this file is discarded
        [] s.k = "once" -> IF st.counts[st.fname] > 1 THEN st
                           ELSE Flat(stmts, i + 1, [st EXCEPT !.items = Append(@, Item(s, st))])
        [] s.k = "label" ->
             Flat(stmts, i + 1, [st EXCEPT !.items = Append(@, Item(s, st)),
                                           !.reg = IF IsLocalName(s.n) \/ st.rep THEN @ ELSE @ + 1])
        [] s.k = "repeat" -> Flat(stmts, i + 1, Unroll(s, s.n, [st EXCEPT !.items = Append(@, Item([k |-> "repeathead"], st))]))
        [] s.k = "include" ->
             LET f   == IncFiles[s.f]
                 st0 == [st EXCEPT !.items = Append(@, Item([k |-> "includehead"], st))]
                 sub == Flat(f.body, 1, [items |-> st0.items, inst |-> st0.nextInst, reg |-> 0, rep |-> FALSE,
                                         fname |-> f.name, nextInst |-> st0.nextInst + 1,
                                         counts |-> [st0.counts EXCEPT ![f.name] = @ + 1],
                                         insts |-> Append(st0.insts, f.name)])
             IN Flat(stmts, i + 1, [st0 EXCEPT !.items = sub.items, !.nextInst = sub.nextInst,
                                               !.counts = sub.counts, !.insts = sub.insts])
        [] OTHER -> Flat(stmts, i + 1, [st EXCEPT !.items = Append(@, Item(s, st))])
Unroll(s, n, st) ==
    IF n = 0 THEN st
    ELSE LET sub == Flat(s.body, 1, [st EXCEPT !.rep = TRUE]) IN
         Unroll(s, n - 1, [sub EXCEPT !.rep = st.rep])

FileNames == {"f1", "f2", "f3"} \cup { IncFiles[q].name : q \in DOMAIN IncFiles }
RECURSIVE FlatFiles(_, _, _)
FlatFiles(fs, q, st) ==
    IF q > Len(fs) THEN st
    ELSE LET linked == Len(fs[q]) = 1 /\ fs[q][1].k = "linkinc"       \* the command line names an includable file as a linked file
             name == IF linked THEN IncFiles[fs[q][1].f].name ELSE <<"f1", "f2", "f3">>[q]
             body == IF linked THEN IncFiles[fs[q][1].f].body ELSE fs[q]
             sub  == Flat(body, 1, [st EXCEPT !.inst = st.nextInst, !.nextInst = st.nextInst + 1, !.reg = 0,
                                               !.fname = name, !.counts[name] = @ + 1,
                                               !.insts = Append(@, name)])
         IN FlatFiles(fs, q + 1, sub)
Flatten(fs) == FlatFiles(fs, 1, [items |-> <<>>, inst |-> 0, reg |-> 0, rep |-> FALSE, fname |-> "f1", nextInst |-> 1,
                                 counts |-> [n \in FileNames |-> 0], insts |-> <<>>])

(* ------------------------------------------------------------------ declared scoping *)
Defs(items)   == { i \in DOMAIN items : items[i].s.k \in {"label", "const"} /\ ~items[i].rep }
NameOf(items, i) == items[i].s.n
NsOf(s) == { s.ns[q] : q \in DOMAIN s.ns }
ExplicitExt(items, i) == { q \in DOMAIN items : items[q].s.k = "extern" /\ items[q].inst = items[i].inst /\ NameOf(items, i) \in NsOf(items[q].s) }
AllExt(items, i)      == { q \in DOMAIN items : items[q].s.k = "externall" /\ items[q].inst = items[i].inst }
ExportForms(items, i) == (IF items[i].s.x THEN 1 ELSE 0) + Cardinality(ExplicitExt(items, i))
                         + (IF IsLocalName(NameOf(items, i)) THEN 0 ELSE Cardinality(AllExt(items, i)))
Exported(items, i)    == ExportForms(items, i) > 0

Bind(items, n, j) ==      \* index of the definition a reference to n at item j binds to; 0 = not visible
    IF IsLocalName(n)
    THEN LET c == { i \in Defs(items) : items[i].s.k = "label" /\ NameOf(items, i) = n
                                         /\ items[i].inst = items[j].inst /\ items[i].reg = items[j].reg } IN
         IF c = {} THEN 0 ELSE MinOf(c)
    ELSE LET own == { i \in Defs(items) : NameOf(items, i) = n /\ items[i].inst = items[j].inst }
             ext == { i \in Defs(items) : NameOf(items, i) = n /\ Exported(items, i) } IN
         IF own # {} THEN MinOf(own) ELSE IF ext # {} THEN MinOf(ext) ELSE 0

DuplicateDef(items) == \E i, q \in Defs(items) : i < q /\ NameOf(items, i) = NameOf(items, q) /\ items[i].inst = items[q].inst
                                                  /\ (IsLocalName(NameOf(items, i)) => items[i].reg = items[q].reg)
(* the names a statement '.extern ...' declares without the file defining them: they export nothing, but they count as declarations *)
DanglingNames(items, q) == { n \in NsOf(items[q].s) : ~\E i \in Defs(items) : NameOf(items, i) = n /\ items[i].inst = items[q].inst }
DanglingDecls(items, n) == { q \in DOMAIN items : items[q].s.k = "extern" /\ n \in DanglingNames(items, q) }
AllDangling(items) == UNION { DanglingNames(items, q) : q \in { x \in DOMAIN items : items[x].s.k = "extern" } }
DuplicateExport(items) == \/ \E i \in Defs(items) : ExportForms(items, i) > 1
                          \/ \E i, q \in Defs(items) : i < q /\ NameOf(items, i) = NameOf(items, q)
                                                       /\ Exported(items, i) /\ Exported(items, q)
                          \/ \E n \in AllDangling(items) : \/ Cardinality(DanglingDecls(items, n)) > 1
                                                           \/ \E i \in Defs(items) : NameOf(items, i) = n /\ Exported(items, i)
DefInRepeat(items) == \E i \in DOMAIN items : items[i].s.k \in {"label", "const"} /\ items[i].rep
(* '.extern x' of a name the file does not define exports nothing: a reference to x from elsewhere is a reference to an invisible name
   (first declared outside the domain; taken in after the sixth seeding round - the real assembler agrees) *)
DanglingExtern(items) == \E q \in DOMAIN items : items[q].s.k = "extern" /\
                            \E n \in NsOf(items[q].s) : ~\E i \in Defs(items) : NameOf(items, i) = n /\ items[i].inst = items[q].inst

(* ------------------------------------------------------------------ values: linear forms la*LA + c
   dep = depends on the base in a way that cannot cancel.  With the base known, la = 0 throughout. *)
(* dep: non-linear in the base.  u: the sizes that are unknown while the base is (paddings of .even/.odd/.align, skips) and that the
   value contains, as a set of pairs <<item index, coefficient>> with non-zero coefficients: like the base itself they are linear
   terms, and a difference of two addresses behind the same padding does not contain it any more.  The pair <<0, 1>> stands for a
   dependence that is not linear (it never cancels). *)
OkU(la, c, dep, u) == [st |-> "ok", la |-> la, c |-> c, dep |-> dep, u |-> u]
Ok(la, c, dep)     == OkU(la, c, dep, {})
Err(why)       == [st |-> "err", why |-> why]
Conc(x)        == x.la = 0 /\ ~x.dep /\ x.u = {}
PadCoef(P, i)  == IF \E x \in P : x[1] = i THEN (CHOOSE x \in P : x[1] = i)[2] ELSE 0
PadComb(P, Q, a, b) == LET idx == { x[1] : x \in P \cup Q } \ {0}
                           all == { << i, a * PadCoef(P, i) + b * PadCoef(Q, i) >> : i \in idx } IN
                       { x \in all : x[2] # 0 } \cup (IF \E x \in P \cup Q : x[1] = 0 THEN { <<0, 1>> } ELSE {})      \* the opaque mark never cancels
PadOpaque(P, Q) == IF P = {} /\ Q = {} THEN {} ELSE { <<0, 1>> }
Worse(a, b)    == IF a.st = "err" /\ a.why = "cycle" THEN a ELSE IF b.st = "err" /\ b.why = "cycle" THEN b
                  ELSE IF a.st = "err" THEN a ELSE b

Arith0(op, a, b) ==
    CASE op = "+" -> Ok(a.la + b.la, a.c + b.c, a.dep \/ b.dep)
      [] op = "-" -> Ok(a.la - b.la, a.c - b.c, a.dep \/ b.dep)
      [] op = "*" -> IF Conc(a) THEN Ok(a.c * b.la, a.c * b.c, b.dep)
                     ELSE IF Conc(b) THEN Ok(b.c * a.la, b.c * a.c, a.dep) ELSE Ok(0, 0, TRUE)
      [] op = "/" -> IF Conc(a) /\ Conc(b) THEN (IF b.c = 0 THEN Err("arith") ELSE Ok(0, a.c \div b.c, FALSE))
                     ELSE IF Conc(b) /\ b.c = 0 THEN Err("arith") ELSE Ok(0, 0, TRUE)
      [] op = "%" -> IF Conc(a) /\ Conc(b) THEN (IF b.c = 0 THEN Err("arith") ELSE Ok(0, Mod(a.c, b.c), FALSE))
                     ELSE IF Conc(b) /\ b.c = 0 THEN Err("arith") ELSE Ok(0, 0, TRUE)
      [] op = "<<" -> IF ~Conc(b) THEN Ok(0, 0, TRUE)
                      ELSE IF b.c < 0 THEN Err("arith") ELSE Ok(a.la * Pow2(b.c), a.c * Pow2(b.c), a.dep)
      [] op = ">>" -> IF ~Conc(b) THEN Ok(0, 0, TRUE)
                      ELSE IF b.c < 0 THEN Err("arith")
                      ELSE IF b.c = 0 THEN a
                      ELSE IF Conc(a) THEN Ok(0, a.c \div Pow2(b.c), FALSE) ELSE Ok(0, 0, TRUE)
Arith(op, a, b) == LET r == Arith0(op, a, b) IN
                   IF r.st = "err" THEN r
                   ELSE [r EXCEPT !.u = CASE op = "+" -> PadComb(a.u, b.u, 1, 1)
                                           [] op = "-" -> PadComb(a.u, b.u, 1, -1)
                                           [] op = "*" /\ Conc(a) -> PadComb(b.u, {}, a.c, 0)
                                           [] op = "*" /\ Conc(b) -> PadComb(a.u, {}, b.c, 0)
                                           [] OTHER -> PadOpaque(a.u, b.u)]

(* env = [items, offs (offsets of items 1..known from the base), odep (offset depends on base),
          base (number, or 0 when symbolic), symb (TRUE: base is the unknown LA)]                *)
AddrOf(env, i) == IF env.symb THEN OkU(1, env.offs[i], FALSE, { <<p, 1>> : p \in env.odep[i] }) ELSE Ok(0, env.base + env.offs[i], FALSE)

RECURSIVE Val(_, _, _, _)
Val(env, e, j, vis) ==
    CASE e.t = "num" -> IF "bad" \in DOMAIN e THEN Err("digit") ELSE Ok(0, e.v, FALSE)
      [] e.t = "dot" -> IF j <= Len(env.offs) THEN AddrOf(env, j) ELSE Err("cycle")
      [] e.t = "sym" -> LET b == Bind(env.items, e.n, j) IN
                        IF b = 0 THEN Err("undef")
                        ELSE IF env.items[b].s.k = "label"
                             THEN (IF b <= Len(env.offs) THEN AddrOf(env, b) ELSE Err("cycle"))
                             ELSE IF b \in vis THEN Err("cycle")
                                  ELSE Val(env, env.items[b].s.e, b, vis \cup {b})
      [] e.t = "neg" -> LET a == Val(env, e.e, j, vis) IN IF a.st = "err" THEN a ELSE OkU(-a.la, -a.c, a.dep, PadComb(a.u, {}, -1, 0))
      [] e.t = "bin" -> LET a == Val(env, e.l, j, vis)
                            b == Val(env, e.r, j, vis) IN
                        IF a.st = "err" \/ b.st = "err" THEN Worse(a, b) ELSE Arith(e.op, a, b)

(* a value that must be a plain number now (sizes, contents) *)
NumVal(env, e, j) == LET a == Val(env, e, j, {}) IN
                     IF a.st = "err" THEN a ELSE IF ~Conc(a) THEN Err("dep") ELSE a

(* ------------------------------------------------------------------ sizes
   InsnSize: opcode word + one word per operand that needs an extension word *)
InsnSize(op) == CASE op \in {"nop", "br", "sob"} -> 2
                  [] op \in {"movi", "mova", "movr", "movx", "clra"} -> 4
                  [] op \in {"movii", "movrr"} -> 6

(* size a statement announces before its contents are known; -1 = none *)
Announced(s) == CASE s.k = "insn"  -> InsnSize(s.op)
                  [] s.k = "word"  -> 2 * (IF Len(s.es) = 0 THEN 1 ELSE Len(s.es))
                  [] s.k = "byte"  -> IF Len(s.es) = 0 THEN 1 ELSE Len(s.es)
                  [] s.k = "dword" -> 4 * (IF Len(s.es) = 0 THEN 1 ELSE Len(s.es))
                  [] s.k \in {"label", "const", "extern", "externall", "link", "end", "once", "repeathead", "includehead"} -> 0
                  [] OTHER -> -1

(* .ascii with chunks: quoted text [q |-> bytes] and <expr> chunks [e |-> expression] (one byte each) *)
(* a quoted chunk [u |-> code points] holds non-ASCII text; a program that has one is assembled with the UTF-8 output charset, in
   which such a character takes two bytes (code points 128..2047) *)
Utf8(cp) == IF cp < 128 THEN << cp >> ELSE << 192 + (cp \div 64), 128 + (cp % 64) >>
RECURSIVE Utf8Seq(_)
Utf8Seq(cps) == IF cps = <<>> THEN <<>> ELSE Utf8(Head(cps)) \o Utf8Seq(Tail(cps))
RECURSIVE ChunksLen(_)
ChunksLen(cs) == IF cs = <<>> THEN 0
                 ELSE (IF "q" \in DOMAIN Head(cs) THEN Len(Head(cs).q) ELSE IF "u" \in DOMAIN Head(cs) THEN Len(Utf8Seq(Head(cs).u) ) ELSE 1)
                      + ChunksLen(Tail(cs))

(* r = [st, v] ; address-dependent sizes need the base: in the symbolic pass they are "dep" *)
SizeOf(env, i) ==
    LET s   == env.items[i].s
        adr == AddrOf(env, i)
        N(v) == [st |-> "ok", v |-> v, dep |-> FALSE]
        D    == [st |-> "ok", v |-> 0, dep |-> TRUE]
        E(x) == [st |-> "err", why |-> x.why]
    IN
    CASE s.k \in {"insn", "byte"} -> N(Announced(s))
      [] s.k \in {"word", "dword"} -> IF env.symb THEN N(Announced(s))
                         ELSE N(Announced(s) + (IF adr.c % 2 = 1 THEN 1 ELSE 0))       \* pad byte (and an error)
      [] s.k \in {"blkb", "blkw"} ->
            LET a == NumVal(env, s.e, i) IN
            IF a.st = "err" THEN (IF a.why = "dep" THEN D ELSE E(a))
            ELSE IF a.c < 0 \/ a.c >= 65536 THEN E(Err("range")) ELSE N(IF s.k = "blkb" THEN a.c ELSE 2 * a.c)
      [] s.k = "even"  -> IF env.symb \/ adr.u # {} THEN D ELSE N(adr.c % 2)
      [] s.k = "odd"   -> IF env.symb \/ adr.u # {} THEN D ELSE N(1 - (adr.c % 2))
      [] s.k = "align" -> LET a == NumVal(env, s.e, i) IN
                          IF a.st = "err" THEN (IF a.why = "dep" THEN D ELSE E(a))
                          ELSE IF a.c <= 0 THEN E(Err("range"))
                          ELSE IF env.symb \/ adr.u # {} THEN D ELSE N(Mod(-adr.c, a.c))
      [] s.k = "ascii"  -> N(Len(s.bs))
      [] s.k = "asciic" -> N(ChunksLen(s.cs) + (IF "z" \in DOMAIN s THEN 1 ELSE 0))     \* one byte per <expr> chunk, whatever its value; 'z': .asciz
      [] s.k = "insert" -> N(s.len)
      [] s.k = "skip"   -> \* `. = E` once the base is set: move forward to E, zero-filling
            IF env.symb THEN D
            ELSE LET a == NumVal(env, s.e, i) IN
                 IF a.st = "err" THEN E(a)
                 ELSE IF a.c <= -65536 \/ a.c >= 65536 THEN E(Err("range"))
                 ELSE IF Mod(a.c, 65536) < adr.c THEN E(Err("backward")) ELSE N(Mod(a.c, 65536) - adr.c)
      [] OTHER -> N(0)

RECURSIVE Lay(_, _, _)
Lay(env0, i, acc) ==
    IF i > Len(env0.items) THEN acc
    ELSE LET off  == IF i = 1 THEN 0 ELSE acc.offs[i - 1] + acc.sizes[i - 1]
             \* the unknown sizes in front of item i: an alignment padding is a term of its own (it cancels in a difference of two labels
             \* behind it); any other size that is unknown while the base is (a '. =' skip, a count that mentions an address) is opaque
             od   == IF i = 1 THEN {}
                     ELSE acc.odep[i - 1] \cup (IF ~acc.sdep[i - 1] THEN {}
                                                ELSE IF env0.items[i - 1].s.k \in {"even", "odd", "align"} THEN {i - 1} ELSE {0})
             env  == [env0 EXCEPT !.offs = Append(acc.offs, off), !.odep = Append(acc.odep, od)]
             r    == SizeOf(env, i)
         IN Lay(env0, i + 1,
                [offs  |-> env.offs, odep |-> env.odep,
                 sizes |-> Append(acc.sizes, IF r.st = "ok" THEN r.v ELSE 0),
                 sdep  |-> Append(acc.sdep, IF r.st = "ok" THEN r.dep ELSE FALSE),
                 err   |-> acc.err \/ r.st = "err",
                 cyc   |-> acc.cyc \/ (r.st = "err" /\ r.why = "cycle")])
Layout(items, base, symb) ==
    Lay([items |-> items, offs |-> <<>>, odep |-> <<>>, base |-> base, symb |-> symb], 1,
        [offs |-> <<>>, odep |-> <<>>, sizes |-> <<>>, sdep |-> <<>>, err |-> FALSE, cyc |-> FALSE])

(* ------------------------------------------------------------------ link base *)
BaseSetters(items) == { i \in DOMAIN items : items[i].s.k \in {"link", "dotset"} }
(* `. = E`: sets the base if nothing has set it yet, otherwise it is a forward skip *)
Normalise(items) ==
    LET bs == BaseSetters(items)
        first == IF bs = {} THEN 0 ELSE MinOf(bs) IN
    [ i \in DOMAIN items |->
        IF items[i].s.k = "dotset" /\ (HarnessLink \/ i # first)
        THEN [items[i] EXCEPT !.s = [k |-> "skip", e |-> items[i].s.e]] ELSE items[i] ]
SecondLink(items) == LET bs == { i \in DOMAIN items : items[i].s.k \in {"link", "dotset"} } IN
                     \/ (HarnessLink /\ \E i \in bs : items[i].s.k = "link")
                     \/ (~HarnessLink /\ \E i \in bs : items[i].s.k = "link" /\ i # MinOf(bs))

(* the base a program sets for itself: [st |-> "none" | "ok" | "err", v, cyc, unsure] *)
OwnBase(items) ==
    LET bs == BaseSetters(items) IN
    IF HarnessLink \/ bs = {} THEN [st |-> "none", v |-> 0, cyc |-> FALSE, unsure |-> FALSE]
    ELSE LET p   == MinOf(bs)
             lay == Layout(items, 0, TRUE)
             env == [items |-> items, offs |-> lay.offs, odep |-> lay.odep, base |-> 0, symb |-> TRUE]
             a   == Val(env, items[p].s.e, p, {})
         IN IF a.st = "err" THEN [st |-> "err", v |-> 0, cyc |-> a.why = "cycle", unsure |-> FALSE]
            ELSE IF a.u # {} THEN [st |-> "err", v |-> 0, cyc |-> FALSE, unsure |-> TRUE]   \* an unknown size remains in the base: not replayed
            ELSE IF a.la # 0 \/ a.dep THEN [st |-> "err", v |-> 0, cyc |-> FALSE, unsure |-> FALSE]  \* genuinely depends on itself
            ELSE IF a.c <= -65536 \/ a.c >= 65536 THEN [st |-> "err", v |-> 0, cyc |-> FALSE, unsure |-> FALSE]
            ELSE [st |-> "ok", v |-> Mod(a.c, 65536), cyc |-> FALSE, unsure |-> FALSE]

(* ------------------------------------------------------------------ contents *)
Word16(x) == IF x.st = "err" THEN [err |-> TRUE, cyc |-> x.why = "cycle", bs |-> <<0, 0>>]
             ELSE IF x.c <= -65536 \/ x.c >= 65536 THEN [err |-> TRUE, cyc |-> FALSE, bs |-> <<0, 0>>]
             ELSE [err |-> FALSE, cyc |-> FALSE, bs |-> LE16(x.c)]
Rel16(x, pc) == IF x.st = "err" THEN [err |-> TRUE, cyc |-> x.why = "cycle", bs |-> <<0, 0>>]
                ELSE [err |-> FALSE, cyc |-> FALSE, bs |-> LE16(x.c - pc)]
Cat(parts) == [err |-> \E q \in DOMAIN parts : parts[q].err, cyc |-> \E q \in DOMAIN parts : parts[q].cyc,
               bs |-> Concat([q \in DOMAIN parts |-> parts[q].bs])]
Plain(bs) == [err |-> FALSE, cyc |-> FALSE, bs |-> bs]
Bad(bs, cyc) == [err |-> TRUE, cyc |-> cyc, bs |-> bs]

(* Encodings from the PDP-11 processor handbook: MOV = 01SSDD; mode 27 = #imm, 37 = @#abs, 67 = relative,
   6n = X(Rn); CLR = 0050DD; BR = 000400 + disp8; SOB Rn = 077n00 + count6 (backward).                  *)
InsnBytes(env, i) ==
    LET s == env.items[i].s
        a == env.base + env.offs[i]
        V(e) == NumVal(env, e, i)
    IN
    CASE s.op = "nop"   -> Plain(LE16(160))                                                  \* 000240
      [] s.op = "movi"  -> Cat(<< Plain(LE16(5568)), Word16(V(s.e)) >>)                     \* 012700  mov #E, r0
      [] s.op = "mova"  -> Cat(<< Plain(LE16(5569 + 512)), Word16(V(s.e)) >>)               \* 013701  mov @#E, r1
      [] s.op = "movr"  -> Cat(<< Plain(LE16(7618)), Rel16(V(s.e), a + 4) >>)               \* 016702  mov E, r2
      [] s.op = "movx"  -> Cat(<< Plain(LE16(7364)), Word16(V(s.e)) >>)                     \* 016304  mov E(r3), r4
      [] s.op = "clra"  -> Cat(<< Plain(LE16(2591)), Word16(V(s.e)) >>)                     \* 005037  clr @#E
      [] s.op = "movii" -> Cat(<< Plain(LE16(5599)), Word16(V(s.e)), Word16(V(s.e2)) >>)    \* 012737  mov #E, @#E2
      [] s.op = "movrr" -> Cat(<< Plain(LE16(7671)), Rel16(V(s.e), a + 4), Rel16(V(s.e2), a + 6) >>)   \* 016767  mov E, E2
      [] s.op = "br"    -> LET x == V(s.e) IN
                           IF x.st = "err" THEN Bad(<<0, 0>>, x.why = "cycle")
                           ELSE LET d == x.c - (a + 2) IN
                                IF d % 2 # 0 \/ d < -256 \/ d > 254 THEN Bad(<<0, 0>>, FALSE)
                                ELSE Plain(LE16(256 + Mod(d \div 2, 256)))                  \* 000400 + disp
      [] s.op = "sob"   -> LET x == V(s.e) IN
                           IF x.st = "err" THEN Bad(<<0, 0>>, x.why = "cycle")
                           ELSE LET d == x.c - (a + 2) IN
                                IF d % 2 # 0 \/ d > 0 \/ d < -126 THEN Bad(<<0, 0>>, FALSE)
                                ELSE Plain(LE16(32320 + ((-d) \div 2)))                     \* 077100 + count  (sob r1, E)

DataBytes(env, i, n) ==      \* .byte n=1, .word n=2, .dword n=4
    LET s  == env.items[i].s
        es == IF Len(s.es) = 0 THEN << Num(0) >> ELSE s.es
        one(e) == LET x == NumVal(env, e, i) IN
                  IF x.st = "err" THEN Bad(Zeros(n), x.why = "cycle")
                  ELSE IF n = 1 THEN (IF x.c <= -256 \/ x.c >= 256 THEN Bad(<<0>>, FALSE) ELSE Plain(<< Mod(x.c, 256) >>))
                  ELSE IF n = 2 THEN Word16(x)
                  ELSE Plain(LE16(x.c \div 65536) \o LE16(Mod(x.c, 65536)))       \* high word first; small values only
    IN Cat([q \in DOMAIN es |-> one(es[q])])

ItemBytes(env, sizes, i) ==
    LET s == env.items[i].s
        a == env.base + env.offs[i] IN
    CASE s.k = "insn"  -> InsnBytes(env, i)
      [] s.k = "byte"  -> DataBytes(env, i, 1)
      [] s.k = "word"  -> IF a % 2 = 1 THEN Bad(<<0>> \o DataBytes(env, i, 2).bs, FALSE) ELSE DataBytes(env, i, 2)
      [] s.k = "dword" -> IF a % 2 = 1 THEN Bad(<<0>> \o DataBytes(env, i, 4).bs, FALSE) ELSE DataBytes(env, i, 4)
      [] s.k = "ascii" -> Plain(s.bs)
      [] s.k = "asciic" -> Cat([q \in 1..(Len(s.cs) + (IF "z" \in DOMAIN s THEN 1 ELSE 0)) |->
                                 IF q > Len(s.cs) THEN Plain(<<0>>)                   \* the terminator of '.asciz', once per statement
                                 ELSE IF "q" \in DOMAIN s.cs[q] THEN Plain(s.cs[q].q)
                                 ELSE IF "u" \in DOMAIN s.cs[q] THEN Plain(Utf8Seq(s.cs[q].u))
                                 ELSE LET x == NumVal(env, s.cs[q].e, i) IN
                                      IF x.st = "err" THEN Bad(<<0>>, x.why = "cycle")
                                      ELSE IF x.c < 0 \/ x.c > 255 THEN Bad(<<0>>, FALSE) ELSE Plain(<< x.c >>)])
      [] s.k = "insert" -> Plain([q \in 1..s.len |-> ((7 * q) + s.len) % 256])
      [] s.k = "const" -> LET x == Val(env, s.e, i, {i}) IN            \* every symbol is resolved, used or not
                          IF x.st = "err" THEN Bad(<<>>, x.why = "cycle") ELSE Plain(<<>>)
      [] OTHER -> Plain(Zeros(sizes[i]))

(* ------------------------------------------------------------------ the meaning of a program at base b *)
EvalAt(items0, b) ==
    LET items == Normalise(items0)
        lay   == Layout(items, b, FALSE)
        env   == [items |-> items, offs |-> lay.offs, odep |-> lay.odep, base |-> b, symb |-> FALSE]
        parts == [i \in DOMAIN items |-> ItemBytes(env, lay.sizes, i)]
        whole == Cat(parts)
        err   == lay.err \/ whole.err \/ DuplicateDef(items) \/ DuplicateExport(items) \/ DefInRepeat(items) \/ SecondLink(items0)
        syms  == { i \in Defs(items) : ~IsLocalName(NameOf(items, i)) }
        value(i) == IF items[i].s.k = "label" THEN b + lay.offs[i]
                    ELSE LET x == Val(env, items[i].s.e, i, {i}) IN IF x.st = "ok" THEN x.c ELSE 0
    IN [ok    |-> ~err,
        cyc   |-> lay.cyc \/ whole.cyc,
        base  |-> b,
        image |-> whole.bs,
        offs  |-> lay.offs,
        sizes |-> lay.sizes,
        lens  |-> [i \in DOMAIN items |-> Len(parts[i].bs)],
        syms  |-> { [file |-> items[i].fname, inst |-> items[i].inst, name |-> NameOf(items, i), value |-> value(i),
                     label |-> items[i].s.k = "label", off |-> lay.offs[i]] : i \in syms }]

(* '.include "i" <c> ".mac"': the digit of the file name is written as a symbol c that the same file defines as the character code
   (before or after the directive: a name that is only known later keeps the whole directive pending) *)
IncC(f, c) == [k |-> "include", f |-> f, c |-> c]
SymNamesOK(fs) ==
    \A q \in DOMAIN fs : \A r \in DOMAIN fs[q] :
        (fs[q][r].k = "include" /\ "c" \in DOMAIN fs[q][r]) =>
            Cardinality({ x \in DOMAIN fs[q] : fs[q][x].k = "const" /\ fs[q][x].n = fs[q][r].c }) = 1
            /\ \E x \in DOMAIN fs[q] : fs[q][x].k = "const" /\ fs[q][x].n = fs[q][r].c /\ ~fs[q][x].x /\ fs[q][x].e = [t |-> "num", v |-> 48 + fs[q][r].f]
SymCountsOK(fs) ==
    \A q \in DOMAIN fs : \A r \in DOMAIN fs[q] :
        (fs[q][r].k = "repeat" /\ "c" \in DOMAIN fs[q][r]) =>
            Cardinality({ x \in DOMAIN fs[q] : fs[q][x].k = "const" /\ fs[q][x].n = fs[q][r].c }) = 1
            /\ \E x \in DOMAIN fs[q] : fs[q][x].k = "const" /\ fs[q][x].n = fs[q][r].c /\ ~fs[q][x].x /\ fs[q][x].e = [t |-> "num", v |-> fs[q][r].n]

(* a base directive inside a block whose count is defined later is compiled late: with a second base directive in the program the
   order in which the two are met is not the order of the text, and which of them is "the second" is left undefined *)
CondBaseOK(fs, items) ==
    (\E q \in DOMAIN fs : \E r \in DOMAIN fs[q] : fs[q][r].k = "repeat" /\ "c" \in DOMAIN fs[q][r]
                                                   /\ \E x \in DOMAIN fs[q][r].body : fs[q][r].body[x].k \in {"link", "dotset"})
    => Cardinality(BaseSetters(items)) <= 1
Eval(fs) ==
    LET fl    == Flatten(fs)
        items == fl.items
        ob    == OwnBase(Normalise(items))
        bases == IF ob.st = "none" THEN (IF HarnessLink THEN Bases ELSE {512}) ELSE IF ob.st = "ok" THEN {ob.v} ELSE {512}
        runs  == [b \in bases |-> EvalAt(items, b)]
    IN [items |-> items, insts |-> fl.insts, own |-> ob, bases |-> bases, runs |-> runs,
        ok  |-> ob.st # "err" /\ \A b \in bases : runs[b].ok,
        cyc |-> ob.cyc \/ \E b \in bases : runs[b].cyc,
        skip |-> ob.unsure \/ ~SymCountsOK(fs) \/ ~CondBaseOK(fs, items) \/ ~SymNamesOK(fs)]

(* ------------------------------------------------------------------ alphabets (cfg: Alphabet <- XxxAlphabet) *)
I0(op)          == [k |-> "insn", op |-> op]
I1(op, e)       == [k |-> "insn", op |-> op, e |-> e]
I2(op, e, e2)   == [k |-> "insn", op |-> op, e |-> e, e2 |-> e2]
W(es)           == [k |-> "word", es |-> es]
By(es)          == [k |-> "byte", es |-> es]
Lab(n)          == [k |-> "label", n |-> n, x |-> FALSE]
LabX(n)         == [k |-> "label", n |-> n, x |-> TRUE]
Const(n, e)     == [k |-> "const", n |-> n, e |-> e, x |-> FALSE]
ConstX(n, e)    == [k |-> "const", n |-> n, e |-> e, x |-> TRUE]
Rep(n, body)    == [k |-> "repeat", n |-> n, body |-> body]
(* '.repeat c { body }' with the count written as a symbol c that the same file defines as the literal n (before or after the
   directive: a count defined later makes the real assembler compile the body late).  Programs in which c is not defined exactly
   once as that literal in the same file are not replayed (SymCountsOK). *)
RepC(n, c, body) == [k |-> "repeat", n |-> n, c |-> c, body |-> body]
Inc(f)          == [k |-> "include", f |-> f]
Blkb(e)         == [k |-> "blkb", e |-> e]
Blkw(e)         == [k |-> "blkw", e |-> e]
Link(e)         == [k |-> "link", e |-> e]
DotSet(e)       == [k |-> "dotset", e |-> e]
A == Sym("a")
B == Sym("b")

LayoutAlphabet ==
  { I0("nop"), I1("movi", A), I1("mova", B), I1("movr", A), I2("movrr", A, B), I2("movii", Bin("-", B, A), A),
    I1("br", A), I1("br", B), I1("movx", Bin("+", Sym("n"), Num(2))),
    W(<<A, Dot>>), W(<< Bin("-", B, A) >>), By(<< Num(1) >>), By(<< Num(1), Num(2), Num(3) >>),
    Blkb(Num(3)), Blkb(Sym("n")), [k |-> "even"], [k |-> "odd"], [k |-> "align", e |-> Num(4)],
    [k |-> "ascii", bs |-> <<65, 66, 67>>], Lab("a"), Lab("b"), Const("n", Num(3)),
    DotSet(Bin("+", Dot, Num(5))), [k |-> "insert", len |-> 5], [k |-> "dword", es |-> << Num(66000), Num(-2) >>], Blkw(Num(2)), I1("sob", A),
    Rep(2, << I0("nop"), W(<< Dot >>) >>), Inc(1), Inc(2), W(<<>>), By(<<>>), [k |-> "dword", es |-> <<>>],
    Rep(2, << W(<< B >>), [k |-> "ascii", bs |-> <<72, 105>>] >>), Inc(4),
    Rep(3, << W(<< B >>), [k |-> "asciic", cs |-> << [q |-> <<97, 98>>], [q |-> <<99>>] >>, z |-> TRUE], W(<< Dot >>) >>),     \* .asciz "ab" "c" in every copy
    [k |-> "asciic", cs |-> << [q |-> <<97, 98, 99>>], [e |-> Sym("n")], [q |-> <<100, 101>>], [e |-> Sym("n")], [e |-> Bin("+", Sym("n"), Num(7))] >>],
    [k |-> "asciic", cs |-> << [u |-> <<1078, 1091>>], [e |-> Sym("n")] >>] }
RelocAlphabet ==       \* C09: even-sized statements; absolute (#a, @#b, .word a) and relative (a, br a) references
  { I0("nop"), I1("movi", A), I1("mova", B), I1("movr", A), I1("movr", B), I2("movrr", A, B), I2("movii", A, B),
    I2("movii", Bin("-", B, A), Bin("+", A, Num(2))), I1("clra", B), I1("br", A), I1("br", B), I1("sob", A),
    I1("movx", A), I1("movi", Bin("-", Dot, A)), I1("movr", Bin("+", Dot, Num(4))),
    W(<<A>>), W(<<B, Bin("-", B, A)>>), W(<<Dot, Bin("+", Bin("-", B, A), Bin("-", B, A))>>), Blkw(Num(2)),
    Lab("a"), Lab("b"), Const("c", Bin("+", A, Num(2))), W(<<Sym("c")>>), Rep(2, << I1("movr", A), W(<<Dot>>) >>), Inc(1), Inc(2),
    LabX("g"), I1("movr", Sym("x")), I1("br", Sym("x")), Inc(3), Inc(4), W(<< Num(2), Num(4), Num(6) >>), W(<< Num(3), A >>), W(<< Num(8), Num(16), Num(24) >>),      \* the first two are rendered as implicit word lists
    \* a position-independent skip (outside the premise of RelocationLaw, but every image is still predicted and compared at every base:
    \* the skip target lies above 0o100000 at the high bases)
    DotSet(Bin("+", Dot, Num(4))) }
RelocTwoAlphabet ==    \* C09: two linked files of one or two statements each (also files without anything that has to wait)
  { I0("nop"), Blkw(Num(1)), Lab("a"), LabX("g"), W(<<A>>), I1("movi", A), I1("movr", A), I1("movr", Sym("g")), W(<<Sym("g"), Dot>>) }
RelocCoreAlphabet ==   \* C09: few statements, all programs of 4: includes referring to each other behind / in front of code and labels
  { I0("nop"), Inc(1), Inc(2), Inc(3), Inc(4), LabX("g"), Lab("a"), I1("movr", A), W(<<A>>), I1("movr", Sym("x")), W(<< Num(2), Num(4), Num(6) >>) }
RelocIncFiles == << [name |-> "i1", body |-> << I0("nop"), LabX("x"), I0("nop"), I1("movr", Sym("g")), I1("mova", Sym("g")) >>],    \* x: a plain code label at a non-zero offset of its file, never used absolutely here
                    [name |-> "i2", body |-> << I0("nop"), Inc(1), I1("movr", Sym("x")), I1("movi", Sym("x")) >>],
                    [name |-> "i3", body |-> << I0("nop"), LabX("y"), I1("movr", Sym("x")), I1("br", Sym("x")) >>],
                    \* i4: a file whose FIRST statement is an include (the inner file's base is known only through the outer file's);
                    \* i5: a table that refers to its own labels absolutely and relatively
                    [name |-> "i4", body |-> << Inc(5), I0("nop"), LabX("z"), I1("movi", Sym("z")) >>],
                    [name |-> "i5", body |-> << Lab("t1"), W(<<Sym("t1")>>), Lab("t2"), W(<<Sym("t2"), Bin("-", Sym("t2"), Sym("t1"))>>), I1("movi", Bin("+", Sym("t2"), Num(2))),
                                                I1("movr", Sym("t2")) >>] >>

OrderAlphabet ==       \* C03: definition chains / diamonds / uses in every operand and directive position
  { Const("a", Bin("+", B, Num(1))), Const("b", Bin("*", Sym("c"), Num(2))), Const("c", Num(5)), Const("c", Bin("-", Sym("l"), Sym("m"))),
    Const("a", Bin("/", B, Num(2))), Const("b", Bin("+", A, Num(1))), Const("d", Bin("<<", Sym("c"), Num(1))),
    Lab("l"), Lab("m"), W(<<A>>), W(<<B, Sym("c")>>), By(<<Sym("c")>>), I1("movi", A), I1("mova", B), I1("movx", Sym("c")),
    I1("br", Bin("+", Dot, Sym("c"))), Blkb(Sym("c")), Blkb(B), [k |-> "align", e |-> Sym("c")], Rep(2, << W(<<A>>) >>),
    Rep(3, << I1("movr", Sym("c")) >>), Rep(2, << W(<< Bin("+", Dot, Sym("c")) >>), I1("br", Bin("+", Dot, Sym("c"))) >>),
    DotSet(Bin("+", Dot, Sym("c"))), W(<<Sym("d"), Bin("-", Sym("m"), Sym("l"))>>), I0("nop"),
    \* two symbols that both depend on one later label, combined; a product of two not yet known values
    Const("p", Bin("+", Sym("l"), Num(2))), Const("q", Bin("+", Sym("l"), Num(102))), W(<< Bin("-", Sym("q"), Sym("p")) >>),
    I1("movi", Bin("-", Bin("+", Sym("q"), Sym("q")), Bin("+", Sym("p"), Sym("p")))), W(<< Bin("*", Bin("+", A, Num(1)), B) >>),
    Blkb(Bin("*", Bin("+", Sym("c"), Num(1)), Sym("d"))) }

OrderTwoAlphabet ==    \* C03 across linked files: a name another file exports and this file also defines for itself, before or after its uses
  { ConstX("c", Num(13)), Const("c", Num(5)), LabX("l"), Lab("l"), W(<<Sym("c")>>), By(<<Sym("c")>>), Const("a", Bin("+", Sym("c"), Num(1))), W(<<A, Sym("l")>>),
    I1("movi", Sym("c")), Blkb(Sym("c")) }
OrderErrAlphabet ==    \* C03, success/failure half: definitions nobody uses whose value is an error (or not) depending on a symbol defined elsewhere
  { Const("z", Num(0)), Const("z", Num(4)), Const("lim", Sym("z")), Const("q1", Bin("+", Bin("/", Num(100), Sym("lim")), Num(1))),
    Const("q2", Neg(Bin("%", Num(100), Sym("lim")))), Const("q3", Bin("-", Bin("<<", Num(1), Bin("-", Sym("lim"), Num(1))), Num(1))),
    W(<<Sym("q1")>>), I0("nop"), Const("lim", Bin("-", Sym("z"), Num(4))) }
OrderCoreAlphabet ==   \* C03: the core of OrderAlphabet, small enough for all programs of 4 statements
  { Const("a", Bin("+", B, Num(1))), Const("b", Bin("*", Sym("c"), Num(2))), Const("c", Num(5)),
    Const("p", Bin("+", Sym("l"), Num(2))), Const("q", Bin("+", Sym("l"), Num(102))), Lab("l"),
    W(<< Bin("-", Sym("q"), Sym("p")) >>), W(<< A >>), W(<< Bin("*", Bin("+", A, Num(1)), B) >>), Blkb(Sym("c")), I1("movi", A), I0("nop"),
    I1("movx", Bin("-", Sym("q"), Sym("p"))), [k |-> "asciic", cs |-> << [u |-> <<1078, 1091>>], [e |-> Sym("c")], [e |-> Num(10)] >>],
    \* a repeat body that depends on its own address AND on a constant defined anywhere: copies 2.. must see their own '.'
    Rep(3, << I1("movr", Sym("c")) >>) }

ScopeAlphabet ==       \* C11: reused local and private names, all export forms, all orders
  { Lab("a"), LabX("a"), Lab("b"), Lab("1"), Lab("2"), Const("a", Num(7)), ConstX("a", Num(11)), Const("b", Num(13)),
    ConstX("b", Num(17)), W(<<A>>), W(<<B>>), W(<<Sym("1")>>), I1("br", Sym("1")), I1("br", Sym("2")), I1("movi", A),
    [k |-> "extern", ns |-> <<"a">>], [k |-> "extern", ns |-> <<"a", "b">>], [k |-> "externall"], Inc(1), Inc(2), I0("nop"),
    Rep(2, << I1("br", Sym("1")) >>) }
ScopeCoreAlphabet ==   \* C11: the core of ScopeAlphabet, small enough for all programs of 4 statements ('.extern all' behind reused local names, ...)
  { Lab("1"), Lab("a"), Lab("b"), LabX("a"), Const("b", Num(13)), [k |-> "externall"], W(<<Sym("1")>>), I1("br", Sym("1")), W(<<A, B>>) }
ScopeIncFiles == << [name |-> "i1", body |-> << W(<<A>>), Lab("b"), Lab("1"), I1("br", Sym("1")) >>],
                    [name |-> "i2", body |-> << LabX("a"), W(<<B>>) >>] >>

S == Sym("s")
E == Sym("e")
K == Num(1024)
LinkAlphabet ==        \* C12: .link / leading '. =' with expressions whose dependence on the base cancels, or does not
  { Link(K), Link(Num(-2)), Link(Bin("+", K, Bin("-", E, S))), Link(Bin("+", K, Bin("*", Num(2), Bin("-", E, S)))),
    Link(Bin("+", Bin("/", Bin("-", E, S), Num(2)), K)), Link(Bin("+", K, Bin("<<", Bin("-", E, S), Num(1)))),
    Link(Bin("+", K, Sym("k"))), Link(E), Link(Bin("/", E, Num(2))), Link(Bin("-", Bin("+", K, E), Num(2))), Link(Bin("+", Dot, Num(8))),
    Link(Bin("-", Bin("<<", E, Num(1)), Bin("<<", S, Num(1)))), Link(Bin(">>", Bin("-", E, S), Num(0))),
    Link(Bin("-", Bin("-", Bin("+", K, Bin("*", Num(2), E)), S), S)), Link(Bin("-", Bin("+", K, Bin("*", Num(2), E)), S)),
    Link(Bin("-", Bin("+", K, Bin("*", E, Num(3))), Bin("*", Num(3), S))),
    DotSet(K), DotSet(Bin("+", K, Bin("-", E, S))), DotSet(Bin("+", Dot, Num(3))), DotSet(Bin("+", S, Num(8))), DotSet(Bin("-", Dot, Num(2))),
    DotSet(Bin("+", Dot, Num(0))), DotSet(Bin("+", S, Num(64))),
    Const("k", Bin("-", E, S)), Lab("s"), Lab("e"), I0("nop"), W(<<S, E>>), Blkb(Num(3)), By(<<Num(1)>>) }

LinkAliasAlphabet ==   \* C12: the cancelling label reached through a chain of aliases ('a = b', 'b = c', 'c = s'), defined before or after the labels
  { Link(Bin("-", Bin("+", K, S), Sym("a"))), Link(Bin("-", Bin("+", K, E), Sym("a"))), Const("a", Sym("b")), Const("b", S), Const("b", Sym("c")), Const("c", S),
    Lab("s"), Lab("e"), I0("nop") }
LinkTopAlphabet ==     \* C12: images at the top of the address space, negative targets and bases (addresses are taken modulo 2^16)
  { Link(Num(65472)), Link(Num(-64)), DotSet(Num(-32)), DotSet(Num(-2)), DotSet(Num(65504)), DotSet(Bin("-", S, E)), DotSet(Bin("-", Num(0), Num(48))),
    Lab("s"), Lab("e"), I0("nop"), W(<<E>>), Blkb(Num(3)),
    Link(BadNum(1980)), DotSet(BadNum(2900)) }      \* a base written with a digit 8 or 9 is an error, not the decimal reading
LinkPadAlphabet ==     \* C12: labels behind a padding whose size is unknown while the base is: it cancels in a difference of two such labels
  { Link(Bin("+", K, Bin("-", E, S))), Link(Bin("+", Bin("-", K, E), S)), Link(Bin("-", K, Bin("*", Num(2), Bin("-", E, S)))),
    [k |-> "even"], [k |-> "align", e |-> Num(4)], By(<<Num(1)>>), Lab("s"), Lab("e"), W(<<S>>), Inc(1), Inc(6) }
LinkCondAlphabet ==    \* C12: the base set inside a conditionally assembled block ('.repeat flag { .link X }', flag defined before or after)
  { RepC(1, "on", << Link(K) >>), RepC(0, "off", << Link(Num(2048)) >>), RepC(1, "on", << DotSet(K) >>), RepC(1, "on", << Link(Bin("+", K, Num(6))) >>),
    Rep(1, << Link(K) >>), Const("on", Num(1)), Const("off", Num(0)), Lab("s"), Lab("e"), W(<<S>>), I0("nop") }
LinkCoreAlphabet ==    \* C12: the core of LinkAlphabet, small enough for all programs of 4 statements (labels and code on both sides of the directive)
  { Link(Bin("+", K, Bin("-", E, S))), Link(Bin("-", Bin("<<", E, Num(1)), Bin("<<", S, Num(1)))), Link(Bin("-", Bin("-", Bin("+", K, Bin("*", Num(2), E)), S), S)),
    Link(E), DotSet(Bin("+", K, Bin("-", E, S))), DotSet(Bin("+", Dot, Num(3))), Lab("s"), Lab("e"), I0("nop"), Blkb(Num(3)), W(<<S, E>>) }

StructAlphabet ==      \* C16: .repeat bodies (own '.', impure operators, hoisted index expressions, local labels), insert_file, .end, .once
  { Rep(0, << I0("nop") >>), Rep(1, << W(<<Dot>>) >>), Rep(3, << W(<< Bin("/", Dot, Num(2)) >>) >>), Rep(2, << W(<< Bin("%", Dot, Num(4)), Bin("<<", Dot, Num(1)), Bin(">>", Dot, Num(1)) >>) >>),
    Rep(2, << I1("movx", Bin("+", Num(2), Num(2))) >>), Rep(2, << I1("movx", Bin("+", Sym("c"), Num(2))), I1("movr", Dot) >>),
    Rep(2, << I1("movx", Neg(Sym("c"))) >>), Rep(3, << I1("movx", Bin("+", Neg(Sym("c")), Num(2))), By(<< Num(1) >>) >>),
    I1("movx", Bin("+", Sym("c"), Bin("*", Num(2), Num(3)))), Rep(2, << I1("movx", Bin("-", Sym("c"), Bin("*", Num(2), Sym("c")))) >>),
    Rep(2, << I1("br", Sym("1")) >>), Rep(2, << Rep(2, << W(<<Dot>>), By(<<Num(1)>>) >>) >>), Rep(3, << [k |-> "even"], By(<< Bin("-", Dot, A) >>) >>),
    Rep(2, << I1("movi", Bin("/", Bin("-", Dot, A), Num(2))), I1("sob", A) >>), Rep(2, << Blkb(Bin("%", Dot, Num(4))) >>),
    Rep(2, << Lab("z") >>), Rep(2, << Const("z", Num(1)) >>), Rep(3, << W(<<>>), I0("nop") >>), Rep(2, << By(<<>>), [k |-> "dword", es |-> <<>>] >>),
    [k |-> "insert", len |-> 0], [k |-> "insert", len |-> 7], [k |-> "insert", len |-> 300],
    \* added after the second seeding round: an inserted file named "d.bin" next to the main file (7 bytes) while the included file i3
    \* lives in a sub-directory and inserts ITS "d.bin" (5 other bytes); an includable '.once' file that is also linked
    [k |-> "insert", len |-> 7, nm |-> "d"], Inc(3), [k |-> "linkinc", f |-> 1], [k |-> "linkinc", f |-> 3],
    [k |-> "end"], Inc(1), Inc(2), Lab("a"), Lab("1"), Const("c", Num(3)), I0("nop"), W(<<A, Dot>>), By(<<Num(5)>>) }
StructDirAlphabet ==   \* C16: the directory- and command-line-related part of StructAlphabet, small enough for all 2-file programs
  { [k |-> "insert", len |-> 7, nm |-> "d"], [k |-> "insert", len |-> 7], Inc(1), Inc(3), [k |-> "linkinc", f |-> 1], [k |-> "linkinc", f |-> 3],
    I0("nop"), By(<<Num(5)>>), Rep(2, << [k |-> "insert", len |-> 7, nm |-> "d"] >>), Rep(2, << Inc(3) >>), Inc(4) }
StructLateAlphabet ==  \* C16: blocks whose count is defined further down (the body is compiled late, while its own size is asked for) that refer to labels behind them
  { RepC(2, "cnt", << I1("br", A) >>), RepC(2, "cnt", << I1("br", B), W(<<A>>) >>), RepC(1, "on", << I1("sob", A) >>), RepC(0, "off", << I1("br", B) >>),
    RepC(1, "on", << I1("movr", B), By(<<Num(1)>>), [k |-> "even"] >>), RepC(2, "cnt", << I1("br", Bin("+", Dot, Num(4))), I1("clra", A) >>),
    Const("cnt", Num(2)), Const("on", Num(1)), Const("off", Num(0)), Lab("a"), Lab("b"), I0("nop"), W(<<B>>) }
StructBigAlphabet ==   \* C16: large repeat counts (the property's n <= 40), kept out of the exhaustive alphabet for size
  { Rep(40, << By(<< Bin("-", Dot, A) >>) >>), Rep(17, << W(<< Dot >>), I1("movr", A) >>), Rep(33, << Rep(2, << [k |-> "even"], By(<< Num(1) >>) >>) >>),
    Rep(33, << Inc(1) >>), Rep(31, << Inc(2) >>),      \* one file included more than thirty times (a '.once' file contributes once, another one every time)
    Lab("a"), I0("nop"), By(<< Num(5) >>) }
StructIncFiles == << [name |-> "i1", body |-> << [k |-> "once"], LabX("x"), W(<< Sym("x"), Dot >>) >>],
                     [name |-> "i2", body |-> << W(<< Dot >>), [k |-> "end"], W(<< Sym("undefined") >>) >>],
                     [name |-> "i3", dir |-> "sub", body |-> << [k |-> "insert", len |-> 5, nm |-> "d"], By(<< Num(9) >>) >>],
                     \* a file in the sub-directory that includes its neighbour ("i3.mac") and a file of the parent directory ("../i2.mac")
                     [name |-> "i4", dir |-> "sub", body |-> << Inc(3), By(<< Num(4) >>), Inc(2) >>] >>

ListAlphabet ==        \* C19: ordinary symbols of any value (negative, > 16 bit, > 18 bit, equal values), dotted names, labels, exports, includes
  { Lab("a"), Lab("b"), LabX("c"), Lab("1"), Const("n", Num(-5)), Const("big", Num(70000)), Const("z", Num(0)), ConstX("m", Bin("-", B, A)),
    Const("n2", Num(-9)), Const("page", Num(262144)), Const("top", Num(65535)), Lab("buf.s"), Lab("buf.e"), Const("buf.len", Bin("-", Sym("buf.e"), Sym("buf.s"))),
    Const("a", Num(3)), Const("b", Num(512)), I0("nop"), W(<<A, B>>), Blkb(Num(3)), By(<<Num(1)>>), Inc(1), Inc(2), [k |-> "externall"],
    \* equal values whose names order differently as written and with the letter case folded
    Const("Zed", Num(3)), Const("IOB", Num(512)), Const("IO_BASE", Num(512)),
    \* a string whose size is announced before its contents are known (non-ASCII text under utf-8, a chunk naming a later symbol)
    [k |-> "asciic", cs |-> << [u |-> <<1078, 1091, 1078>>], [e |-> Sym("z")] >>],
    \* a word list that is one constant (the harness spells it as the bare name when the constant is assigned above it)
    W(<< Sym("top") >>) }
ListIncFiles == << [name |-> "i1", body |-> << Lab("x"), I0("nop"), Lab("a"), Const("n", Num(9)) >>],
                   [name |-> "i2", body |-> << Const("q", Num(-70000)), LabX("y"), By(<<Num(2)>>) >>] >>

LayoutCoreAlphabet ==  \* C02: the core of LayoutAlphabet, small enough for all programs of 4 statements
  { I0("nop"), I1("movi", A), I1("movr", A), W(<<A, Dot>>), W(<<>>), By(<< Num(1) >>), Blkb(Sym("n")), [k |-> "even"], [k |-> "align", e |-> Num(4)],
    [k |-> "ascii", bs |-> <<65, 66, 67>>], Lab("a"), Const("n", Num(3)), DotSet(Bin("+", Dot, Num(5))), Rep(2, << W(<< B >>), [k |-> "ascii", bs |-> <<72, 105>>] >>),
    Inc(2), Lab("b"), [k |-> "asciic", cs |-> << [e |-> Sym("n")], [q |-> <<100, 101>>], [e |-> Num(10)] >>],
    [k |-> "asciic", cs |-> << [u |-> <<1078, 1091, 233>>], [e |-> Sym("n")] >>] }
LayoutThreeAlphabet == \* C02: three linked files of one or two statements each, the earlier ones free of anything that has to wait
  { I0("nop"), By(<< Num(1), Num(2) >>), Lab("a"), W(<<A, Dot>>) }
LayoutIncAlphabet ==   \* C02: an include whose file name is only known after a later symbol (the directive stays pending; everything behind it moves)
  { IncC(2, "sx"), IncC(1, "sy"), Const("sx", Num(50)), Const("sy", Num(49)), Lab("a"), W(<<A, Dot>>), I1("movr", A), By(<< Num(1) >>), [k |-> "even"], Inc(2), Inc(5) }
LayoutIncFiles == << [name |-> "i1", body |-> << Lab("x"), W(<< Sym("x"), Dot >>), By(<< Num(7) >>) >>],
                     [name |-> "i2", body |-> << W(<< Sym("y") >>), [k |-> "ascii", bs |-> <<79, 75, 33>>], Lab("y"), By(<< Bin("-", Dot, Sym("y")) >>) >>],
                     [name |-> "i3", body |-> << By(<< Num(3) >>), Inc(2), [k |-> "even"], Lab("z"), W(<< Sym("z"), Dot >>) >>],          \* include depth 2
                     [name |-> "i4", body |-> << Lab("w"), Inc(3), I1("movr", Sym("w")), Blkb(Num(1)) >>],                                 \* include depth 3
                     \* i5: starts with a block whose length depends on where the file stands, and has a block that is assembled late
                     \* (its count is defined below it) with statements that do and do not look at '.'
                     [name |-> "i5", body |-> << Rep(1, << By(<< Num(1) >>), [k |-> "even"] >>),
                                                 RepC(2, "cnt", << By(<< Num(170) >>), [k |-> "even"], W(<< Dot >>), By(<< Num(187) >>) >>),
                                                 Const("cnt", Num(2)) >>],
                     \* i6: its first statement is an exported label (the label is the file's own base)
                     [name |-> "i6", body |-> << LabX("s"), W(<< Num(2), Num(3) >>) >>] >>

(* ------------------------------------------------------------------ TLC writes the program *)
Stmts(fs)  == Concat(fs)
Count(fs, P(_)) == Cardinality({ <<q, r>> \in (DOMAIN fs) \X (1..MaxStmts) : r \in DOMAIN fs[q] /\ P(fs[q][r]) })
Sized(s)   == s.k \notin {"label", "const", "extern", "externall", "link", "dotset", "once"}
BaseSet(fs) == HarnessLink \/ \E q \in DOMAIN fs : \E r \in DOMAIN fs[q] : fs[q][r].k \in {"link", "dotset"}
Last(fs)   == fs[Len(fs)]

Guard(fs, s) ==
    /\ s.k = "dotset" => (BaseSet(fs) \/ \A q \in DOMAIN fs : \A r \in DOMAIN fs[q] : ~Sized(fs[q][r]))
    /\ s.k = "link" => Count(fs, LAMBDA t : t.k \in {"link"}) < 2
    /\ s.k = "externall" => ~\E r \in DOMAIN Last(fs) : Last(fs)[r].k = "externall"
    /\ s.k = "end" => ~\E r \in DOMAIN Last(fs) : Last(fs)[r].k = "end"
    /\ s.k = "linkinc" => (Len(fs) >= 2 /\ Last(fs) = <<>>)          \* a linked includable file is a whole file of its own, not the first
    /\ (Last(fs) # <<>> /\ Last(fs)[1].k = "linkinc") => FALSE

ASSUME PrintT(ToJson([incfiles |-> IncFiles]))      \* the harness needs the include-file pool to render programs

(* "given" mode: the programs are not written by TLC but read from a JSON file (IOEnv.PROGRAMS = path, a sequence of
   programs, each a sequence of files); MaxStmts = MaxFiles = 0 then disables Next.  This makes the same semantics the
   oracle for large harness-generated programs (60 statements, 20+ scopes), which BFS cannot reach.                  *)
GivenPrograms == IF "PROGRAMS" \in DOMAIN IOEnv /\ IOEnv.PROGRAMS # "" THEN JsonDeserialize(IOEnv.PROGRAMS) ELSE <<>>
Init == IF MaxStmts = 0 THEN files \in { GivenPrograms[q] : q \in DOMAIN GivenPrograms } ELSE files = << <<>> >>
AddStmt == \E s \in Alphabet : /\ Len(Last(files)) < MaxStmts
                               /\ Guard(files, s)
                               /\ files' = [files EXCEPT ![Len(files)] = Append(@, s)]
NewFile == /\ Len(files) < MaxFiles /\ Last(files) # <<>>
           /\ files' = Append(files, <<>>)
Next == AddStmt \/ NewFile
Spec == Init /\ [][Next]_vars

(* ------------------------------------------------------------------ design-level properties (role D)
   All clauses are evaluated on one evaluation of the program (r == Eval(files)); the exported record carries
   the verdict of each clause, and the invariant `Inv` is their conjunction.                                *)

(* C02: in an accepted program the image is the concatenation of what the statements produced, each statement's
   bytes lie at the address it was given, announced sizes are honest, every label equals base + bytes before it *)
AddressAgreement(r) ==
    r.ok => \A b \in r.bases : LET x == r.runs[b] IN
               /\ Len(x.image) = (IF Len(x.sizes) = 0 THEN 0 ELSE x.offs[Len(x.offs)] + x.sizes[Len(x.sizes)])
               /\ \A i \in DOMAIN x.sizes : x.lens[i] = x.sizes[i]
               /\ \A y \in x.syms : y.label => y.value = b + y.off
AnnouncedSizeHonest(r) ==
    r.ok => LET its == Normalise(r.items) IN
            \A b \in r.bases : \A i \in DOMAIN its :
               LET a == Announced(its[i].s) IN (a # -1) => a = r.runs[b].sizes[i]

(* C09: for programs whose statements all have even, base-independent sizes, the images at two bases have the
   same length and differ, word by word, either not at all or by exactly the difference of the bases *)
EvenSized(items) == \A i \in DOMAIN items : items[i].s.k \notin {"even", "odd", "align", "skip", "dotset", "byte", "ascii", "asciic", "insert", "blkb"}
(* the law speaks of words holding an address; an address scaled by * / % << >> is not one (conservative syntactic test) *)
RECURSIVE Mentions(_), Scaled(_)
Mentions(e) == CASE e.t \in {"sym", "dot"} -> TRUE [] e.t = "num" -> FALSE [] e.t = "neg" -> Mentions(e.e)
                 [] e.t = "bin" -> Mentions(e.l) \/ Mentions(e.r)
Scaled(e)   == CASE e.t \in {"sym", "dot", "num"} -> FALSE [] e.t = "neg" -> Mentions(e.e)
                 [] e.t = "bin" -> \/ (e.op \in {"*", "/", "%", "<<", ">>"} /\ (Mentions(e.l) \/ Mentions(e.r)))
                                   \/ Scaled(e.l) \/ Scaled(e.r)
StmtExprs(s) == (IF "e" \in DOMAIN s THEN {s.e} ELSE {}) \cup (IF "e2" \in DOMAIN s THEN {s.e2} ELSE {})
                \cup (IF "es" \in DOMAIN s THEN {s.es[q] : q \in DOMAIN s.es} ELSE {})
NoScaling(items) == \A i \in DOMAIN items : \A e \in StmtExprs(items[i].s) : ~Scaled(e)
WordAt(img, w) == img[2 * w - 1] + 256 * img[2 * w]
RelocationLaw(r) ==
    (r.ok /\ EvenSized(r.items) /\ NoScaling(r.items)) =>
        \A b1, b2 \in r.bases :
            LET i1 == r.runs[b1].image
                i2 == r.runs[b2].image IN
            /\ Len(i1) = Len(i2)
            /\ \A w \in 1..(Len(i1) \div 2) : Mod(WordAt(i2, w) - WordAt(i1, w), 65536) \in {0, Mod(b2 - b1, 65536)}

(* C12: a base the program sets for itself is a 16-bit number *)
LinkBaseWellDefined(r) == r.own.st = "ok" => r.own.v \in 0..65535

(* C03: moving a constant definition `name = expr` (expr not mentioning '.') to any other top-level position of its
   file (no .end in the file) changes neither the outcome nor the image *)
RECURSIVE HasDot(_)
HasDot(e) == CASE e.t = "dot" -> TRUE [] e.t \in {"num", "sym"} -> FALSE [] e.t = "neg" -> HasDot(e.e)
               [] e.t = "bin" -> HasDot(e.l) \/ HasDot(e.r)
Without(f, j)   == [q \in 1..(Len(f) - 1) |-> IF q < j THEN f[q] ELSE f[q + 1]]
InsertAt(f, k, s) == [q \in 1..(Len(f) + 1) |-> IF q < k THEN f[q] ELSE IF q = k THEN s ELSE f[q - 1]]
SameMeaning(r, r2) == /\ r2.ok = r.ok
                      /\ r.ok => \A b \in r.bases : b \in r2.bases /\ r2.runs[b].image = r.runs[b].image
MoveInvariant(r) ==
    ("moves" \in Extra /\ Len(files) = 1 /\ ~\E q \in DOMAIN files[1] : files[1][q].k = "end") =>
        LET f == files[1] IN
        \A j \in DOMAIN f : (f[j].k = "const" /\ ~HasDot(f[j].e)) =>
            \A k \in DOMAIN f : k # j => SameMeaning(r, Eval(<< InsertAt(Without(f, j), k, f[j]) >>))

(* C16: linking files that share no names and do not end early means what their concatenation means *)
TopNames(f)  == { f[q].n : q \in { x \in DOMAIN f : f[x].k \in {"label", "const"} } }
UsesLocals(f) == \E q \in DOMAIN f : (f[q].k = "label" /\ IsLocalName(f[q].n)) \/ (f[q].k = "repeat")
CatOK(fs) == /\ Len(fs) >= 2
             /\ \A q \in DOMAIN fs : ~UsesLocals(fs[q]) /\ ~\E x \in DOMAIN fs[q] : fs[q][x].k \in {"end", "once", "include", "extern", "externall", "linkinc"}
             /\ \A q1, q2 \in DOMAIN fs : q1 # q2 => TopNames(fs[q1]) \cap TopNames(fs[q2]) = {}
LinkIsConcatenation(r) ==
    ("concat" \in Extra /\ r.ok /\ CatOK(files)) => SameMeaning(r, Eval(<< Concat(files) >>))

(* C19: the listing shows, under each source file's name, every ordinary symbol of that file with its final value, ordered by
   value and then by name *)
(* names compare as the strings they are listed as (upper-case letters before '_' before lower-case letters) *)
NameRank(n) == CASE n = "IOB" -> -3 [] n = "IO_BASE" -> -2 [] n = "Zed" -> -1 [] n = "a" -> 1 [] n = "b" -> 2 [] n = "big" -> 3 [] n = "buf.e" -> 4 [] n = "buf.len" -> 5 [] n = "buf.s" -> 6 [] n = "c" -> 7
                 [] n = "m" -> 8 [] n = "n" -> 9 [] n = "n2" -> 10 [] n = "page" -> 11 [] n = "q" -> 12 [] n = "top" -> 13
                 [] n = "x" -> 14 [] n = "y" -> 15 [] n = "z" -> 16 [] OTHER -> 17
Before(p, q) == p.value < q.value \/ (p.value = q.value /\ NameRank(p.name) <= NameRank(q.name))
RECURSIVE SetAsSeq(_)
SetAsSeq(ss) == IF ss = {} THEN <<>> ELSE LET x == CHOOSE y \in ss : TRUE IN <<x>> \o SetAsSeq(ss \ {x})
ListingOf(run) ==       \* the symbols are kept per definition (inst distinguishes two inclusions of one file)
    LET fnames == { y.file : y \in run.syms } IN
    { [file |-> f, lines |-> LET srt == SortSeq(SetAsSeq({ y \in run.syms : y.file = f }), Before) IN
                             [q \in DOMAIN srt |-> [name |-> srt[q].name, value |-> srt[q].value]]] : f \in fnames }
ListingSorted(r) ==
    r.ok => \A b \in r.bases : \A sec \in ListingOf(r.runs[b]) :
               \A q \in 1..(Len(sec.lines) - 1) : sec.lines[q].value <= sec.lines[q + 1].value

Verdicts(r) == [ls |-> ListingSorted(r), aa |-> AddressAgreement(r), ash |-> AnnouncedSizeHonest(r), rl |-> RelocationLaw(r), lb |-> LinkBaseWellDefined(r),
                mv |-> MoveInvariant(r), lc |-> LinkIsConcatenation(r)]

(* ------------------------------------------------------------------ export for replay + invariant *)
Inv == LET r == Eval(files)
           v == Verdicts(r) IN
       /\ PrintT(ToJson([files |-> files, ok |-> r.ok, cyc |-> r.cyc, skip |-> r.skip,
                         own |-> r.own.st, insts |-> r.insts, chk |-> v, catok |-> (r.ok /\ CatOK(files)),
                         runs |-> { [base |-> b, image |-> r.runs[b].image, ok |-> r.runs[b].ok,
                                     syms |-> r.runs[b].syms, lst |-> ListingOf(r.runs[b])] : b \in r.bases }]))
       /\ v.aa /\ v.ash /\ v.rl /\ v.lb /\ v.mv /\ v.lc /\ v.ls
=============================================================================
