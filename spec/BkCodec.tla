------------------------------- MODULE BkCodec -------------------------------
(* The BK-0010 output charset 'bk' (property C14).

   Decode is a map from the 256 byte values to Unicode code points with
       Decode(b) = Ascii(b) = b          for b in 0x00..0x7E,
       Decode(b) = Koi8r(b)              for b in 0xC0..0xFF  (the KOI8-R letters),
       0x7F..0xBF (block, control codes, pseudo-graphics) unconstrained,
       Decode injective;
   Encode is its inverse, plus ONE documented alias: U+00A4 (currency sign) may encode to 0x24
   (the BK shows the currency sign in the cell of '$'); every other code point is refused.

   Koi8rTable was generated ONCE from Python's standard 'koi8_r' codec
   (bytes([b]).decode("koi8_r") for b in 0xC0..0xFF) -- a standards-derived source independent of
   pdpy11/bk_encoding.py -- and is committed here; the check asserts at run time that it still
   equals Python's codec.

   String level (M->C): EncodeStr scans a string of code points: all encodable => the bytes;
   otherwise an encoding error whose (start, end) = (index of the first refused item, index of the
   last refused item + 1), 0-based.  TLC enumerates all strings up to MaxItems over Items.

   The monitor operators (names starting with Mon) are used by BkCodecTrace.tla on the exhaustive enumeration of the
   real codec.                                                                                   *)
EXTENDS Naturals, Sequences, FiniteSets, TLC, Json

CONSTANTS Items,       \* set of code points strings are built from
          MaxItems

Koi8rTable == <<
    1102, 1072, 1073, 1094, 1076, 1077, 1092, 1075,
    1093, 1080, 1081, 1082, 1083, 1084, 1085, 1086,
    1087, 1103, 1088, 1089, 1090, 1091, 1078, 1074,
    1100, 1099, 1079, 1096, 1101, 1097, 1095, 1098,
    1070, 1040, 1041, 1062, 1044, 1045, 1060, 1043,
    1061, 1048, 1049, 1050, 1051, 1052, 1053, 1054,
    1055, 1071, 1056, 1057, 1058, 1059, 1046, 1042,
    1068, 1067, 1047, 1064, 1069, 1065, 1063, 1066 >>

AsciiBytes == 0..126
KoiBytes   == 192..255
FreeBytes  == 127..191

Ascii(b) == b
Koi8r(b) == Koi8rTable[b - 191]
DecodeFixed(b) == IF b \in AsciiBytes THEN Ascii(b) ELSE Koi8r(b)        \* b \in AsciiBytes \cup KoiBytes

AliasCp   == 164       \* U+00A4
AliasByte == 36        \* '$'

ASSUME Len(Koi8rTable) = 64
ASSUME \A i, j \in 1..64 : i # j => Koi8rTable[i] # Koi8rTable[j]
ASSUME \A i \in 1..64 : Koi8rTable[i] \in 1040..1103           \* the Cyrillic block, disjoint from ASCII

Fixed(cp) == cp \in AsciiBytes \/ \E b \in KoiBytes : Koi8r(b) = cp
EncodeFixed(cp) == IF cp \in AsciiBytes THEN cp ELSE CHOOSE b \in KoiBytes : Koi8r(b) = cp

(* The free cells hold the BK block character, control codes and pseudo-graphics.  The string model
   only uses refused characters that cannot be such a cell by the BK-0010 character set description:
   not Latin-1 0x7F..0xBF, not arrows, box drawing, block elements, geometric shapes, misc symbols. *)
MayBeFree(cp) == cp \in 127..191 \/ cp \in 8592..8703 \/ cp \in 9472..9983
MustRefuse(cp) == ~Fixed(cp) /\ ~MayBeFree(cp)

ASSUME \A cp \in Items : Fixed(cp) \/ MustRefuse(cp)

(* ------------------------------------------------------------------ strings *)
Min(S) == CHOOSE x \in S : \A y \in S : x <= y
Max(S) == CHOOSE x \in S : \A y \in S : x >= y

EncodeStr(s) ==
    LET bad == { i \in 1..Len(s) : MustRefuse(s[i]) } IN
    IF bad = { } THEN [ ok |-> TRUE, bytes |-> [ i \in 1..Len(s) |-> EncodeFixed(s[i]) ], start |-> 0, end |-> 0 ]
    ELSE [ ok |-> FALSE, bytes |-> << >>, start |-> Min(bad) - 1, end |-> Max(bad) ]

(* MACRO-11 character literals: 'c is the byte; "cc has the first character in the low byte *)
CharWord(bytes) == IF Len(bytes) = 1 THEN bytes[1] ELSE bytes[1] + 256 * bytes[2]

VARIABLES items
vars == << items >>

Init == items = << >>
Next == Len(items) < MaxItems /\ \E c \in Items : items' = Append(items, c)
Spec == Init /\ [][Next]_vars

(* role (D): the scanner is sound *)
ScanOK == LET o == EncodeStr(items) IN
          IF o.ok THEN /\ Len(o.bytes) = Len(items)
                       /\ \A i \in 1..Len(items) : o.bytes[i] \in AsciiBytes \cup KoiBytes /\ DecodeFixed(o.bytes[i]) = items[i]
          ELSE /\ 0 <= o.start /\ o.start < o.end /\ o.end <= Len(items)
               /\ MustRefuse(items[o.start + 1]) /\ MustRefuse(items[o.end])
               /\ \A i \in 1..Len(items) : (i <= o.start \/ i > o.end) => Fixed(items[i])
RoundTripFixed == \A b \in AsciiBytes \cup KoiBytes : Fixed(DecodeFixed(b)) /\ EncodeFixed(DecodeFixed(b)) = b

ExportString == LET o == EncodeStr(items) IN
                PrintT(ToJson([ k |-> "S", items |-> items, ok |-> o.ok, bytes |-> o.bytes, start |-> o.start, end |-> o.end,
                                word |-> IF o.ok /\ Len(items) \in { 1, 2 } THEN CharWord(o.bytes) ELSE 0,
                                \* the literal taken apart again: its high byte is the second character's byte (an unsigned quantity)
                                hi |-> IF o.ok /\ Len(items) \in { 1, 2 } THEN CharWord(o.bytes) \div 256 ELSE 0 ]))
ExportTable == Len(items) = 0 => PrintT(ToJson([ k |-> "T", koi |-> Koi8rTable ]))

(* ------------------------------------------------------------------ monitor for the enumerated codec
   x = [ dec |-> 256 code points (Decode of byte 0..255),
         ev  |-> flat list of triples  lo, hi, b  sorted by lo and covering 0..65535:
                 b < 256: code point lo (= hi) encodes to byte b;  b = 256: lo..hi are refused ]
   monitor state m = [ k (next triple), cur (next code point), seen (bytes b with Encode(Decode(b)) = b observed), why ] *)
M0 == [ k |-> 1, cur |-> 0, seen |-> { }, ph |-> "Run", why |-> "" ]
NTrip(x) == Len(x.ev) \div 3
Dec(x, b) == x.dec[b + 1]

MonStatic(x) ==
    IF Len(x.dec) # 256 THEN "decode table does not have 256 entries"
    ELSE IF \E b \in AsciiBytes : Dec(x, b) # Ascii(b) THEN "Decode differs from ASCII on 0x00..0x7E"
    ELSE IF \E b \in KoiBytes : Dec(x, b) # Koi8r(b) THEN "Decode differs from KOI8-R on 0xC0..0xFF"
    ELSE IF \E a, b \in 0..255 : a # b /\ Dec(x, a) = Dec(x, b) THEN "Decode is not injective"
    ELSE ""

MonFail(m, w) == [ m EXCEPT !.ph = "Reject", !.why = w ]

MonNext(m, x) ==
    IF m.k = 1 /\ MonStatic(x) # "" THEN MonFail(m, MonStatic(x))
    ELSE IF m.k > NTrip(x) THEN
        IF m.cur # 65536 THEN MonFail(m, "enumeration does not cover all 65536 code points")
        ELSE IF m.seen # 0..255 THEN MonFail(m, "Encode(Decode(b)) # b for some byte")
        ELSE [ m EXCEPT !.ph = "Done" ]
    ELSE
    LET lo == x.ev[3 * m.k - 2]
        hi == x.ev[3 * m.k - 1]
        b  == x.ev[3 * m.k]
    IN  IF lo # m.cur \/ hi < lo THEN MonFail(m, "enumeration is not contiguous")
        ELSE IF b < 256 THEN
            IF lo # hi THEN MonFail(m, "malformed accepted event")
            ELSE IF Dec(x, b) = lo THEN [ m EXCEPT !.k = @ + 1, !.cur = hi + 1, !.seen = @ \cup { b } ]
            ELSE IF lo = AliasCp /\ b = AliasByte THEN [ m EXCEPT !.k = @ + 1, !.cur = hi + 1 ]
            ELSE MonFail(m, "a code point encodes to a byte that does not decode to it (undocumented alias)")
        ELSE \* refused range: nothing to check here; a refused Decode(b) is caught by 'seen' at the end
            [ m EXCEPT !.k = @ + 1, !.cur = hi + 1 ]

MonAccepts(m) == m.ph = "Done"
=============================================================================
