----------------------------- MODULE BkCodecTrace -----------------------------
(* (C->M, exhaustive) for C14: the harness enumerates the REAL 'bk' codec completely --
   bytes([b]).decode("bk") for the 256 bytes, chr(c).encode("bk") for all 65536 BMP code points
   (a byte, or UnicodeEncodeError = refused) -- and writes a JSON array of records
       [ id, dec (256 code points), ev (flat triples lo, hi, b; b = 256: lo..hi refused) ]
   to TRACE_FILE.  The monitor of BkCodec.tla walks over the events:
       Decode = ASCII on 0x00..0x7E, = KOI8-R on 0xC0..0xFF, Decode injective;
       every accepted code point cp |-> b has Decode(b) = cp, or (cp, b) is the documented alias;
       every byte b is reached back from Decode(b) (so Encode(Decode(b)) = b);
       the events cover 0..65535 without gap, i.e. every other code point was refused.
   Record 1 is the real codec; further records are corrupted copies that must be rejected
   (self-test of the binding).                                                                   *)
EXTENDS Naturals, Sequences, FiniteSets, TLC, Json, IOUtils, SequencesExt

Traces == JsonDeserialize(IOEnv.TRACE_FILE)

VARIABLES tid, m
vars == << tid, m >>

C == INSTANCE BkCodec WITH Items <- { }, MaxItems <- 0, items <- << >>

ASSUME TLCSet(1, { })

Init == tid \in 1..Len(Traces) /\ m = C!M0
Next == m.ph = "Run" /\ m' = C!MonNext(m, Traces[tid]) /\ UNCHANGED tid
Spec == Init /\ [][Next]_vars

Accepted == C!MonAccepts(m) => TLCSet(1, TLCGet(1) \cup { Traces[tid].id })
Verdict  == m.ph # "Run" => PrintT(ToJson([ k |-> "V", id |-> Traces[tid].id, ok |-> C!MonAccepts(m), why |-> m.why,
                                             at |-> m.k, cp |-> m.cur, nseen |-> Cardinality(m.seen) ]))
Post == PrintT(ToJson([ k |-> "P", n |-> Len(Traces), accepted |-> SetToSeq(TLCGet(1)) ]))
=============================================================================
