------------------------------- MODULE Chain -------------------------------
(* C03: definition chains  c0 = 5,  c_i = F(c_{i-1})  of any length.  The value of c_n does not depend on the order in
   which the n+1 definitions are written; TLC computes it by iterating F (a behaviour of length n), the harness writes
   the definitions forward, backward and shuffled and reads c_n back from the real assembler.
   Kind "add": F(x) = x + 3 (additive chain, depth up to 300);  Kind "nl": F(x) = ((x * 3) / 2) % 1000 + 1 (chain through
   the non-linear operators * / %, depth up to 30).                                                                  *)
EXTENDS Integers, TLC, Json
CONSTANTS MaxN, Kind
VARIABLES i, v
F(x) == IF Kind = "add" THEN x + 3 ELSE (((x * 3) \div 2) % 1000) + 1
Init == i = 0 /\ v = 5
Next == i < MaxN /\ i' = i + 1 /\ v' = F(v)
Spec == Init /\ [][Next]_<<i, v>>
Bounded == v \in 0..65535
Export == PrintT(ToJson([i |-> i, v |-> v, kind |-> Kind]))
=============================================================================
