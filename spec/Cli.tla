-------------------------------- MODULE Cli --------------------------------
(* The pdpy11 command line as a phase machine (C07; also the outcome automaton of C08 and the
   scenario generator of C07).  Written from the property statement and DESIGN.md 3.6:

     "An assembly run reports failure (non-zero exit status, no output or listing file created or
      modified) if and only if at least one error-severity diagnostic was issued; a run with only
      warnings succeeds and writes its outputs.  Which warnings are enabled and which report
      format is selected never changes the emitted bytes, the files written or the exit status."

   A run:  Args -> Plant* -> Read -> Compile(parse pass; compile pass; link pass)
                -> LeaveBlock -> EmitDirectives -> WriteO -> WriteLst -> Exit

   Two descriptions of the same run live here:
     * OPERATIONAL: the actions below - a stack of report handlers each with an error latch, a
       filter between the issuing site and the printer, `critical` aborting the block at once,
       the latch turning into failure when the block is left, output phases afterwards;
     * DENOTATIONAL: Predict(errors of the plan, output options) - a function whose arguments do
       not include the report format, the -W selection or the planted warnings.
   Role (D): TLC checks on every reachable state
       FailIffError        exit # 0  <=>  an error or critical diagnostic was issued
       NoOutputAfterError  nothing is written once an error has been issued (at every step)
       WarningsAreInert    the operational result equals Predict(...)  (=> format, -W and warnings
                           are read by no guard that influences files, stdout or exit status)
       ErrorsAlwaysShown   the filter never hides an error: failure always comes with a printed error
       OutcomeAutomaton    every run ends in Success (no error) or Failure (>= 1 error shown)
       Balanced            the handler stack is empty at exit
   Role (M->C): every terminal state whose program index is selected is exported with the
       predicted exit status, file set, stdout use and presence of an error diagnostic.
   Environment faults of the output phases (unwritable path) are outside the property's
   quantifier: they are EnvFault actions, enabled only with EnvFaults = TRUE, and exempt.       *)
EXTENDS CliBase, Sequences, FiniteSets, TLC, Json

CONSTANTS MaxFaults,     \* 0..3 planted faults
          Inhabited,     \* names "phase.severity" of the fault classes the catalogue can plant
          EnvFaults,     \* BOOLEAN - enable the exempt environment-fault actions (design runs only)
          OutProfile,    \* "full": every combination of output options; "small": six representative ones
          Stride,        \* export selection: programs with ProgIndex % Stride = Residue
          Residue

PassOrder == <<"parse", "compile", "link">>
Sevs      == {"warning", "error", "critical"}
FaultClasses == {[ph |-> p, sev |-> s] : p \in {"parse", "compile", "link"}, s \in Sevs}
ClassName(f) == f.ph \o "." \o f.sev

Formats == {"graphical", "bare"}
WSels   == {"none", "all", "default", "no-all", "name", "no-name", "unknown"}
OOpts   == {"none", "bin", "raw", "stdout"}                  \* -o absent | -o x.bin | -o x | -o -
DirKinds == {[fmt |-> f, explicit |-> e] : f \in {"bin", "raw"}, e \in BOOLEAN}    \* make_bin / make_raw [path]
DirSeqs == {<<>>} \cup {<<a>> : a \in DirKinds} \cup {<<a, b>> : a \in DirKinds, b \in DirKinds}

(* ---- the output table (DESIGN 3.6): paths relative to the directory of main.mac ---- *)
DefaultOut(fmt) == IF fmt = "bin" THEN "main.bin" ELSE "main"          \* source name, ".mac" stripped, + format extension
DirPath(i, d)   == IF d.explicit THEN (IF d.fmt = "bin" THEN <<"out1.bin", "out2.bin">>[i] ELSE <<"out1.dat", "out2.dat">>[i])
                   ELSE DefaultOut(d.fmt)
OTarget(o)      == CASE o = "bin" -> [path |-> "x.bin", fmt |-> "bin"]
                     [] o = "raw" -> [path |-> "x", fmt |-> "raw"]
                     [] o = "stdout" -> [path |-> "-", fmt |-> "raw"]
None == [path |-> "", fmt |-> ""]
(* the listing goes beside the chosen output: its own format extension stripped, ".lst" added *)
Stem(c) == CASE c.path = "x.bin" -> "x" [] c.path = "x" -> "x" [] c.path = "main.bin" -> "main" [] c.path = "main" -> "main"
             [] c.path = "out1.bin" -> "out1" [] c.path = "out2.bin" -> "out2"
             [] c.path = "out1.dat" -> "out1.dat" [] c.path = "out2.dat" -> "out2.dat"
LstName(c) == IF c.path = "-" THEN "listing.lst" ELSE Stem(c) \o ".lst"

(* ---- DENOTATIONAL: what a run must produce.  `errs` is the plan with the warnings removed;
   `o` the output options.  Neither the report format nor the -W selection is an argument. ---- *)
OutOpts(s) == [oopt |-> s.oopt, implicit |-> s.implicit, dirs |-> s.dirs, lst |-> s.lst]
ErrorsOf(p) == SelectSeq(p, LAMBDA f : IsErr(f.sev))
DirFiles(o) == {[path |-> DirPath(i, o.dirs[i]), fmt |-> o.dirs[i].fmt] : i \in 1..Len(o.dirs)}
OFile(o)    == IF o.oopt # "none" THEN OTarget(o.oopt)
               ELSE IF o.dirs = <<>> /\ o.implicit THEN [path |-> "main.bin", fmt |-> "bin"]
               ELSE None
Chosen(o)   == IF OFile(o) # None THEN OFile(o)
               ELSE IF o.dirs # <<>> THEN [path |-> DirPath(1, o.dirs[1]), fmt |-> o.dirs[1].fmt]
               ELSE None
Predict(errs, o) ==
    IF errs # <<>>
    THEN [exit |-> 1, files |-> {}, stdout |-> FALSE]
    ELSE [exit |-> 0,
          files |-> DirFiles(o)
                    \cup (IF OFile(o) # None /\ OFile(o).path # "-" THEN {OFile(o)} ELSE {})
                    \cup (IF o.lst /\ Chosen(o) # None THEN {[path |-> LstName(Chosen(o)), fmt |-> "lst"]} ELSE {}),
          stdout |-> (OFile(o) # None /\ OFile(o).path = "-")]

(* ---- OPERATIONAL ---- *)
VARIABLES phase,      \* see the chain above
          scn,        \* the options chosen in Args
          plan,       \* planted faults in source order: sequence of [ph, sev]
          pass,       \* index into PassOrder while phase = "Compile"
          cursor,     \* next plan entry the current pass looks at
          handlers,   \* stack of report-handler frames [latched]
          issued,     \* severities issued so far
          shown,      \* severities the filter let through to the printer
          emitted,    \* directive outputs registered by the compile pass
          ecur,       \* next directive output to write
          files,      \* set of [path, fmt] created or modified
          stdout,     \* image written to standard output
          chosen,     \* the output the listing goes beside
          exit,       \* -1 while running
          envfault    \* an (exempt) environment fault happened
vars == <<phase, scn, plan, pass, cursor, handlers, issued, shown, emitted, ecur, files, stdout, chosen, exit, envfault>>

OutFull  == [oopt : OOpts, implicit : BOOLEAN, dirs : DirSeqs, lst : BOOLEAN]
BinD == [fmt |-> "bin", explicit |-> FALSE]   BinX == [fmt |-> "bin", explicit |-> TRUE]
RawD == [fmt |-> "raw", explicit |-> FALSE]   RawX == [fmt |-> "raw", explicit |-> TRUE]
OutSmall == { [oopt |-> "none",   implicit |-> FALSE, dirs |-> <<>>,           lst |-> FALSE],   \* success writes nothing
              [oopt |-> "none",   implicit |-> TRUE,  dirs |-> <<>>,           lst |-> TRUE],
              [oopt |-> "bin",    implicit |-> FALSE, dirs |-> <<BinD>>,       lst |-> TRUE],
              [oopt |-> "raw",    implicit |-> FALSE, dirs |-> <<BinX, RawX>>, lst |-> FALSE],
              [oopt |-> "stdout", implicit |-> FALSE, dirs |-> <<>>,           lst |-> TRUE],
              [oopt |-> "none",   implicit |-> TRUE,  dirs |-> <<RawD>>,       lst |-> TRUE] }   \* --implicit-bin ignored
OutSet   == IF OutProfile = "full" THEN OutFull ELSE OutSmall
Scenarios == {[fmt |-> f, wsel |-> w, oopt |-> o.oopt, implicit |-> o.implicit, dirs |-> o.dirs, lst |-> o.lst] :
                 f \in Formats, w \in WSels, o \in OutSet}
NoScn == [fmt |-> "graphical", wsel |-> "none", oopt |-> "none", implicit |-> FALSE, dirs |-> <<>>, lst |-> FALSE]

Init == /\ phase = "Args" /\ scn = NoScn /\ plan = <<>> /\ pass = 1 /\ cursor = 1
        /\ handlers = <<>> /\ issued = <<>> /\ shown = <<>> /\ emitted = <<>> /\ ecur = 1
        /\ files = {} /\ stdout = FALSE /\ chosen = None /\ exit = -1 /\ envfault = FALSE

ChooseOptions == /\ phase = "Args"
                 /\ \E s \in Scenarios : scn' = s
                 /\ phase' = "Plant"
                 /\ UNCHANGED <<plan, pass, cursor, handlers, issued, shown, emitted, ecur, files, stdout, chosen, exit, envfault>>

Plant == /\ phase = "Plant" /\ Len(plan) < MaxFaults
         /\ \E f \in FaultClasses : ClassName(f) \in Inhabited /\ plan' = Append(plan, f)
         /\ UNCHANGED <<phase, scn, pass, cursor, handlers, issued, shown, emitted, ecur, files, stdout, chosen, exit, envfault>>

StartRead == /\ phase = "Plant" /\ phase' = "Read"
             /\ UNCHANGED <<scn, plan, pass, cursor, handlers, issued, shown, emitted, ecur, files, stdout, chosen, exit, envfault>>

(* sources read; the compile block is entered: a fresh handler frame *)
ReadOk == /\ phase = "Read"
          /\ phase' = "Compile" /\ pass' = 1 /\ cursor' = 1
          /\ handlers' = Append(handlers, [latched |-> FALSE])
          /\ UNCHANGED <<scn, plan, issued, shown, emitted, ecur, files, stdout, chosen, exit, envfault>>

ReadFail == /\ EnvFaults /\ phase = "Read"                   \* unreadable source file: exempt
            /\ phase' = "Exit" /\ exit' = 1 /\ envfault' = TRUE
            /\ UNCHANGED <<scn, plan, pass, cursor, handlers, issued, shown, emitted, ecur, files, stdout, chosen>>

Top == handlers[Len(handlers)]
Latch(h) == [h EXCEPT ![Len(h)] = [latched |-> TRUE]]

(* The filter sits between the issuing site and the printer.  Errors always pass.  Whether a warning
   passes depends on its class and name and on -W; the model leaves that choice open except where -W
   alone decides, so every invariant below holds for ANY filtering of warnings. *)
MayShow(sev, w)  == IsErr(sev) \/ w # "no-all"
MustShow(sev, w) == IsErr(sev) \/ w = "all"

(* one diagnostic: goes through the filter, sets the latch of the active frame iff error/critical *)
Report(f) == /\ issued' = Append(issued, f.sev)
             /\ \E pass_filter \in BOOLEAN :
                   /\ pass_filter => MayShow(f.sev, scn.wsel)
                   /\ MustShow(f.sev, scn.wsel) => pass_filter
                   /\ shown' = IF pass_filter THEN Append(shown, f.sev) ELSE shown
             /\ handlers' = IF IsErr(f.sev) THEN Latch(handlers) ELSE handlers

(* the passes walk the plan in source order; each reports the faults of its own phase *)
CompileStep ==
    /\ phase = "Compile" /\ cursor <= Len(plan)
    /\ LET f == plan[cursor] IN
         IF f.ph = PassOrder[pass]
         THEN /\ Report(f)
              /\ IF f.sev = "critical"
                 THEN phase' = "LeaveBlock" /\ UNCHANGED <<pass, cursor>>      \* UnrecoverableError raised at once
                 ELSE cursor' = cursor + 1 /\ UNCHANGED <<phase, pass>>
         ELSE /\ cursor' = cursor + 1
              /\ UNCHANGED <<phase, pass, issued, shown, handlers>>
    /\ UNCHANGED <<scn, plan, emitted, ecur, files, stdout, chosen, exit, envfault>>

NextPass ==
    /\ phase = "Compile" /\ cursor > Len(plan)
    /\ IF pass < 3
       THEN /\ pass' = pass + 1 /\ cursor' = 1 /\ UNCHANGED phase
            /\ emitted' = IF pass = 1 THEN scn.dirs ELSE emitted          \* the compile pass registers make_* outputs
       ELSE /\ phase' = "LeaveBlock" /\ UNCHANGED <<pass, cursor, emitted>>
    /\ UNCHANGED <<scn, plan, handlers, issued, shown, ecur, files, stdout, chosen, exit, envfault>>

(* the compile block is left: a latched frame turns into failure, nothing has been written *)
LeaveBlock ==
    /\ phase = "LeaveBlock"
    /\ IF Top.latched
       THEN /\ phase' = "Exit" /\ exit' = 1
            /\ handlers' = SubSeq(handlers, 1, Len(handlers) - 1)
       ELSE /\ phase' = "EmitDirectives" /\ UNCHANGED exit
            /\ handlers' = Append(SubSeq(handlers, 1, Len(handlers) - 1), [latched |-> FALSE])   \* second block
    /\ UNCHANGED <<scn, plan, pass, cursor, issued, shown, emitted, ecur, files, stdout, chosen, envfault>>

EmitDirective ==
    /\ phase = "EmitDirectives" /\ ecur <= Len(emitted)
    /\ files' = files \cup {[path |-> DirPath(ecur, emitted[ecur]), fmt |-> emitted[ecur].fmt]}
    /\ ecur' = ecur + 1
    /\ UNCHANGED <<phase, scn, plan, pass, cursor, handlers, issued, shown, emitted, stdout, chosen, exit, envfault>>

EnvFaultDirective ==                                          \* unwritable directive output: io-error, exempt
    /\ EnvFaults /\ phase = "EmitDirectives" /\ ecur <= Len(emitted)
    /\ Report([ph |-> "link", sev |-> "error"])
    /\ ecur' = ecur + 1 /\ envfault' = TRUE
    /\ UNCHANGED <<phase, scn, plan, pass, cursor, emitted, files, stdout, chosen, exit>>

EmitDone ==
    /\ phase = "EmitDirectives" /\ ecur > Len(emitted)
    /\ handlers' = SubSeq(handlers, 1, Len(handlers) - 1)
    /\ IF Top.latched THEN phase' = "Exit" /\ exit' = 1 ELSE phase' = "WriteO" /\ UNCHANGED exit
    /\ UNCHANGED <<scn, plan, pass, cursor, issued, shown, emitted, ecur, files, stdout, chosen, envfault>>

(* ChooseOutput: -o wins; else --implicit-bin when no directive wrote anything; else nothing *)
WriteO ==
    /\ phase = "WriteO"
    /\ LET t == IF scn.oopt # "none" THEN OTarget(scn.oopt)
                ELSE IF emitted = <<>> /\ scn.implicit THEN [path |-> "main.bin", fmt |-> "bin"]
                ELSE None IN
         /\ files'  = IF t # None /\ t.path # "-" THEN files \cup {t} ELSE files
         /\ stdout' = (t # None /\ t.path = "-")
         /\ chosen' = IF t # None THEN t
                      ELSE IF emitted # <<>> THEN [path |-> DirPath(1, emitted[1]), fmt |-> emitted[1].fmt]
                      ELSE None
    /\ phase' = "WriteLst"
    /\ UNCHANGED <<scn, plan, pass, cursor, handlers, issued, shown, emitted, ecur, exit, envfault>>

EnvFaultO ==                                                  \* unwritable -o path: exit 1, earlier files stay; exempt
    /\ EnvFaults /\ phase = "WriteO" /\ scn.oopt \in {"bin", "raw"}
    /\ phase' = "Exit" /\ exit' = 1 /\ envfault' = TRUE
    /\ UNCHANGED <<scn, plan, pass, cursor, handlers, issued, shown, emitted, ecur, files, stdout, chosen>>

WriteLst ==
    /\ phase = "WriteLst"
    /\ files' = IF scn.lst /\ chosen # None THEN files \cup {[path |-> LstName(chosen), fmt |-> "lst"]} ELSE files
    /\ phase' = "Exit" /\ exit' = 0
    /\ UNCHANGED <<scn, plan, pass, cursor, handlers, issued, shown, emitted, ecur, stdout, chosen, envfault>>

Next == ChooseOptions \/ Plant \/ StartRead \/ ReadOk \/ ReadFail \/ CompileStep \/ NextPass \/ LeaveBlock
        \/ EmitDirective \/ EnvFaultDirective \/ EmitDone \/ WriteO \/ EnvFaultO \/ WriteLst
Spec == Init /\ [][Next]_vars

(* ---- properties ---- *)
NErr(s)      == Len(SelectSeq(s, IsErr))
PhaseNames   == {"Args", "Plant", "Read", "Compile", "LeaveBlock", "EmitDirectives", "WriteO", "WriteLst", "Exit"}
TypeOK       == /\ phase \in PhaseNames /\ exit \in {-1, 0, 1} /\ Len(plan) <= MaxFaults
                /\ pass \in 1..3 /\ Len(handlers) <= 1 /\ (exit # -1 <=> phase = "Exit")
FailIffError == (phase = "Exit" /\ ~envfault) => (exit # 0 <=> NErr(issued) >= 1)
NoOutputAfterError == ~envfault => (NErr(issued) >= 1 => (files = {} /\ ~stdout))
WarningsAreInert   == (phase = "Exit" /\ ~envfault) =>
                         [exit |-> exit, files |-> files, stdout |-> stdout] = Predict(ErrorsOf(plan), OutOpts(scn))
ErrorsAlwaysShown  == NErr(shown) = NErr(issued)
Outcome == OutcomeOf(exit, NErr(issued), NErr(shown))
OutcomeAutomaton   == (phase = "Exit" /\ ~envfault) => Outcome \in GoodOutcomes
(* holds in EVERY run, environment faults included: an issued error fails the run and is shown (an unwritable directive
   output is reported through the same latch as any other error) *)
ReportedErrorFails == phase = "Exit" => (NErr(issued) >= 1 => (exit # 0 /\ NErr(shown) >= 1))
Balanced           == phase = "Exit" => handlers = <<>>
(* a critical diagnostic is the last one of its run; an error does not stop the later passes *)
CriticalIsLast     == \A i \in 1..Len(issued) : issued[i] = "critical" => i = Len(issued)
(* with only warnings planted, every configured output is written *)
WarningsOnlySucceed == (phase = "Exit" /\ ~envfault /\ ErrorsOf(plan) = <<>>) =>
                          (exit = 0 /\ Cardinality(files) >= (IF scn.dirs # <<>> THEN 1 ELSE 0) + (IF scn.oopt \in {"bin", "raw"} THEN 1 ELSE 0))

(* ---- scenario index and export ---- *)
PhIdx(p)  == CASE p = "parse" -> 0 [] p = "compile" -> 1 [] p = "link" -> 2
SevIdx(s) == CASE s = "warning" -> 0 [] s = "error" -> 1 [] s = "critical" -> 2
RECURSIVE PlanCode(_)
PlanCode(p) == IF p = <<>> THEN 0 ELSE PlanCode(SubSeq(p, 1, Len(p) - 1)) * 10 + 1 + PhIdx(p[Len(p)].ph) * 3 + SevIdx(p[Len(p)].sev)
DirIdx(d)   == 1 + (IF d.fmt = "bin" THEN 0 ELSE 1) * 2 + (IF d.explicit THEN 1 ELSE 0)
DirsCode(d) == IF d = <<>> THEN 0 ELSE IF Len(d) = 1 THEN DirIdx(d[1]) ELSE DirIdx(d[1]) * 5 + DirIdx(d[2])
OIdx(o)     == CASE o = "none" -> 0 [] o = "bin" -> 1 [] o = "raw" -> 2 [] o = "stdout" -> 3
B(x)        == IF x THEN 1 ELSE 0
ProgIndex   == (((PlanCode(plan) * 25 + DirsCode(scn.dirs)) * 4 + OIdx(scn.oopt)) * 2 + B(scn.implicit)) * 2 + B(scn.lst)
WIdx(w)     == CASE w = "none" -> 0 [] w = "all" -> 1 [] w = "default" -> 2 [] w = "no-all" -> 3 [] w = "name" -> 4
                 [] w = "no-name" -> 5 [] w = "unknown" -> 6
VarIndex    == WIdx(scn.wsel) * 2 + (IF scn.fmt = "bare" THEN 1 ELSE 0)

Export == (phase = "Exit" /\ ~envfault /\ ProgIndex % Stride = Residue) =>
            PrintT(ToJson([prog |-> ProgIndex, var |-> VarIndex, plan |-> plan,
                           fmt |-> scn.fmt, wsel |-> scn.wsel, oopt |-> scn.oopt, implicit |-> scn.implicit,
                           dirs |-> [i \in 1..Len(scn.dirs) |-> [fmt |-> scn.dirs[i].fmt, explicit |-> scn.dirs[i].explicit,
                                                                   path |-> DirPath(i, scn.dirs[i])]],
                           lst |-> scn.lst,
                           exit |-> exit, files |-> files, stdout |-> stdout,
                           nerr |-> NErr(issued), errdiag |-> (NErr(shown) >= 1), outcome |-> Outcome]))
=============================================================================
