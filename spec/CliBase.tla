------------------------------ MODULE CliBase ------------------------------
(* Constant-level vocabulary shared by Cli.tla (the phase machine) and CliTrace.tla (the monitor
   of real command-line runs): severities and the classification of a finished run.           *)
EXTENDS Integers

IsErr(s) == s \in {"error", "critical"}

(* e: exit status (0 / non-zero as 1), ni: error+critical diagnostics issued, ns: of those, printed *)
OutcomeOf(e, ni, ns) ==
    IF e = 0 /\ ni = 0 THEN "Success"
    ELSE IF e = 1 /\ ni >= 1 /\ ns >= 1 THEN "Failure"
    ELSE IF e = 1 /\ ni >= 1 THEN "SilentFailure"          \* failed, but no error was shown to the user
    ELSE IF e = 1 THEN "InternalError"                     \* failed without any error diagnostic
    ELSE "ErrorIgnored"                                    \* an error was issued and the run still succeeded
GoodOutcomes == {"Success", "Failure"}
=============================================================================
