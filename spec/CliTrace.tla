------------------------------ MODULE CliTrace ------------------------------
(* (C->M) monitor for C07: ordered event traces recorded from real command-line runs
   (harness/clitrace.py: the report path, the printers, every file opened for writing, standard
   output, the exit status) must be behaviours of this machine.  It is a monitor of the PROPERTY,
   not of pdpy11's control flow: it constrains only

     * an error or critical diagnostic is never issued after something has been written,
     * nothing is written after an error or critical diagnostic has been issued,
     * the run ends, and OutcomeOf(exit, errors issued, errors printed) is Success or Failure
       (Cli.tla's OutcomeAutomaton; in particular exit # 0 <=> an error was issued, and a failure
       shows at least one error),
     * a failed run has written nothing.

   Events: [k |-> "report", a |-> severity]   a diagnostic reaches emit_report
           [k |-> "shown",  a |-> severity]   a diagnostic reaches a printer (after the -W filter)
           [k |-> "write",  a |-> path]       a file is opened for writing / bytes go to stdout ("-")
           [k |-> "exit",   a |-> "0" | "1"]  exit status (non-zero folded to "1")
   Batch idiom (DESIGN Appendix B): all traces in one JSON file, trace id chosen in Init, accepted
   ids exported; the harness takes the complement as rejected.  Run with -workers 1.             *)
EXTENDS CliBase, Sequences, TLC, Json, IOUtils

Traces == JsonDeserialize(IOEnv.TRACE_FILE)

VARIABLES tid, l, nerr, nshown, nwrites, exited
vars == <<tid, l, nerr, nshown, nwrites, exited>>

Init == /\ tid \in 1..Len(Traces) /\ l = 1 /\ nerr = 0 /\ nshown = 0 /\ nwrites = 0 /\ exited = FALSE

Ev == Traces[tid][l]
More == l <= Len(Traces[tid]) /\ ~exited

Report == /\ More /\ Ev.k = "report"
          /\ IsErr(Ev.a) => nwrites = 0                    \* no error after output
          /\ nerr' = IF IsErr(Ev.a) THEN nerr + 1 ELSE nerr
          /\ l' = l + 1 /\ UNCHANGED <<tid, nshown, nwrites, exited>>

Shown == /\ More /\ Ev.k = "shown"
         /\ nshown' = IF IsErr(Ev.a) THEN nshown + 1 ELSE nshown
         /\ l' = l + 1 /\ UNCHANGED <<tid, nerr, nwrites, exited>>

Write == /\ More /\ Ev.k = "write"
         /\ nerr = 0                                       \* no output after error
         /\ nwrites' = nwrites + 1
         /\ l' = l + 1 /\ UNCHANGED <<tid, nerr, nshown, exited>>

Exit == /\ More /\ Ev.k = "exit"
        /\ LET e == IF Ev.a = "0" THEN 0 ELSE 1 IN
             /\ OutcomeOf(e, nerr, nshown) \in GoodOutcomes
             /\ e # 0 => nwrites = 0
        /\ exited' = TRUE
        /\ l' = l + 1 /\ UNCHANGED <<tid, nerr, nshown, nwrites>>

Next == Report \/ Shown \/ Write \/ Exit
Spec == Init /\ [][Next]_vars

TypeOK == l \in 1..(Len(Traces[tid]) + 1) /\ nerr >= 0 /\ nshown <= nerr
(* a trace is accepted iff it can be consumed completely and ends with its exit event *)
Accepted == (exited /\ l = Len(Traces[tid]) + 1) => PrintT(ToJson([tid |-> tid, nerr |-> nerr, nwrites |-> nwrites]))
=============================================================================
