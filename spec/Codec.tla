------------------------------- MODULE Codec -------------------------------
(* RADIX-50 packing (C15) as a three-step accumulator machine, and the string-level rules of
   '.rad50' / '^R' (padding, case folding, <n> codes, refusal).  Written from the DEC RADIX-50
   definition: 40 characters " A..Z$.%0..9", word = (c1*40 + c2)*40 + c3.

   Role (D):  Unpack(Pack(t)) = t on all 64 000 triples; pack results are < 64000 < 2^16.
   Role (M->C): every leaf of the state graph (mode = "triple") and every short item string
   (mode = "string") is exported with the predicted words; the harness renders it as '.rad50'
   and '^R' source and assembles it with the real code.                                        *)
EXTENDS Naturals, Sequences, FiniteSets, TLC, Json

CONSTANTS Mode,        \* "triple" | "string"
          MaxItems     \* string mode: maximal number of items

R50 == << " ", "A", "B", "C", "D", "E", "F", "G", "H", "I", "J", "K", "L", "M", "N", "O", "P", "Q", "R", "S",
          "T", "U", "V", "W", "X", "Y", "Z", "$", ".", "%", "0", "1", "2", "3", "4", "5", "6", "7", "8", "9" >>

ASSUME Len(R50) = 40

PackStep(acc, c) == acc * 40 + c
Pack3(t)   == PackStep(PackStep(PackStep(0, t[1]), t[2]), t[3])
Unpack(w)  == << w \div 1600, (w \div 40) % 40, w % 40 >>

(* ---- string level: an item is a character index (0..39, upper or lower case spelling), a raw
   code <n>, or a character outside the alphabet ---- *)
ItemKinds == { [k |-> "ch", v |-> 0, lower |-> FALSE],      \* space
               [k |-> "ch", v |-> 1, lower |-> FALSE],      \* A
               [k |-> "ch", v |-> 26, lower |-> TRUE],      \* z (folds to Z)
               [k |-> "ch", v |-> 27, lower |-> FALSE],     \* $
               [k |-> "ch", v |-> 39, lower |-> FALSE],     \* 9
               [k |-> "code", v |-> 0, lower |-> FALSE],
               [k |-> "code", v |-> 39, lower |-> FALSE],
               [k |-> "code", v |-> 40, lower |-> FALSE],   \* refused: >= 40 (50 octal)
               [k |-> "code", v |-> 63, lower |-> FALSE],
               [k |-> "bad", v |-> 0, lower |-> FALSE] }    \* e.g. '!' or a Cyrillic letter

ItemOk(i) == i.k = "ch" \/ (i.k = "code" /\ i.v < 40)

RECURSIVE PadTo3(_)
PadTo3(s) == IF Len(s) % 3 = 0 THEN s ELSE PadTo3(Append(s, 0))

Words(vals) == LET p == PadTo3(vals) IN [ j \in 1..(Len(p) \div 3) |-> Pack3(<<p[3*j-2], p[3*j-1], p[3*j]>>) ]

StringOutcome(items) ==
    IF \E j \in 1..Len(items) : ~ItemOk(items[j])
    THEN [ok |-> FALSE, words |-> <<>>]
    ELSE [ok |-> TRUE, words |-> Words([j \in 1..Len(items) |-> items[j].v])]

VARIABLES chars, acc, items
vars == <<chars, acc, items>>

Init == chars = <<>> /\ acc = 0 /\ items = <<>>

StepTriple == /\ Mode = "triple" /\ Len(chars) < 3
              /\ \E c \in 0..39 : chars' = Append(chars, c) /\ acc' = PackStep(acc, c)
              /\ UNCHANGED items

StepString == /\ Mode = "string" /\ Len(items) < MaxItems
              /\ \E i \in ItemKinds : items' = Append(items, i)
              /\ UNCHANGED <<chars, acc>>

Next == StepTriple \/ StepString
Spec == Init /\ [][Next]_vars

(* ---- properties checked by TLC ---- *)
TypeOK      == acc \in 0..63999 /\ Len(chars) <= 3
RoundTrip   == Len(chars) = 3 => (Unpack(acc) = chars /\ Pack3(chars) = acc)
Fits16      == acc < 65536
Injective   == Len(chars) = 3 => \A d \in 0..39 : d # chars[3] => PackStep(PackStep(PackStep(0, chars[1]), chars[2]), d) # acc
WordsLenOK  == Mode = "string" => LET o == StringOutcome(items) IN o.ok => Len(o.words) * 3 \in {Len(items), Len(items) + 1, Len(items) + 2}
UnpackWords == Mode = "string" => LET o == StringOutcome(items) IN
                 o.ok => \A j \in 1..Len(o.words) :
                            LET u == Unpack(o.words[j]) IN
                            \A k \in 1..3 : LET pos == 3 * (j - 1) + k IN
                                            u[k] = IF pos <= Len(items) THEN items[pos].v ELSE 0

(* ---- export for replay into the real assembler ---- *)
ExportTriple == (Mode = "triple" /\ Len(chars) = 3) =>
                  PrintT(ToJson([m |-> "t", c |-> <<R50[chars[1] + 1], R50[chars[2] + 1], R50[chars[3] + 1]>>, w |-> acc]))
(* every single raw code <c>, 0..63, as a string of its own (exported once, with the empty string): the program
   't: .repeat n { .rad50 <<. - t>/2 + c> }' means the strings <c>, <c+1>, ... one after the other *)
ExportCodes == (Mode = "string" /\ items = <<>>) =>
                  PrintT(ToJson([m |-> "codes",
                                 outcome |-> [c \in 1..64 |-> StringOutcome(<< [k |-> "code", v |-> c - 1, lower |-> FALSE] >>)]]))
ExportString == (Mode = "string") =>
                  LET o == StringOutcome(items) IN
                  PrintT(ToJson([m |-> "s",
                                 items |-> [j \in 1..Len(items) |->
                                              [k |-> items[j].k, v |-> items[j].v, lower |-> items[j].lower,
                                               ch |-> IF items[j].k = "ch" THEN R50[items[j].v + 1] ELSE ""]],
                                 ok |-> o.ok, words |-> o.words]))
=============================================================================
