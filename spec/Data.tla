-------------------------------- MODULE Data --------------------------------
(* The data directives of the assembler (C06) as a small machine.

   State: the link base, the output charset, the abstract program so far, the running address, the
   image bytes so far (a sequence over 0..255) and the outcome ("ok" | "error").  Each Step compiles
   one directive instance chosen from a per-mode alphabet, so TLC enumerates short directive
   SEQUENCES (the interplay address parity <-> next directive) and the boundary value grid; Extend
   appends one more operand / string item to the last directive and recompiles it, so operand lists
   and strings are enumerated (BFS) or sampled (-simulate) item by item.

   Semantics written from the property statement, MACRO-11 usage and the charset standards:
     Store(n, v)   |v| >= 2^n => Reject, else the n-bit two's-complement pattern v mod 2^n,
                   little-endian; '.dword' (n = 32) HIGH WORD FIRST, each word little-endian;
     '.byte' n = 8, '.word' / '.dw' / implicit word list n = 16, '.dword' n = 32; a store directive
                   without operands stores one zero field (MACRO-11: '.word' alone = '.word 0');
     word data ('.word', '.dw', list, '.dword') at an ODD address => Reject;
     '.blkb k' / '.blkw k'  k < 0 => Reject, else k zero bytes / words (no parity requirement);
     '.even' / '.odd'  one zero byte iff the address parity requires it;
     '.align m'  (-addr) mod m zero bytes;
     '.ascii' / '.asciz'  the bytes of every character in the selected charset, escapes expanded to
                   the character they denote, <n> = raw byte n (0..255, else Reject), an unencodable
                   character => Reject; '.asciz' appends one zero byte.

   TLC integers are 32-bit and overflow is an error: a value is a sign and two limbs,
   magnitude = hi * 65536 + lo with hi in 0..65536, lo in 0..65535; hi * 65536 is never computed.

   Role (D): the invariants below compare two independent formulations (size function vs emitted
   length, decode-and-add vs subtract-and-encode, limb comparison vs Fits, least-pad vs Pad formula,
   repertoire vs byte table).  Role (M->C): every state with a non-empty program is exported with
   the predicted outcome and image; harness/checks/C06.py renders it and runs the real assembler. *)
EXTENDS Integers, Sequences, FiniteSets, TLC, Json

CONSTANTS Mode,       \* "store" | "seq" | "align" | "ops" | "string"
          MaxLen,     \* maximal number of statements
          MaxItems,   \* maximal number of operands / string items added by Extend
          Rich        \* BOOLEAN: the larger alphabets of the thorough tier

(* ------------------------------------------------------------------ values *)
V(neg, hi, lo) == [neg |-> neg, hi |-> hi, lo |-> lo]
Small(i)       == V(FALSE, 0, i)
IsZero(v)      == v.hi = 0 /\ v.lo = 0

\* 2^n - 1, 2^n, 2^n + 1 for n = 8, 16, 32 as <<hi, lo>>
GridLimbs == { <<0, 255>>, <<0, 256>>, <<0, 257>>,
               <<0, 65535>>, <<1, 0>>, <<1, 1>>,
               <<65535, 65535>>, <<65536, 0>>, <<65536, 1>> }
\* the property's grid {0, 1, -1, +-(2^n - 1), +-2^n, +-(2^n + 1)}: 21 classes
GridClasses == { Small(0), Small(1), V(TRUE, 0, 1) } \cup { V(s, l[1], l[2]) : s \in BOOLEAN, l \in GridLimbs }
\* the sign-bit neighbourhood 2^(n-1) - 1, 2^(n-1), 2^(n-1) + 1 (all inside the field): 18 classes
MidLimbs == { <<0, 127>>, <<0, 128>>, <<0, 129>>,
              <<0, 32767>>, <<0, 32768>>, <<0, 32769>>,
              <<32767, 65535>>, <<32768, 0>>, <<32768, 1>> }
MidClasses == { V(s, l[1], l[2]) : s \in BOOLEAN, l \in MidLimbs }
AllClasses == GridClasses \cup MidClasses

(* ------------------------------------------------------------------ Store *)
Fits(n, v) == CASE n = 8  -> v.hi = 0 /\ v.lo < 256
                [] n = 16 -> v.hi = 0
                [] n = 32 -> v.hi < 65536

\* limbs <<hi, lo>> of v mod 2^n, for a value that fits
Pattern(n, v) ==
    IF ~v.neg \/ IsZero(v) THEN <<v.hi, v.lo>>
    ELSE CASE n = 8  -> <<0, 256 - v.lo>>
           [] n = 16 -> <<0, 65536 - v.lo>>
           [] n = 32 -> IF v.lo = 0 THEN <<65536 - v.hi, 0>> ELSE <<65535 - v.hi, 65536 - v.lo>>

LE16(w) == << w % 256, w \div 256 >>

FieldBytes(n, p) == CASE n = 8  -> << p[2] >>
                      [] n = 16 -> LE16(p[2])
                      [] n = 32 -> LE16(p[1]) \o LE16(p[2])        \* high word first

Reject     == [ok |-> FALSE, bytes |-> <<>>]
Accept(b)  == [ok |-> TRUE, bytes |-> b]
Store(n, v) == IF Fits(n, v) THEN Accept(FieldBytes(n, Pattern(n, v))) ELSE Reject

Zeros(k) == [i \in 1..k |-> 0]
Pad(a, m) == (m - (a % m)) % m

RECURSIVE Flat(_)
Flat(ss) == IF ss = <<>> THEN <<>> ELSE Head(ss) \o Flat(Tail(ss))

(* ------------------------------------------------------------------ strings *)
Charsets == { "bk", "utf-8", "koi8-r", "latin-1", "cp866" }

\* abstract characters; the non-ASCII ones are ya (U+044F), eacute (U+00E9), alpha (U+03B1)
AsciiCode(ch) == CASE ch = "A" -> 65 [] ch = "z" -> 122 [] ch = "d7" -> 55 [] ch = "sp" -> 32
                   [] ch = "semi" -> 59 [] ch = "dq" -> 34 [] ch = "sq" -> 39 [] ch = "sl" -> 47
                   [] ch = "bs" -> 92 [] ch = "lf" -> 10 [] ch = "cr" -> 13 [] ch = "ht" -> 9
                   [] ch = "tilde" -> 126 [] ch = "nul" -> 0 [] ch = "del" -> 127
                   [] OTHER -> -1

\* bytes of a character in a charset, <<>> = unencodable.  All five charsets extend ASCII.
\*   bk      ASCII for ASCII, KOI8-R codes for Cyrillic letters
\*   koi8-r  RFC 1489:   ya = D1
\*   cp866   IBM 866:    ya = EF
\*   latin-1 ISO 8859-1: eacute = E9
\*   utf-8   RFC 3629:   two bytes 110xxxxx 10xxxxxx for U+0080..U+07FF
\*   U+007F (DEL) is the one ASCII character the bk table does not have: its code 0x7F is the block character U+25A0
CharBytes(ch, cs) ==
    IF ch = "del" /\ cs = "bk" THEN <<>>
    ELSE IF AsciiCode(ch) >= 0 THEN << AsciiCode(ch) >>
    ELSE CASE ch = "ya"     -> (CASE cs = "bk" -> <<209>> [] cs = "koi8-r" -> <<209>> [] cs = "cp866" -> <<239>>
                                  [] cs = "utf-8" -> <<209, 143>> [] OTHER -> <<>>)
           [] ch = "eacute" -> (CASE cs = "latin-1" -> <<233>> [] cs = "utf-8" -> <<195, 169>> [] OTHER -> <<>>)
           [] ch = "alpha"  -> (CASE cs = "utf-8" -> <<206, 177>> [] OTHER -> <<>>)
           \* the currency sign U+00A4: the second glyph of bk's cell 0x24 (BkCodec.tla: the one documented alias)
           [] ch = "cur"    -> (CASE cs = "bk" -> <<36>> [] cs = "cp866" -> <<253>> [] cs = "latin-1" -> <<164>>
                                  [] cs = "utf-8" -> <<194, 164>> [] OTHER -> <<>>)

\* string items: literal character, escape (denoting a character), raw byte <n>
Ch(c)  == [k |-> "ch",  c |-> c, v |-> 0]
Esc(c) == [k |-> "esc", c |-> c, v |-> 0]
Raw(n) == [k |-> "raw", c |-> "",  v |-> n]
MinusOne == 0 - 1

\* escape forms \n \r \t \\ \" \' \/ \xHH (HH = 41, 7e, 00) and the character each denotes
EscDenotes(c) == CASE c = "n" -> "lf" [] c = "r" -> "cr" [] c = "t" -> "ht" [] c = "bs" -> "bs"
                   [] c = "dq" -> "dq" [] c = "sq" -> "sq" [] c = "sl" -> "sl"
                   [] c = "x41" -> "A" [] c = "x7e" -> "tilde" [] c = "x00" -> "nul" [] c = "x7f" -> "del"
Denotes(it) == IF it.k = "esc" THEN EscDenotes(it.c) ELSE it.c

ItemAlphabet ==
    { Ch(c) : c \in { "A", "z", "d7", "sp", "semi", "dq", "sq", "sl", "ya", "eacute", "alpha", "del", "cur" } }
    \cup { Esc(c) : c \in { "n", "r", "t", "bs", "dq", "sq", "sl", "x41", "x7e", "x00", "x7f" } }
    \cup { Raw(n) : n \in { 0, 65, 255, 256, MinusOne } }

ItemBytes(it, cs) == IF it.k = "raw" THEN (IF it.v \in 0..255 THEN << it.v >> ELSE <<>>)
                     ELSE CharBytes(Denotes(it), cs)

StringBytes(items, cs, z) ==
    IF \E j \in 1..Len(items) : ItemBytes(items[j], cs) = <<>> THEN Reject
    ELSE Accept(Flat([j \in 1..Len(items) |-> ItemBytes(items[j], cs)]) \o (IF z THEN <<0>> ELSE <<>>))

(* ------------------------------------------------------------------ statements *)
Stmt(d, ops, n, items) == [d |-> d, ops |-> ops, n |-> n, items |-> items]
Plain(d)     == Stmt(d, <<>>, 0, <<>>)
St(d, ops)   == Stmt(d, ops, 0, <<>>)
Cnt(d, n)    == Stmt(d, <<>>, n, <<>>)
Str(d, its)  == Stmt(d, <<>>, 0, its)

ByteForms  == { "byte", "db" }
WordForms  == { "word", "dw", "list" }
StoreForms == ByteForms \cup WordForms \cup { "dword" }
FillForms  == { "blkb", "blkw", "even", "odd", "align" }
StrForms   == { "ascii", "asciz" }
Width(d)   == IF d \in ByteForms THEN 8 ELSE IF d \in WordForms THEN 16 ELSE 32

StoreAll(n, ops) ==
    IF ops = <<>> THEN Accept(Zeros(n \div 8))
    ELSE IF \E j \in 1..Len(ops) : ~Fits(n, ops[j]) THEN Reject
    ELSE Accept(Flat([j \in 1..Len(ops) |-> Store(n, ops[j]).bytes]))

\* one directive at address a -> [ok, bytes]
Compile(s, a, cs) ==
    CASE s.d \in ByteForms -> StoreAll(8, s.ops)
      [] s.d \in WordForms \cup { "dword" } -> IF a % 2 = 1 THEN Reject
                                               ELSE IF s.d = "list" /\ s.ops = <<>> THEN Accept(<<>>)   \* not a statement yet
                                               ELSE StoreAll(Width(s.d), s.ops)
      [] s.d = "blkb"  -> IF s.n < 0 THEN Reject ELSE Accept(Zeros(s.n))
      [] s.d = "blkw"  -> IF s.n < 0 THEN Reject ELSE Accept(Zeros(2 * s.n))
      [] s.d = "even"  -> Accept(IF a % 2 = 1 THEN <<0>> ELSE <<>>)
      [] s.d = "odd"   -> Accept(IF a % 2 = 0 THEN <<0>> ELSE <<>>)
      [] s.d = "align" -> Accept(Zeros(Pad(a, s.n)))
      [] s.d = "ascii" -> StringBytes(s.items, cs, FALSE)
      [] s.d = "asciz" -> StringBytes(s.items, cs, TRUE)

(* ------------------------------------------------------------------ alphabets *)
FillList(k, p, v) == [i \in 1..k |-> IF i = p THEN v ELSE Small(i)]     \* distinct legal fillers 1..k
SameList(k, v)    == [i \in 1..k |-> v]
Positions(k)      == IF Rich THEN 1..k ELSE {1, k}

OpLists ==
    { <<>> } \cup { <<v>> : v \in AllClasses }
    \cup UNION { { FillList(k, p, v) : p \in Positions(k), v \in (IF Rich THEN AllClasses ELSE GridClasses) } : k \in 2..8 }
    \cup (IF Rich THEN { SameList(k, v) : k \in 2..8, v \in AllClasses } ELSE {})

StoreAlphabet ==
    { St(d, ops) : d \in StoreForms \ { "list" }, ops \in OpLists } \cup { St("list", ops) : ops \in OpLists \ { <<>> } }
    \cup { Cnt(d, k) : d \in { "blkb", "blkw" }, k \in { MinusOne, 0, 1, 3, 64 } }

\* fixed, mutually distinct byte patterns so that a misplaced or reordered byte shows
W3132 == Small(12594)                  \* 0x3132
SeqCore == { St("byte", <<Small(17)>>), St("byte", <<Small(33), Small(34)>>), St("byte", <<>>),
             St("word", <<W3132>>), St("list", <<Small(16706), Small(17220)>>),      \* 0x4142, 0x4344
             St("dword", <<V(FALSE, 20818, 21332)>>),                                 \* 0x51525354
             Cnt("blkb", 1), Cnt("blkb", 3), Cnt("blkw", 1),
             Plain("even"), Plain("odd"), Cnt("align", 4), Cnt("align", 3),
             Str("ascii", <<Ch("A")>>), Str("asciz", <<Ch("A")>>), Str("asciz", <<>>) }
SeqExtra == { St("dw", <<V(TRUE, 0, 2)>>), St("db", <<V(TRUE, 0, 2)>>), St("word", <<>>), St("dword", <<>>),
              Cnt("blkb", 0), Cnt("blkb", MinusOne), St("byte", <<Small(256)>>), Cnt("align", 1),
              Str("ascii", <<Ch("ya"), Ch("z")>>) }

Alphabet(i) ==
    CASE Mode = "store"  -> StoreAlphabet
      [] Mode = "seq"    -> IF Rich THEN SeqCore \cup SeqExtra ELSE SeqCore
      [] Mode = "align"  -> IF i = 1 THEN { Cnt("align", m) : m \in 1..64 } \cup { Plain("even"), Plain("odd") }
                            ELSE { St("word", <<W3132>>) } \cup (IF Rich THEN { St("byte", <<Small(17)>>) } ELSE {})
      [] Mode = "ops"    -> { St(d, <<>>) : d \in StoreForms }
      [] Mode = "string" -> { Str(d, <<>>) : d \in StrForms }

Bases == IF Mode = "align" THEN 512..576 ELSE IF Mode = "string" THEN {512} ELSE {512, 513}
\* "seq"/Rich also runs under utf-8, where the Cyrillic letter takes two bytes (charset <-> parity interplay)
CharsetsUsed == IF Mode = "string" THEN Charsets ELSE IF Mode = "seq" /\ Rich THEN {"bk", "utf-8"} ELSE {"bk"}

\* operand candidates of Extend in "ops" mode: everything that fits the field plus the nearest rejects
Pow(n) == CASE n = 8 -> <<0, 256>> [] n = 16 -> <<1, 0>> [] n = 32 -> <<65536, 0>>
OpsCand(n) == { v \in AllClasses : Fits(n, v) \/ (v.hi = Pow(n)[1] /\ v.lo \in { Pow(n)[2], Pow(n)[2] + 1 }) }

(* ------------------------------------------------------------------ machine *)
VARIABLES base, cs, prog, pre, a0, addr, image, outcome
vars == <<base, cs, prog, pre, a0, addr, image, outcome>>

Init == /\ base \in Bases /\ cs \in CharsetsUsed
        /\ prog = <<>> /\ pre = <<>> /\ a0 = base /\ addr = base /\ image = <<>> /\ outcome = "ok"

Step == /\ outcome = "ok" /\ Len(prog) < MaxLen
        /\ \E s \in Alphabet(Len(prog) + 1) :
             LET r == Compile(s, addr, cs) IN
             /\ prog' = Append(prog, s)
             /\ pre' = image /\ a0' = addr
             /\ image' = image \o r.bytes
             /\ addr' = addr + Len(r.bytes)
             /\ outcome' = IF r.ok THEN "ok" ELSE "error"
        /\ UNCHANGED <<base, cs>>

Last == prog[Len(prog)]

\* one more operand / item on the last directive: recompile it from its start address
Extend == /\ Mode \in { "ops", "string" } /\ Len(prog) >= 1
          /\ Len(Last.ops) + Len(Last.items) < MaxItems
          /\ \E s \in (IF Mode = "ops"
                       THEN { [Last EXCEPT !.ops = Append(@, v)] : v \in OpsCand(Width(Last.d)) }
                       ELSE { [Last EXCEPT !.items = Append(@, it)] : it \in ItemAlphabet }) :
               LET r == Compile(s, a0, cs) IN
               /\ prog' = [prog EXCEPT ![Len(prog)] = s]
               /\ image' = pre \o r.bytes
               /\ addr' = a0 + Len(r.bytes)
               /\ outcome' = IF r.ok THEN "ok" ELSE "error"
          /\ UNCHANGED <<base, cs, pre, a0>>

Next == Step \/ Extend
Spec == Init /\ [][Next]_vars

(* ------------------------------------------------------------------ properties checked by TLC *)
HasLast   == Len(prog) >= 1
LastBytes == SubSeq(image, Len(pre) + 1, Len(image))
IsOk      == outcome = "ok"

TypeOK == /\ outcome \in { "ok", "error" }
          /\ \A i \in 1..Len(image) : image[i] \in 0..255
          /\ addr = base + Len(image)
          /\ (HasLast /\ ~IsOk) => image = pre            \* a refused directive contributes nothing

\* --- sizes, stated independently of Compile
Max1(k) == IF k = 0 THEN 1 ELSE k
LeastPad(a, m) == CHOOSE p \in 0..(m - 1) : (a + p) % m = 0
ItemSize(it, c) == IF it.k = "raw" \/ AsciiCode(Denotes(it)) >= 0 THEN 1 ELSE IF c = "utf-8" THEN 2 ELSE 1
RECURSIVE SumItemSizes(_, _, _)
SumItemSizes(items, c, j) == IF j > Len(items) THEN 0 ELSE ItemSize(items[j], c) + SumItemSizes(items, c, j + 1)
Size(s, a, c) ==
    CASE s.d \in ByteForms -> Max1(Len(s.ops))
      [] s.d = "list"      -> 2 * Len(s.ops)
      [] s.d \in WordForms -> 2 * Max1(Len(s.ops))
      [] s.d = "dword"     -> 4 * Max1(Len(s.ops))
      [] s.d = "blkb"      -> s.n
      [] s.d = "blkw"      -> s.n + s.n
      [] s.d = "even"      -> a % 2
      [] s.d = "odd"       -> (a + 1) % 2
      [] s.d = "align"     -> LeastPad(a, s.n)
      [] s.d = "ascii"     -> SumItemSizes(s.items, c, 1)
      [] s.d = "asciz"     -> SumItemSizes(s.items, c, 1) + 1
RECURSIVE SumSizes(_, _)
SumSizes(i, a) == IF i > Len(prog) THEN 0 ELSE LET z == Size(prog[i], a, cs) IN z + SumSizes(i + 1, a + z)

LenIsSum == IsOk => Len(image) = SumSizes(1, base)

\* --- Store round trip: decode the emitted little-endian field and ADD it to |v| (for negative v)
Decode(n, b) == CASE n = 8  -> <<0, b[1]>>
                  [] n = 16 -> <<0, b[1] + 256 * b[2]>>
                  [] n = 32 -> <<b[1] + 256 * b[2], b[3] + 256 * b[4]>>     \* first word = high word
\* u (unsigned n-bit field) is congruent to v modulo 2^n, v in (-2^n, 2^n)
Congruent(n, v, u) ==
    IF ~v.neg THEN u = <<v.hi, v.lo>>
    ELSE LET s == u[2] + v.lo                      \* u + |v| must be 0 or 2^n
             limit == IF n = 8 THEN 256 ELSE 65536
             c == s \div limit
         IN /\ s % limit = 0
            /\ IF n = 32 THEN (u[1] + v.hi + c) \in { 0, 65536 }
               ELSE u[1] = 0 /\ v.hi = 0 /\ (c = 1 \/ IsZero(v))
RoundTrip ==
    (HasLast /\ IsOk /\ Last.d \in StoreForms /\ Len(Last.ops) >= 1) =>
        LET n == Width(Last.d)  w == n \div 8  b == LastBytes IN
        /\ Len(b) = w * Len(Last.ops)
        /\ \A j \in 1..Len(Last.ops) :
              Congruent(n, Last.ops[j], Decode(n, SubSeq(b, w * (j - 1) + 1, w * j)))

ZeroOperand ==
    (HasLast /\ IsOk /\ Last.d \in StoreForms \ { "list" } /\ Last.ops = <<>>) =>
        (Len(LastBytes) = Width(Last.d) \div 8 /\ \A i \in 1..Len(LastBytes) : LastBytes[i] = 0)

\* --- Reject <=> out of range / odd address / negative count / unencodable, stated independently
MagGE(v, n) == LET p == Pow(n) IN v.hi > p[1] \/ (v.hi = p[1] /\ v.lo >= p[2])
Repertoire(c) == CASE c = "utf-8" -> { "ya", "eacute", "alpha", "cur" } [] c = "latin-1" -> { "eacute", "cur" }
                   [] c = "koi8-r" -> { "ya" }
                   [] OTHER -> { "ya", "cur" }                            \* bk, cp866: Cyrillic and the currency sign
ItemBad(it, c) == IF it.k = "raw" THEN it.v < 0 \/ it.v > 255
                  ELSE \/ AsciiCode(Denotes(it)) < 0 /\ Denotes(it) \notin Repertoire(c)
                       \/ Denotes(it) = "del" /\ c = "bk"             \* the written rule: bk is ASCII only up to 0x7E
ShouldReject(s, a, c) ==
    CASE s.d \in StoreForms -> \/ (s.d \notin ByteForms /\ a % 2 = 1)
                               \/ \E j \in 1..Len(s.ops) : MagGE(s.ops[j], Width(s.d))
      [] s.d \in { "blkb", "blkw" } -> s.n < 0
      [] s.d \in StrForms -> \E j \in 1..Len(s.items) : ItemBad(s.items[j], c)
      [] OTHER -> FALSE
RejectIff == HasLast => ((outcome = "error") <=> ShouldReject(Last, a0, cs))

\* --- padding and fill
PadOK ==
    (HasLast /\ IsOk) =>
        /\ Last.d = "align" => (Len(LastBytes) < Last.n /\ addr % Last.n = 0)
        /\ Last.d = "even"  => (Len(LastBytes) <= 1 /\ addr % 2 = 0 /\ (a0 % 2 = 0 => LastBytes = <<>>))
        /\ Last.d = "odd"   => (Len(LastBytes) <= 1 /\ addr % 2 = 1 /\ (a0 % 2 = 1 => LastBytes = <<>>))
ZeroFill ==
    (HasLast /\ IsOk /\ Last.d \in FillForms) =>
        /\ \A i \in 1..Len(LastBytes) : LastBytes[i] = 0
        /\ Last.d = "blkb" => Len(LastBytes) = Last.n
        /\ Last.d = "blkw" => Len(LastBytes) = 2 * Last.n
AscizEnds ==
    (HasLast /\ IsOk /\ Last.d = "asciz") => (Len(LastBytes) >= 1 /\ LastBytes[Len(LastBytes)] = 0)

(* ------------------------------------------------------------------ export for replay *)
Renderable == HasLast /\ \A i \in 1..Len(prog) : (prog[i].d = "list" => prog[i].ops # <<>>)
Export == Renderable =>
    PrintT(ToJson([mode |-> Mode, base |-> base, cs |-> cs, prog |-> prog, outcome |-> outcome, image |-> image]))
=============================================================================
