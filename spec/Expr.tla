-------------------------------- MODULE Expr --------------------------------
(* Expressions of the assembler language (C05; literal table also used by C10).

   Two independently shaped semantics of the same token strings, compared by TLC on every string
   that TLC itself writes, one token per step:

   (a) RefEval -- a recursive-descent evaluator over the finished token string, written from the
       documented table: prefix operators + - ~ ^C bind tightest, then * / %, then + -, then
       << >> _, then &, then ^, then | ! ; every infix operator is left associative; ( ), < > and
       ^x...x group; / and % floor toward minus infinity; a _ n shifts left for n >= 0 and right
       (arithmetically) for n < 0; << and >> with a negative count, division and modulo by zero, and
       a bare digit string containing 8 or 9 are errors.
   (b) the shunting machine -- the shape of the loop the assembler runs (an operand stack and an
       operator stack per open group, "pop while (prec, left) > (top.prec, FALSE)", prefix
       operators stacked before the first operand, the closing delimiter finishes the group).  It is
       not evaluated afterwards from the token string: it IS the state of the graph and advances with
       every token that is appended.

   ShuntEqualsGrammar says (a) = (b) on every complete token string.  Every complete string is
   exported with the predicted outcome and replayed into the real assembler as '.dword <expr>'.

   Literals: Lit records (style, sign, digits / characters) with LitValue, the documented reading
   (bare = octal, trailing dot = decimal, 0x 0o 0b and ^X ^O ^B ^D, 'c, "cc low byte first, ^R
   radix-50).  RespellPreservesValue: spelling a value in any radix and reading it back gives
   the value.  Mode "lit" writes literals digit by digit; mode "table" is the respelling table.

   TLC integers are 32 bit and overflow is an error, so every arithmetic step is guarded: a result
   (or an intermediate) outside (-2^30, 2^30) makes the outcome "skip" -- exported, counted by the
   harness, never predicted.  Bitwise operators on negative numbers work on two 16-bit
   two's-complement limbs (exact for every value in the window).                              *)
EXTENDS Integers, Sequences, FiniteSets, TLC, Json, Bitwise

CONSTANTS Mode,        \* "expr" | "lit" | "table"
          MaxTok,      \* expr: maximal number of tokens of a string
          MaxDepth,    \* expr: maximal nesting of groups
          Operands,    \* expr: operand classes in use (subset of OperandClasses)
          Infix,       \* expr: infix operators in use
          Prefix,      \* expr: prefix operators in use
          Brackets,    \* expr: subset of {"paren", "angle", "caret"}
          SymV,        \* value of the symbolic operand
          DotV,        \* value of '.'
          MaxDigits,   \* lit: maximal number of digits (one less for hexadecimal)
          DqChars      \* lit: "few" | "all" -- the characters used in "cc literals

LIM == 1073741824      \* 2^30; the modelled window is the open interval (-LIM, LIM)

(* ------------------------------------------------------------------ outcomes *)
Ok(v)   == [st |-> "ok", v |-> v]
Err(c)  == [st |-> "err", v |-> c]       \* c: 1 = 8/9 in a bare number, 2 = division by zero, 3 = negative shift count
Skip    == [st |-> "skip", v |-> 0]      \* outside the window (-2^30, 2^30): not predicted
SkipE   == [st |-> "skip", v |-> 1]      \* a shift of an erroneous operand: not predicted (see Apply2)
InWin(x) == x > -LIM /\ x < LIM
Guard(x) == IF InWin(x) THEN Ok(x) ELSE Skip
Abs(x)  == IF x < 0 THEN -x ELSE x

(* ------------------------------------------------------------------ arithmetic, guarded *)
SafeMul(a, b) == IF a = 0 \/ b = 0 THEN Ok(0)
                 ELSE IF Abs(a) <= (LIM - 1) \div Abs(b) THEN Ok(a * b) ELSE Skip
FloorDiv(a, b) == a \div b                       \* TLC: floors for either sign (5 \div -2 = -3)
FloorMod(a, b) == a - b * (a \div b)             \* sign of the divisor, like the quotient above
ShiftLeft(a, n)  == IF n > 30 THEN (IF a = 0 THEN Ok(0) ELSE Skip) ELSE SafeMul(a, 2 ^ n)
ShiftRight(a, n) == IF n >= 30 THEN Ok(IF a < 0 THEN -1 ELSE 0) ELSE Ok(a \div (2 ^ n))

(* two's complement on two 16-bit limbs; exact for every x in the window *)
Lo(x) == FloorMod(x, 65536)
Hi(x) == FloorMod(x \div 65536, 65536)
FromLimbs(h, l) == (IF h >= 32768 THEN h - 65536 ELSE h) * 65536 + l
BitAnd(a, b) == FromLimbs(Hi(a) & Hi(b), Lo(a) & Lo(b))
BitOr(a, b)  == FromLimbs(Hi(a) | Hi(b), Lo(a) | Lo(b))
BitXor(a, b) == FromLimbs(Hi(a) ^^ Hi(b), Lo(a) ^^ Lo(b))

InfixOps  == {"*", "/", "%", "+", "-", "<<", ">>", "_", "&", "^", "|", "!"}
PrefixOps == {"+", "-", "~", "^C"}

Bin(op, a, b) ==                                  \* a, b are in the window
    CASE op = "*"  -> SafeMul(a, b)
      [] op = "/"  -> IF b = 0 THEN Err(2) ELSE Ok(FloorDiv(a, b))
      [] op = "%"  -> IF b = 0 THEN Err(2) ELSE Ok(FloorMod(a, b))
      [] op = "+"  -> Guard(a + b)
      [] op = "-"  -> Guard(a - b)
      [] op = "<<" -> IF b < 0 THEN Err(3) ELSE ShiftLeft(a, b)
      [] op = ">>" -> IF b < -30 THEN Skip ELSE IF b < 0 THEN Err(3) ELSE ShiftRight(a, b)
      [] op = "_"  -> IF b >= 0 THEN ShiftLeft(a, b) ELSE ShiftRight(a, -b)
      [] op = "&"  -> Ok(BitAnd(a, b))
      [] op = "^"  -> Ok(BitXor(a, b))
      [] op = "|"  -> Ok(BitOr(a, b))
      [] op = "!"  -> Ok(BitOr(a, b))

Un(op, a) ==
    CASE op = "+"  -> Ok(a)
      [] op = "-"  -> Ok(-a)
      [] op = "~"  -> Guard(-a - 1)
      [] op = "^C" -> Guard(-a - 1)

(* outcomes of the operands decide first: anything unknown stays unknown, an error stays an error.
   Modelling limit: what the assembler computes AFTER it has reported an error is unspecified, and a
   shift can turn that unspecified number into one of astronomic size (the same holds for '>> -n'
   with a large n); a shift of an erroneous operand is therefore not predicted.  The other operators
   cannot leave any realistic range, so an error below them is predicted as an error.            *)
ShiftOps == {"<<", ">>", "_"}
Apply2(op, l, r) == IF l.st = "skip" THEN l
                    ELSE IF r.st = "skip" THEN r
                    ELSE IF op \in ShiftOps /\ (l.st = "err" \/ r.st = "err") THEN SkipE
                    ELSE IF l.st = "err" THEN l
                    ELSE IF r.st = "err" THEN r
                    ELSE Bin(op, l.v, r.v)
Apply1(op, x)    == IF x.st # "ok" THEN x ELSE Un(op, x.v)

(* ------------------------------------------------------------------ the documented table *)
Levels == << {"*", "/", "%"}, {"+", "-"}, {"<<", ">>", "_"}, {"&"}, {"^"}, {"|", "!"} >>
NLevels == 6
Prec(op) == CHOOSE k \in 1..NLevels : op \in Levels[k]     \* a smaller number binds tighter
PrefixPrec == 0                                            \* prefix operators bind tightest
LeftAssoc(op) == TRUE                                      \* every infix operator

(* ------------------------------------------------------------------ literals *)
(* characters of the upper half of the 'bk' output charset (pseudo-graphics and Cyrillic letters): indices 96..100 stand for the
   bytes 128, 160, 192, 209, 255; their text is a placeholder {XX} that the harness replaces by the character the charset decodes
   the byte to (a literal 'c / "cc holds the BYTE of its character, 0..255, never a negative number) *)
HighCodes == << 128, 160, 192, 209, 255 >>
HighText  == << "{80}", "{A0}", "{C0}", "{D1}", "{FF}" >>
HexDigit  == << "0", "1", "2", "3", "4", "5", "6", "7", "8", "9", "a", "b", "c", "d", "e", "f" >>
HexDigitU == << "0", "1", "2", "3", "4", "5", "6", "7", "8", "9", "A", "B", "C", "D", "E", "F" >>
(* printable ASCII, code = 31 + index *)
Ascii == << " ", "!", "\"", "#", "$", "%", "&", "'", "(", ")", "*", "+", ",", "-", ".", "/",
            "0", "1", "2", "3", "4", "5", "6", "7", "8", "9", ":", ";", "<", "=", ">", "?",
            "@", "A", "B", "C", "D", "E", "F", "G", "H", "I", "J", "K", "L", "M", "N", "O",
            "P", "Q", "R", "S", "T", "U", "V", "W", "X", "Y", "Z", "[", "\\", "]", "^", "_",
            "`", "a", "b", "c", "d", "e", "f", "g", "h", "i", "j", "k", "l", "m", "n", "o",
            "p", "q", "r", "s", "t", "u", "v", "w", "x", "y", "z", "{", "|", "}", "~" >>
ASSUME Len(Ascii) = 95
(* RADIX-50 alphabet, code = index - 1 *)
R50 == << " ", "A", "B", "C", "D", "E", "F", "G", "H", "I", "J", "K", "L", "M", "N", "O", "P", "Q", "R", "S",
          "T", "U", "V", "W", "X", "Y", "Z", "$", ".", "%", "0", "1", "2", "3", "4", "5", "6", "7", "8", "9" >>
R50L == << " ", "a", "b", "c", "d", "e", "f", "g", "h", "i", "j", "k", "l", "m", "n", "o", "p", "q", "r", "s",
           "t", "u", "v", "w", "x", "y", "z", "$", ".", "%", "0", "1", "2", "3", "4", "5", "6", "7", "8", "9" >>
ASSUME Len(R50) = 40 /\ Len(R50L) = 40

NumStyles == {"bare", "dot", "0x", "0o", "0b", "^X", "^O", "^B", "^D"}
StatedBase(style) == CASE style \in {"bare", "0o", "^O"} -> 8
                       [] style \in {"dot", "^D"}        -> 10
                       [] style \in {"0x", "^X"}         -> 16
                       [] style \in {"0b", "^B"}         -> 2
(* the digits a spelling of that style may be made of; a bare digit string may contain 8 and 9 *)
StyleDigits(style) == IF style = "bare" THEN 0..9 ELSE 0..(StatedBase(style) - 1)

(* Lit: [style, neg, upper, ds]; ds = digit values (numeric styles), Ascii indices ('c "cc) or
   R50 indices (^R).  neg = a '-' glued to a numeric literal; upper = prefix/digit letters in upper case. *)
RECURSIVE Horner(_, _, _, _)
Horner(ds, i, base, acc) ==                       \* guarded left fold  acc * base + digit
    IF i > Len(ds) THEN Ok(acc)
    ELSE IF acc > (LIM - 1 - ds[i]) \div base THEN Skip
    ELSE Horner(ds, i + 1, base, acc * base + ds[i])

CharCode(i) == IF i <= 95 THEN 31 + i ELSE HighCodes[i - 95]
CharText(i) == IF i <= 95 THEN Ascii[i] ELSE HighText[i - 95]
LitValue(l) ==
    CASE l.style \in NumStyles ->
            IF l.style = "bare" /\ \E i \in 1..Len(l.ds) : l.ds[i] >= 8 THEN Err(1)
            ELSE LET m == Horner(l.ds, 1, StatedBase(l.style), 0)
                 IN IF m.st = "ok" THEN Ok(IF l.neg THEN -m.v ELSE m.v) ELSE m
      [] l.style = "'"  -> Ok(CharCode(l.ds[1]))
      [] l.style = "\"" -> Ok(CharCode(l.ds[1]) + 256 * CharCode(l.ds[2]))           \* low byte first
      [] l.style = "^R" -> LET c(i) == IF i <= Len(l.ds) THEN l.ds[i] - 1 ELSE 0    \* padded with spaces
                           IN Ok((c(1) * 40 + c(2)) * 40 + c(3))

(* the text of a literal, as a sequence of characters *)
NumPrefix(style, upper) ==
    CASE style = "bare" -> <<>>
      [] style = "dot"  -> <<>>
      [] style = "0x"   -> IF upper THEN <<"0", "X">> ELSE <<"0", "x">>
      [] style = "0o"   -> IF upper THEN <<"0", "O">> ELSE <<"0", "o">>
      [] style = "0b"   -> IF upper THEN <<"0", "B">> ELSE <<"0", "b">>
      [] style = "^X"   -> IF upper THEN <<"^", "X">> ELSE <<"^", "x">>
      [] style = "^O"   -> IF upper THEN <<"^", "O">> ELSE <<"^", "o">>
      [] style = "^B"   -> IF upper THEN <<"^", "B">> ELSE <<"^", "b">>
      [] style = "^D"   -> IF upper THEN <<"^", "D">> ELSE <<"^", "d">>
LitText(l) ==
    CASE l.style \in NumStyles ->
            (IF l.neg THEN <<"-">> ELSE <<>>) \o NumPrefix(l.style, l.upper)
            \o [i \in 1..Len(l.ds) |-> IF l.upper THEN HexDigitU[l.ds[i] + 1] ELSE HexDigit[l.ds[i] + 1]]
            \o (IF l.style = "dot" THEN <<".">> ELSE <<>>)
      [] l.style = "'"  -> <<"'">> \o [i \in 1..Len(l.ds) |-> CharText(l.ds[i])]
      [] l.style = "\"" -> <<"\"">> \o [i \in 1..Len(l.ds) |-> CharText(l.ds[i])]
      [] l.style = "^R" -> (IF l.upper THEN <<"^", "R">> ELSE <<"^", "r">>)
                           \o [i \in 1..Len(l.ds) |-> IF l.upper THEN R50[l.ds[i]] ELSE R50L[l.ds[i]]]

NumLit(style, neg, upper, ds) == [style |-> style, neg |-> neg, upper |-> upper, ds |-> ds]

(* spelling a natural number in a base, with leading zeros *)
RECURSIVE DigitsOf(_, _)
DigitsOf(n, base) == IF n < base THEN <<n>> ELSE Append(DigitsOf(n \div base, base), n % base)
Zeros(k) == [i \in 1..k |-> 0]
Spell(style, v, pad, upper) == NumLit(style, v < 0, upper, Zeros(pad) \o DigitsOf(Abs(v), StatedBase(style)))

(* ------------------------------------------------------------------ operand classes *)
OperandClasses == {"0", "1", "2", "3", "5", "7", "8.", "10.", "-1", "-7", "100", "0x10", "^B101", "'A", "dqAB", "^RA",
                   "8", "19", "sym", "dot"}
OpdLit(c) ==
    CASE c = "0"     -> NumLit("bare", FALSE, FALSE, <<0>>)
      [] c = "1"     -> NumLit("bare", FALSE, FALSE, <<1>>)
      [] c = "2"     -> NumLit("bare", FALSE, FALSE, <<2>>)
      [] c = "3"     -> NumLit("bare", FALSE, FALSE, <<3>>)
      [] c = "5"     -> NumLit("bare", FALSE, FALSE, <<5>>)
      [] c = "7"     -> NumLit("bare", FALSE, FALSE, <<7>>)
      [] c = "8."    -> NumLit("dot", FALSE, FALSE, <<8>>)
      [] c = "10."   -> NumLit("dot", FALSE, FALSE, <<1, 0>>)
      [] c = "-1"    -> NumLit("bare", TRUE, FALSE, <<1>>)
      [] c = "-7"    -> NumLit("bare", TRUE, FALSE, <<7>>)
      [] c = "100"   -> NumLit("bare", FALSE, FALSE, <<1, 0, 0>>)
      [] c = "0x10"  -> NumLit("0x", FALSE, FALSE, <<1, 0>>)
      [] c = "^B101" -> NumLit("^B", FALSE, TRUE, <<1, 0, 1>>)
      [] c = "'A"    -> NumLit("'", FALSE, FALSE, <<34>>)
      [] c = "dqAB"  -> NumLit("\"", FALSE, FALSE, <<34, 35>>)
      [] c = "^RA"   -> NumLit("^R", FALSE, TRUE, <<2>>)
      [] c = "8"     -> NumLit("bare", FALSE, FALSE, <<8>>)          \* not octal: an error
      [] c = "19"    -> NumLit("bare", FALSE, FALSE, <<1, 9>>)       \* not octal: an error
OpdValue(c) == IF c = "sym" THEN Ok(SymV) ELSE IF c = "dot" THEN Ok(DotV) ELSE LitValue(OpdLit(c))

(* ------------------------------------------------------------------ tokens *)
Tok(k, s) == [k |-> k, s |-> s]          \* k: "opd" | "inf" | "pre" | "open" | "close";  s: class / operator / bracket style

(* ------------------------------------------------------------------ (a) reference evaluator
   Expr   ::= Level6
   Level_k::= Level_(k-1) { op_k Level_(k-1) }        left associative, k = 6 (or) down to k = 1 (multiplicative)
   Level_0::= prefix Level_0 | Primary
   Primary::= operand | open Expr close
   Each function returns [r |-> outcome, p |-> index of the first token not consumed].          *)
RECURSIVE RefLevel(_, _, _), RefTail(_, _, _, _), RefUnary(_, _), RefPrimary(_, _)
RefLevel(t, i, k) == IF k = 0 THEN RefUnary(t, i)
                     ELSE LET l == RefLevel(t, i, k - 1) IN RefTail(t, l.r, l.p, k)
RefTail(t, acc, i, k) ==
    IF i <= Len(t) /\ t[i].k = "inf" /\ t[i].s \in Levels[k]
    THEN LET r == RefLevel(t, i + 1, k - 1) IN RefTail(t, Apply2(t[i].s, acc, r.r), r.p, k)
    ELSE [r |-> acc, p |-> i]
RefUnary(t, i) == IF t[i].k = "pre"
                  THEN LET u == RefUnary(t, i + 1) IN [r |-> Apply1(t[i].s, u.r), p |-> u.p]
                  ELSE RefPrimary(t, i)
RefPrimary(t, i) == IF t[i].k = "opd" THEN [r |-> OpdValue(t[i].s), p |-> i + 1]
                    ELSE LET e == RefLevel(t, i + 1, NLevels) IN [r |-> e.r, p |-> e.p + 1]   \* skip the closing delimiter
RefEval(t) == RefLevel(t, 1, NLevels).r

(* ------------------------------------------------------------------ (b) the shunting machine
   A frame is one activation of the expression loop: the outermost expression or an open group.   *)
Frame(br) == [vals |-> <<>>, ops |-> <<>>, br |-> br]
OpRec(kind, s, prec, left) == [kind |-> kind, s |-> s, prec |-> prec, left |-> left]

PopOne(f) ==
    LET o == f.ops[Len(f.ops)]
        n == Len(f.vals)
    IN IF o.kind = "inf"
       THEN [f EXCEPT !.vals = Append(SubSeq(f.vals, 1, n - 2), Apply2(o.s, f.vals[n - 1], f.vals[n])),
                      !.ops = SubSeq(f.ops, 1, Len(f.ops) - 1)]
       ELSE [f EXCEPT !.vals = Append(SubSeq(f.vals, 1, n - 1), Apply1(o.s, f.vals[n])),
                      !.ops = SubSeq(f.ops, 1, Len(f.ops) - 1)]

(* lexicographic  (prec, left) > (topprec, FALSE)  *)
PopsTop(prec, left, top) == prec > top.prec \/ (prec = top.prec /\ left)

RECURSIVE PopWhile(_, _, _)
PopWhile(f, prec, left) == IF f.ops # <<>> /\ PopsTop(prec, left, f.ops[Len(f.ops)])
                           THEN PopWhile(PopOne(f), prec, left) ELSE f
RECURSIVE PopAll(_)
PopAll(f) == IF f.ops = <<>> THEN f ELSE PopAll(PopOne(f))
FrameValue(f) == LET g == PopAll(f) IN g.vals[Len(g.vals)]

VARIABLES toks,     \* the token string written so far
          frames,   \* the machine: stack of frames, innermost last
          need,     \* TRUE: an operand (or prefix operator, or opening bracket) must come next
          lit       \* modes "lit" and "table": the literal under construction
vars == <<toks, frames, need, lit>>

NoLit == [style |-> "none", neg |-> FALSE, upper |-> FALSE, ds |-> <<>>, pad |-> 0, v |-> 0]

Top == frames[Len(frames)]
SetTop(f) == [frames EXCEPT ![Len(frames)] = f]
OpenGroups == Len(frames) - 1
(* a string may only be extended if it can still be completed within MaxTok tokens *)
Room(extra) == Len(toks) + extra + OpenGroups <= MaxTok
AtHead == Top.vals = <<>> /\ \A i \in 1..Len(Top.ops) : Top.ops[i].kind = "pre"

WriteOperand == /\ need /\ Room(1)
                /\ \E c \in Operands :
                     /\ toks' = Append(toks, Tok("opd", c))
                     /\ frames' = SetTop([Top EXCEPT !.vals = Append(@, OpdValue(c))])
                /\ need' = FALSE /\ UNCHANGED lit

(* the assembler accepts a prefix operator only at the head of an expression or group *)
WritePrefix == /\ need /\ AtHead /\ Room(2)
               /\ \E p \in Prefix :
                    /\ toks' = Append(toks, Tok("pre", p))
                    /\ frames' = SetTop([Top EXCEPT !.ops = Append(@, OpRec("pre", p, PrefixPrec, TRUE))])
               /\ UNCHANGED <<need, lit>>

WriteOpen == /\ need /\ OpenGroups < MaxDepth /\ Room(3)
             /\ \E b \in Brackets :
                  /\ toks' = Append(toks, Tok("open", b))
                  /\ frames' = Append(frames, Frame(b))
             /\ UNCHANGED <<need, lit>>

WriteInfix == /\ ~need /\ Room(2)
              /\ \E op \in Infix :
                   /\ toks' = Append(toks, Tok("inf", op))
                   /\ frames' = SetTop(LET g == PopWhile(Top, Prec(op), LeftAssoc(op))
                                       IN [g EXCEPT !.ops = Append(@, OpRec("inf", op, Prec(op), LeftAssoc(op)))])
              /\ need' = TRUE /\ UNCHANGED lit

WriteClose == /\ ~need /\ OpenGroups > 0
              /\ toks' = Append(toks, Tok("close", Top.br))
              /\ LET v == FrameValue(Top)
                     rest == SubSeq(frames, 1, Len(frames) - 1)
                     par == rest[Len(rest)]
                 IN frames' = [rest EXCEPT ![Len(rest)] = [par EXCEPT !.vals = Append(@, v)]]
              /\ UNCHANGED <<need, lit>>

ExprNext == Mode = "expr" /\ (WriteOperand \/ WritePrefix \/ WriteOpen \/ WriteInfix \/ WriteClose)

Complete == Mode = "expr" /\ ~need /\ Len(frames) = 1 /\ toks # <<>>
ShuntValue == FrameValue(frames[1])

(* ------------------------------------------------------------------ mode "lit": literals written digit by digit *)
(* Ascii indices.  ' cannot be the character of a character literal and \ starts an escape (both are
   spelling rules of the language, not arithmetic); " ends a "cc literal early. *)
AllChars     == ((1..95) \ {8, 61}) \cup (96..100)
FewChars     == {1, 2, 3, 17, 27, 28, 30, 33, 34, 59, 66, 91, 95} \cup (96..100)     \* space ! " 0 : ; = @ A Z a z ~ and the five high characters
SqAlphabet   == AllChars
DqAlphabet   == (IF DqChars = "all" THEN AllChars ELSE FewChars) \ {3}
R50Alphabet  == {2, 27, 28, 29, 30, 31, 40}                           \* R50 indices:   A Z $ . % 0 9
LitStart == /\ Mode = "lit" /\ lit.style = "none"
            /\ \/ \E s \in NumStyles, n \in BOOLEAN, u \in BOOLEAN : lit' = [NoLit EXCEPT !.style = s, !.neg = n, !.upper = u]
               \/ \E s \in {"'", "\""} : lit' = [NoLit EXCEPT !.style = s]
               \/ \E u \in BOOLEAN : lit' = [NoLit EXCEPT !.style = "^R", !.upper = u]
            /\ UNCHANGED <<toks, frames, need>>
LitDigit == /\ Mode = "lit" /\ lit.style # "none"
            /\ \/ lit.style \in NumStyles /\ Len(lit.ds) < (IF StatedBase(lit.style) = 16 THEN MaxDigits - 1 ELSE MaxDigits)
                  /\ \E d \in StyleDigits(lit.style) : lit' = [lit EXCEPT !.ds = Append(@, d)]
               \/ lit.style = "'" /\ Len(lit.ds) < 1 /\ \E c \in SqAlphabet : lit' = [lit EXCEPT !.ds = Append(@, c)]
               \/ lit.style = "\"" /\ Len(lit.ds) < 2 /\ \E c \in DqAlphabet : lit' = [lit EXCEPT !.ds = Append(@, c)]
               \/ lit.style = "^R" /\ Len(lit.ds) < 3 /\ \E c \in R50Alphabet : lit' = [lit EXCEPT !.ds = Append(@, c)]
            /\ UNCHANGED <<toks, frames, need>>
LitComplete == /\ Mode = "lit" /\ lit.style # "none"
               /\ CASE lit.style = "'"  -> Len(lit.ds) = 1
                    [] lit.style = "\"" -> Len(lit.ds) = 2
                    [] OTHER            -> Len(lit.ds) >= 1

(* ------------------------------------------------------------------ mode "table": every spelling of a value *)
TableValues == {0, 1, 7, 8, 9, 10, 255, 256, 65535, 65536, 2, 3, 5, 64, 16, 1600, 16961, 65, 512, -1, -7, -8, -255, -65536}
TableInit == \E v \in TableValues, s \in NumStyles, pad \in 0..1, u \in BOOLEAN :
                lit = Spell(s, v, pad, u) @@ [pad |-> pad, v |-> v]

Init == /\ toks = <<>> /\ frames = << Frame("top") >> /\ need = TRUE
        /\ IF Mode = "table" THEN TableInit ELSE lit = NoLit
Next == ExprNext \/ LitStart \/ LitDigit
Spec == Init /\ [][Next]_vars

(* ------------------------------------------------------------------ properties checked by TLC *)
TypeOK == /\ Len(toks) <= MaxTok
          /\ Len(frames) >= 1 /\ Len(frames) <= MaxDepth + 1
          /\ \A i \in 1..Len(frames) : \A j \in 1..Len(frames[i].vals) : frames[i].vals[j].st \in {"ok", "err", "skip"}
(* the machine never holds more than it should: between tokens, #vals = #infix ops (+1 when an operand was just read) *)
StackShape == Mode = "expr" =>
              \A i \in 1..Len(frames) :
                 LET f == frames[i]
                     ninf == Cardinality({j \in 1..Len(f.ops) : f.ops[j].kind = "inf"})
                 IN Len(f.vals) = ninf + (IF i = Len(frames) /\ ~need THEN 1 ELSE 0)
ShuntEqualsGrammar == Complete => ShuntValue = RefEval(toks)
InWindow == Complete => (ShuntValue.st = "ok" => InWin(ShuntValue.v))
RespellPreservesValue == Mode = "table" => LitValue(lit) = Ok(lit.v)
(* a literal denotes the same value with upper- and lower-case letters and its sign is the glued '-' *)
LitCaseSign == (Mode = "lit" /\ LitComplete /\ lit.style \in NumStyles) =>
                 LET a == LitValue(lit)
                     b == LitValue([lit EXCEPT !.upper = ~lit.upper])
                     c == LitValue([lit EXCEPT !.neg = ~lit.neg])
                 IN a = b /\ (a.st = "ok" => c = Ok(-a.v)) /\ (a.st # "ok" => c = a)

(* ------------------------------------------------------------------ export for replay into the real assembler *)
TokText(t) == CASE t.k = "opd"   -> "#" \o t.s
                [] t.k = "inf"   -> t.s
                [] t.k = "pre"   -> "p" \o t.s
                [] t.k = "open"  -> "[" \o t.s
                [] t.k = "close" -> "]" \o t.s
ExportExpr == Complete =>
                LET r == ShuntValue IN
                PrintT(ToJson([t |-> [i \in 1..Len(toks) |-> TokText(toks[i])], st |-> r.st, v |-> r.v]))
(* an erroneous expression stays erroneous whatever is done with its value: the string  < E + 1 > * 0  (and  0 * < E >) of every short
   erroneous E is exported as well, with the value the reference evaluator gives the WHOLE string *)
Wrapped(ts) == << Tok("open", "angle") >> \o ts \o << Tok("inf", "+"), Tok("opd", "1"), Tok("close", "angle"), Tok("inf", "*"), Tok("opd", "0") >>
Wrapped2(ts) == << Tok("opd", "0"), Tok("inf", "*"), Tok("open", "paren") >> \o ts \o << Tok("close", "paren") >>
ExportWrapped == (Complete /\ Len(toks) <= 5 /\ ShuntValue.st = "err" /\ "0" \in Operands /\ "1" \in Operands
                  /\ "angle" \in Brackets /\ "paren" \in Brackets) =>
                \A w \in { Wrapped(toks), Wrapped2(toks) } :
                   LET r == RefEval(w) IN
                   PrintT(ToJson([t |-> [i \in 1..Len(w) |-> TokText(w[i])], st |-> r.st, v |-> r.v]))
ExportLit == (Mode = "lit" /\ LitComplete) =>
                LET r == LitValue(lit) IN
                PrintT(ToJson([m |-> "lit", style |-> lit.style, txt |-> LitText(lit), st |-> r.st, v |-> r.v]))
ExportTable == (Mode = "table") =>
                LET r == LitValue(lit) IN
                PrintT(ToJson([m |-> "spell", style |-> lit.style, txt |-> LitText(lit), st |-> r.st, v |-> r.v, want |-> lit.v]))
(* the operand classes: text and value, printed once (initial state) *)
ExportOperands == (Mode = "expr" /\ toks = <<>>) =>
                \A c \in Operands \ {"sym", "dot"} :
                   LET r == OpdValue(c) IN
                   PrintT(ToJson([m |-> "opd", c |-> c, txt |-> LitText(OpdLit(c)), st |-> r.st, v |-> r.v]))
=============================================================================
