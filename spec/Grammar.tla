------------------------------ MODULE Grammar ------------------------------
(* Grammar G of DESIGN.md section 4 as a derivation machine (input source of C08; C18 reuses it).

   State: a sentential form (sequence of symbols, each with its nesting depth), the number of
   expansions made, the statements generated, and a mutation budget.  `Expand(p)` rewrites the
   LEFTMOST nonterminal by production p.  Terminals are token CLASSES (2-5 concrete
   representatives each, chosen by the renderer harness/grammar.py with a seeded generator);
   "fault:<kind>" terminals are planted faults from the catalogue of section 4 (rendered from a
   template).  When no nonterminal is left the sentence may be mutated (<= MaxMut times):
        token level   (applied here)       del / dup / swap / rep(by any terminal of G)
        character level (applied by the renderer at token `at`, offset `off`)
                      cdel / cins / crep  with a character of
                      { space tab NL ; , : . = ( ) < > { } ^ @ # % ' " / \ + - * 0 8 9 a r alpha }
   Breadth-first search with Expansions <= MaxExp enumerates EVERY program with that many
   expansions (all one- and two-statement programs over the classes); `-simulate` produces long
   ones (Targets up to 60 statements, nesting <= MaxDepth = 8).

   Bounds kept by construction (the watchdog cannot interrupt a C-level big-integer operation):
   `.repeat` / `.align` counts and shift counts are their own small-literal classes (repcnt <= 64
   outermost and <= 3 nested, aligncnt <= 64, shcnt <= 40); include/insert paths come from a
   class of names the harness materialises.  The renderer re-checks these bounds on the final
   (mutated) text and drops - and counts - texts that leave them.                             *)
EXTENDS Naturals, Sequences, FiniteSets, TLC, Json

CONSTANTS TargetLo, TargetHi,   \* program lengths: statements generated, TargetLo..TargetHi
          MaxExp,      \* bound on the number of expansions (BFS); large for simulation
          MaxDepth,    \* nesting bound (8)
          MaxMut,      \* mutations per program (<= 3)
          MaxFaults,   \* planted faults per program
          CharMuts,    \* TRUE: character-level mutations enabled
          Sim          \* TRUE under -simulate: mutation sites are drawn with RandomElement instead of
                       \* being enumerated (a sentence of 300 tokens has > 10^5 single mutations)

VARIABLES form,    \* the terminals derived so far (the sentence, once `stack` is empty)
          stack,   \* the rest of the sentential form: pending symbols, leftmost first
          nexp, nst, target, muts, nfault
vars == <<form, stack, nexp, nst, target, muts, nfault>>

T(s)    == [s |-> s, d |-> 0]                 \* a terminal (token class or literal punctuation)
N(s, d) == [s |-> s, d |-> d]                 \* a nonterminal at nesting depth d

NonTerminals == {"PROG", "STMT", "OPERAND", "REG", "EXPR", "STRING", "STRTAIL", "REPBODY", "OPTSTR", "OPTSTR2"}
IsNT(x) == x.s \in NonTerminals

FaultKinds == {"undefined-symbol", "duplicate-label", "duplicate-constant", "duplicate-local", "duplicate-export",
               "register-as-value", "byte-too-wide", "word-too-wide", "dword-too-wide", "immediate-too-wide",
               "index-too-wide", "negative-count", "digit-8-in-octal", "division-by-zero", "negative-shift",
               "branch-out-of-reach", "odd-branch", "sob-forward", "too-few-operands", "too-many-operands",
               "unknown-instruction", "label-as-instruction", "unterminated-string", "unknown-escape",
               "invalid-caret-prefix", "missing-operand-after-comma", "unexpected-comma", "user-error",
               "unencodable-character", "word-at-odd-address", "second-link", "self-dependent-link",
               "backward-dot-assign", "missing-include", "missing-insert", "local-label-external",
               "label-in-repeat", "cyclic-definition", "align-zero", "invalid-rad50-character",
               "rad50-code-too-large", "overlong-tape-name", "excess-hash",
               \* structural directives inside a .repeat whose count is a forward reference (the body is compiled late)
               "end-in-lazy-repeat", "once-in-lazy-repeat", "include-in-lazy-repeat", "rad50-digits-overflow",
               \* characters outside an alphabet that Unicode case mapping folds into it (dotted capital I, Kelvin sign, dotless i, long s)
               "caret-r-case-folding-character", "rad50-case-folding-character", "mnemonic-case-folding-character",
               \* a diagnostic with spans in two files (the earlier definition far down in a long included file)
               "cross-file-duplicate-export", "cross-file-duplicate-constant", "cross-file-sob-forward", "non-ascii-digit",
               "include-own-link-aborted", "include-own-dot-aborted", "include-own-link-nested-syntax-error",
               "unencodable-string-with-forward-chunk",
               \* two open findings about blocks that are compiled late (count defined further down): a base directive inside one next to
               \* a base directive that waits for the block's size, and a file that includes itself from inside one
               "two-links-one-in-lazy-repeat", "self-include-in-lazy-repeat"}

(* ---- terminal classes (the renderer's table has one entry per name) ---- *)
AtomClasses == {"oct", "dec", "d89", "cnum", "caretnum", "negnum", "bignum", "name", "namecolon", "local", "localcolon",
                "dot", "char", "dchar", "r50", "regname", "mnname"}
InfixClasses == {"addop", "mulop", "divop", "bitop"}
OtherTerminals == {"nl", ",", ":", "::", "=", "==", "(", ")", ")+", "-(", "@", "#", "@#", "%", "{", "}", "<", ">", "^/", "/^",
                   "prefix", "shl", "shr", "shcnt", "reg", "acc",
                   "mn", "mn0", "mn1", "mn2", "br", "sob", "mnreg", "mnimm", "mnfp",
                   "datadir", "strdir", "blkdir", "smallcnt", ".align", "aligncnt", "evenodd", ".repeat", "repcnt", "repcnt1",
                   ".link", ".end", ".once", ".extern", "all", ".include", "insert_file", "incpath", "makedir", "makewav",
                   ".error", "titledir", "text", ".ident", "listdir", "nodot", "quoted", "badquoted"}
Terminals == AtomClasses \cup InfixClasses \cup OtherTerminals \cup {"fault:" \o k : k \in FaultKinds}

MaxStmts == 60
CharSetSize == 37          \* the character set of section 4 (37 characters; the list is in harness/grammar.py)

(* ---- productions: nonterminal (with depth d) -> set of right-hand sides ---- *)
Deeper(d) == d < MaxDepth

ExprProds(d) ==
    {<<T(c)>> : c \in AtomClasses}
    \cup (IF Deeper(d) THEN
            { <<T("prefix"), N("EXPR", d + 1)>>,
              <<N("EXPR", d + 1), T("shl"), T("shcnt")>>,
              <<N("EXPR", d + 1), T("shr"), T("shcnt")>>,
              <<T("("), N("EXPR", d + 1), T(")")>>,
              <<T("<"), N("EXPR", d + 1), T(">")>>,
              <<T("^/"), N("EXPR", d + 1), T("/^")>>,
              <<N("EXPR", d + 1), T("("), N("EXPR", d + 1), T(")")>> }
            \cup {<<N("EXPR", d + 1), T(c), N("EXPR", d + 1)>> : c \in InfixClasses}
          ELSE {})

RegProds(d) == {<<T("reg")>>} \cup (IF Deeper(d) THEN {<<T("%"), N("EXPR", d + 1)>>} ELSE {})

OperandProds(d) ==
    { <<N("REG", d)>>, <<T("("), N("REG", d), T(")")>>, <<T("("), N("REG", d), T(")+")>>, <<T("-("), N("REG", d), T(")")>>,
      <<T("#"), N("EXPR", d)>>, <<T("@#"), N("EXPR", d)>>, <<N("EXPR", d), T("("), N("REG", d), T(")")>>,
      <<N("EXPR", d)>>, <<T("acc")>> }
    \cup (IF Deeper(d) THEN {<<T("@"), N("OPERAND", d + 1)>>} ELSE {})

StringProds(d)  == {<<T("quoted"), N("STRTAIL", d)>>, <<T("badquoted")>>}
StrTailProds(d) == {<<>>}
                   \cup (IF Deeper(d) THEN {<<T("quoted"), N("STRTAIL", d + 1)>>,
                                            <<T("<"), N("EXPR", d + 1), T(">"), N("STRTAIL", d + 1)>>}
                         ELSE {})
OptStrProds(d)  == {<<>>, <<N("STRING", d)>>}
OptStr2Prods(d) == {<<>>, <<N("STRING", d)>>, <<N("STRING", d), T(","), N("STRING", d)>>}

RepBodyProds(d) == {<<>>, <<N("STMT", d), T("nl")>>, <<N("STMT", d), T("nl"), N("STMT", d), T("nl")>>}

StmtProds(d) ==
    LET E == N("EXPR", d) O == N("OPERAND", d) S == N("STMT", d) IN
    (* label [stmt] *)
    { <<T("name"), T(":")>>, <<T("name"), T("::")>>, <<T("local"), T(":")>>, <<T("mnname"), T(":")>> }
    \cup (IF Deeper(d) THEN { <<T("name"), T(":"), N("STMT", d + 1)>>, <<T("local"), T(":"), N("STMT", d + 1)>>,
                              <<T("name"), T("::"), N("STMT", d + 1)>> } ELSE {})
    (* assign *)
    \cup { <<T("name"), T("="), E>>, <<T("name"), T("=="), E>>, <<T("dot"), T("="), E>>, <<T("regname"), T("="), E>> }
    (* insn: 0..3 operands whatever the signature, plus the well-formed signatures *)
    \cup { <<T("mn")>>, <<T("mn"), O>>, <<T("mn"), O, T(","), O>>, <<T("mn"), O, T(","), O, T(","), O>>,
           <<T("mn0")>>, <<T("mn1"), O>>, <<T("mn2"), O, T(","), O>>, <<T("br"), E>>, <<T("sob"), N("REG", d), T(","), E>>,
           <<T("mnreg"), N("REG", d)>>, <<T("mnimm"), E>>, <<T("mnfp"), O, T(","), T("acc")>>, <<T("mnfp"), T("acc"), T(","), O>> }
    (* meta *)
    \cup { <<T("datadir")>>, <<T("datadir"), E>>, <<T("datadir"), E, T(","), E>>, <<T("datadir"), E, T(","), E, T(","), E>>,
           <<T("strdir"), N("STRING", d)>>,
           <<T("blkdir"), T("smallcnt")>>, <<T("blkdir"), E>>, <<T(".align"), T("aligncnt")>>, <<T("evenodd")>>,
           <<T(".link"), E>>, <<T(".end")>>, <<T(".once")>>,
           <<T(".extern"), T("name")>>, <<T(".extern"), T("name"), T(","), T("name")>>, <<T(".extern"), T("all")>>,
           <<T(".include"), T("incpath")>>, <<T("insert_file"), T("incpath")>>,
           <<T("makedir"), N("OPTSTR", d)>>, <<T("makewav"), N("OPTSTR2", d)>>,
           <<T(".error")>>, <<T(".error"), T("text")>>, <<T("titledir"), T("text")>>, <<T(".ident"), N("STRING", d)>>,
           <<T("listdir")>> }
    \cup (IF Deeper(d) THEN { <<T(".repeat"), T(IF d = 0 THEN "repcnt" ELSE "repcnt1"), T("{"), N("REPBODY", d + 1), T("}")>>,
                              <<T("nodot"), N("STMT", MaxDepth)>> }      \* dotless form of a directive (meta-typo path)
          ELSE {})
    (* wordlist *)
    \cup { <<E>>, <<E, T(","), E>>, <<E, T(","), E, T(","), E>> }

Prods(x) ==
    CASE x.s = "STMT"    -> StmtProds(x.d)
      [] x.s = "EXPR"    -> ExprProds(x.d)
      [] x.s = "OPERAND" -> OperandProds(x.d)
      [] x.s = "REG"     -> RegProds(x.d)
      [] x.s = "STRING"  -> StringProds(x.d)
      [] x.s = "STRTAIL" -> StrTailProds(x.d)
      [] x.s = "OPTSTR"  -> OptStrProds(x.d)
      [] x.s = "OPTSTR2" -> OptStr2Prods(x.d)
      [] x.s = "REPBODY" -> RepBodyProds(x.d)
      [] OTHER           -> {}

HasNT     == stack # <<>>
Top       == stack[1]
CountStmt(rhs)  == Cardinality({j \in 1..Len(rhs) : rhs[j].s = "STMT"})

(* after a rewrite, the terminals at the front of the pending symbols belong to the sentence *)
RECURSIVE LeadT(_, _)
LeadT(sq, i) == IF i > Len(sq) \/ IsNT(sq[i]) THEN i - 1 ELSE LeadT(sq, i + 1)
Rewrite(rhs) == LET ns == rhs \o Tail(stack) k == LeadT(ns, 1) IN
                /\ form' = form \o [i \in 1..k |-> ns[i].s]
                /\ stack' = SubSeq(ns, k + 1, Len(ns))

Pick(S) == IF Sim /\ S # {} THEN {RandomElement(S)} ELSE S

Init == /\ target \in TargetLo..TargetHi /\ form = <<>> /\ stack = <<N("PROG", 0)>> /\ nexp = 0 /\ nst = 0
        /\ muts = <<>> /\ nfault = 0

(* PROG unfolds deterministically into `target` statements (not counted as an expansion) *)
Unfold == /\ HasNT /\ Top.s = "PROG"
          /\ Rewrite(IF nst < target THEN <<N("STMT", 0), T("nl"), N("PROG", 0)>> ELSE <<>>)
          /\ nst' = IF nst < target THEN nst + 1 ELSE nst
          /\ UNCHANGED <<nexp, target, muts, nfault>>

Expand == /\ HasNT /\ Top.s # "PROG" /\ nexp < MaxExp
          /\ \E rhs \in Pick({r \in Prods(Top) : nst + CountStmt(r) <= MaxStmts}) :
               /\ Rewrite(rhs)
               /\ nst' = nst + CountStmt(rhs)
          /\ nexp' = nexp + 1 /\ UNCHANGED <<target, muts, nfault>>

PlantFault == /\ HasNT /\ Top.s = "STMT" /\ nfault < MaxFaults /\ nexp < MaxExp
              /\ (Sim => RandomElement(1..8) = 1)
              /\ \E k \in Pick(FaultKinds) : Rewrite(<<T("fault:" \o k)>>)
              /\ nfault' = nfault + 1 /\ nexp' = nexp + 1 /\ UNCHANGED <<nst, target, muts>>

Complete == ~HasNT
Positions == Pick(1..Len(form))
AllMutKinds == {"del", "dup", "swap", "rep"} \cup (IF CharMuts THEN {"cdel", "cins", "crep"} ELSE {})
MutKinds(n) == Pick({k \in AllMutKinds : n >= 0})       \* (a parameter: TLC evaluates a constant-level definition only once)

Mutate == /\ Complete /\ Len(muts) < MaxMut /\ Len(form) > 0
          /\ \E pos \in Positions, kind \in MutKinds(Len(form)) :
               CASE kind = "del" ->
                      /\ form' = SubSeq(form, 1, pos - 1) \o SubSeq(form, pos + 1, Len(form))
                      /\ muts' = Append(muts, [kind |-> "del", at |-> pos, off |-> 0, ch |-> 0])
                 [] kind = "dup" ->
                      /\ form' = SubSeq(form, 1, pos) \o SubSeq(form, pos, Len(form))
                      /\ muts' = Append(muts, [kind |-> "dup", at |-> pos, off |-> 0, ch |-> 0])
                 [] kind = "swap" ->
                      /\ pos < Len(form)
                      /\ form' = [form EXCEPT ![pos] = form[pos + 1], ![pos + 1] = form[pos]]
                      /\ muts' = Append(muts, [kind |-> "swap", at |-> pos, off |-> 0, ch |-> 0])
                 [] kind = "rep" ->
                      \E c \in Pick(Terminals \ {form[pos]}) :
                        /\ form' = [form EXCEPT ![pos] = c]
                        /\ muts' = Append(muts, [kind |-> "rep", at |-> pos, off |-> 0, ch |-> 0])
                 [] OTHER ->          \* character level: recorded, applied by the renderer
                      /\ \E off \in Pick(0..2), ch \in Pick(1..CharSetSize) :
                           /\ (kind = "cdel" => ch = 1 \/ Sim)
                           /\ muts' = Append(muts, [kind |-> kind, at |-> pos, off |-> off, ch |-> ch])
                      /\ UNCHANGED form
          /\ UNCHANGED <<stack, nexp, nst, target, nfault>>

Next == Unfold \/ Expand \/ PlantFault \/ Mutate
Spec == Init /\ [][Next]_vars

(* ---- checked by TLC ---- *)
TypeOK     == nexp \in 0..MaxExp /\ Len(muts) <= MaxMut /\ nfault <= MaxFaults
DepthOK    == \A i \in 1..Len(stack) : stack[i].d <= MaxDepth                \* nesting never exceeds the bound
StmtBound  == nst <= MaxStmts                                               \* at most 60 statements, nested ones included
OnlyTerminalsWhenComplete == \A i \in 1..Len(form) : form[i] \in Terminals

(* ---- export: every complete sentence (before and after each mutation) ---- *)
CharMutsOf == SelectSeq(muts, LAMBDA m : m.kind \in {"cdel", "cins", "crep"})
Export == Complete => PrintT(ToJson([m |-> "g", toks |-> form, muts |-> muts,
                                     cm |-> CharMutsOf, nst |-> nst, nexp |-> nexp, nf |-> nfault]))
=============================================================================
