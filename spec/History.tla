------------------------------ MODULE History ------------------------------
(* C18: assemblies composed sequentially in ONE process.

   The module-level evaluation state of pdpy11 is three counters
        depth  = try_compute.depth                       (deferred.py)
        alen   = len(Awaiting.awaiting_stack)            (deferred.py)
        hlen   = len(handle_reports.handlers_stack)      (reports.py)
   each maintained by a context manager.  One assembly is a pushdown run: `Begin(kind)` enters
   handle_reports, evaluation nests try_compute ("t") and Awaiting ("a") blocks, and the assembly
   ends in the way its KIND says:
        valid, warning      returns normally
        deep                returns normally after nesting to the bound (a deep forward chain)
        error               an error is reported; handle_reports.__exit__ raises UnrecoverableError
        critical            UnrecoverableError is raised at once (parse abort), no evaluation active
        internal            some other exception is raised inside nested evaluation
        cycle               DeferredCycle is raised by Awaiting.__enter__ (before its push)
        interrupted         the watchdog's exception arrives at an arbitrary point of evaluation
   Exceptions unwind ONE FRAME PER STEP, each frame doing what its __exit__ does; NotReadyError is
   swallowed by the nearest try_compute block (that is how every valid program evaluates forward
   references).  Checked: between assemblies the state is what it was initially (Restored), whatever
   the history -- with the one documented exception (AsyncInside = TRUE): an ASYNCHRONOUS interrupt
   may land inside Awaiting.__enter__ after the push, so that no __exit__ ever pops the entry; the
   dead entry stays below every later push/pop pair.  That is why the readings of the three counters
   are diagnostic in C18 and the verdict is taken on probe results.

   Role (M->C): every history (all of length <= MaxLen by BFS, long ones by simulation) is exported
   and played by harness/checks/C18.py in one process, followed by probe programs.               *)
EXTENDS Naturals, Sequences, FiniteSets, TLC, Json

CONSTANTS Kinds,        \* subset of {"valid","warning","error","critical","internal","cycle","interrupted","deep"}
          MaxLen,       \* assemblies per history
          MaxNest,      \* evaluation nesting explored
          AsyncInside,  \* TRUE: the interrupt may also land inside Awaiting.__enter__ (after the push)
          ExportMin,    \* export histories of at least this length
          Sim           \* TRUE under -simulate (kinds drawn at random)

VARIABLES hist, cur, stack, depth, alen, hlen, exc, dead, reported, peak
vars == <<hist, cur, stack, depth, alen, hlen, exc, dead, reported, peak>>

Init == /\ hist = <<>> /\ cur = "none" /\ stack = <<>> /\ depth = 0 /\ alen = 0 /\ hlen = 0
        /\ exc = "none" /\ dead = 0 /\ reported = FALSE /\ peak = 0

Pick(S) == IF Sim /\ S # {} THEN {RandomElement(S)} ELSE S
Top     == stack[Len(stack)]
Pop     == SubSeq(stack, 1, Len(stack) - 1)
Count(f) == Cardinality({i \in 1..Len(stack) : stack[i] = f})

Begin == /\ cur = "none" /\ Len(hist) < MaxLen
         /\ \E k \in Pick(Kinds) : cur' = k
         /\ stack' = <<"h">> /\ hlen' = hlen + 1              \* with handle_reports(handler):
         /\ reported' = FALSE /\ peak' = 0
         /\ UNCHANGED <<hist, depth, alen, exc, dead>>

Evaluating == cur # "none" /\ exc = "none" /\ stack # <<>> /\ cur # "critical"

Nest == /\ Evaluating /\ Len(stack) <= MaxNest
        /\ \/ /\ stack' = Append(stack, "t") /\ depth' = depth + 1 /\ UNCHANGED alen      \* with try_compute:
           \/ /\ stack' = Append(stack, "a") /\ alen' = alen + 1 /\ UNCHANGED depth       \* with Awaiting(d):
        /\ peak' = IF Len(stack) > peak THEN Len(stack) ELSE peak
        /\ UNCHANGED <<hist, cur, hlen, exc, dead, reported>>

Return == /\ Evaluating /\ Len(stack) > 1                        \* a nested block ends normally
          /\ stack' = Pop
          /\ IF Top = "t" THEN depth' = depth - 1 /\ UNCHANGED alen ELSE alen' = alen - 1 /\ UNCHANGED depth
          /\ UNCHANGED <<hist, cur, hlen, exc, dead, reported, peak>>

NotReady == /\ Evaluating /\ depth > 0 /\ exc' = "NotReady"      \* not_ready(): only under try_compute
            /\ UNCHANGED <<hist, cur, stack, depth, alen, hlen, dead, reported, peak>>

ReportError == /\ Evaluating /\ cur = "error" /\ ~reported /\ reported' = TRUE
               /\ UNCHANGED <<hist, cur, stack, depth, alen, hlen, exc, dead, peak>>

Raise == /\ cur # "none" /\ exc = "none" /\ stack # <<>>
         /\ \/ /\ cur = "critical" /\ exc' = "Unrecoverable" /\ UNCHANGED <<alen, dead>>
            \/ /\ cur = "internal" /\ Len(stack) > 1 /\ exc' = "Internal" /\ UNCHANGED <<alen, dead>>
            \/ /\ cur = "cycle" /\ Top = "a" /\ exc' = "Cycle" /\ UNCHANGED <<alen, dead>>   \* __enter__ raises before its push
            \/ /\ cur = "interrupted" /\ Len(stack) > 1 /\ exc' = "Hang" /\ UNCHANGED <<alen, dead>>
            \/ /\ cur = "interrupted" /\ AsyncInside /\ Len(stack) > 1                        \* inside __enter__, after the push
               /\ exc' = "Hang" /\ alen' = alen + 1 /\ dead' = dead + 1
         /\ UNCHANGED <<hist, cur, stack, depth, hlen, reported, peak>>

Unwind == /\ exc # "none" /\ stack # <<>>
          /\ stack' = Pop
          /\ CASE Top = "t" -> /\ depth' = depth - 1 /\ UNCHANGED <<alen, hlen>>             \* TryCompute.__exit__
                               /\ exc' = IF exc = "NotReady" THEN "none" ELSE exc
               [] Top = "a" -> alen' = alen - 1 /\ UNCHANGED <<depth, hlen, exc>>            \* Awaiting.__exit__
               [] Top = "h" -> hlen' = hlen - 1 /\ UNCHANGED <<depth, alen, exc>>            \* handle_reports.__exit__
          /\ UNCHANGED <<hist, cur, dead, reported, peak>>

Done(k) == CASE k \in {"valid", "warning"} -> TRUE
             [] k = "deep"  -> peak >= MaxNest
             [] k = "error" -> reported
             [] OTHER       -> FALSE

LeaveHandler == /\ Evaluating /\ stack = <<"h">> /\ Done(cur)                 \* the with-block ends
                /\ stack' = <<>> /\ hlen' = hlen - 1
                /\ exc' = IF cur = "error" THEN "Unrecoverable" ELSE "none"   \* the latch
                /\ UNCHANGED <<hist, cur, depth, alen, dead, reported, peak>>

End == /\ cur # "none" /\ stack = <<>>
       /\ hist' = Append(hist, cur) /\ cur' = "none" /\ exc' = "none" /\ reported' = FALSE /\ peak' = 0
       /\ UNCHANGED <<stack, depth, alen, hlen, dead>>

Next == Begin \/ Nest \/ Return \/ NotReady \/ ReportError \/ Raise \/ Unwind \/ LeaveHandler \/ End
Spec == Init /\ [][Next]_vars

(* ---- checked by TLC ---- *)
Consistent == depth = Count("t") /\ hlen = Count("h") /\ alen = Count("a") + dead
Restored   == cur = "none" => (depth = 0 /\ hlen = 0 /\ alen = dead /\ stack = <<>>)
SyncIsClean == ~AsyncInside => dead = 0
DeadOnlyAfterInterrupt == dead > 0 => (cur = "interrupted" \/ \E i \in 1..Len(hist) : hist[i] = "interrupted")
RestoredStrict == cur = "none" => alen = 0        \* EXPECTED to fail when AsyncInside: why the counter readings are diagnostic only
EndKind == (cur # "none" /\ stack = <<>>) =>
             CASE cur \in {"valid", "warning", "deep"} -> exc = "none"
               [] cur \in {"error", "critical"}        -> exc = "Unrecoverable"
               [] cur = "internal"                     -> exc = "Internal"
               [] cur = "cycle"                        -> exc = "Cycle"
               [] cur = "interrupted"                  -> exc = "Hang"

Export == (cur = "none" /\ Len(hist) >= ExportMin) =>
            PrintT(ToJson([m |-> "h", hist |-> hist, depth |-> depth, alen |-> alen, hlen |-> hlen, dead |-> dead]))
=============================================================================
