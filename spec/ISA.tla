-------------------------------- MODULE ISA --------------------------------
(* PDP-11 instruction formats, encoder and CPU fetch (C01, C04; also used by C09).

   Two independently structured descriptions of the instruction set are compared with each other
   by TLC and with the real assembler by replay:

     * the ASSEMBLER side: the flat table `Ops` (252 mnemonics, octal base opcode, one of 17 format
       classes; transcribed from DESIGN.md Appendix A, which was authored from the PDP-11 processor
       handbook, the FP11/FIS/CIS descriptions and the 1801VM2 notes) and the encoder `Assemble`:
       field placement per format class, one extension word per indexed / immediate / absolute /
       relative operand in operand order, the relative displacement computed from the address
       FOLLOWING that extension word, branch displacement = (target - (addr+2))/2 in eight signed
       bits, SOB = backward word count in six bits;

     * the PROCESSOR side: `Decode` (decode by opcode ranges, as a processor does; no flat table)
       and the fetch machine `CpuStep` (PC advances by 2 per word read; modes 2/3 on R7 take the
       word as operand/address; modes 6/7 on R7 add the PC *after* that word; a branch goes to
       pc_after_opcode + 2*sext8(disp), SOB to pc_after_opcode - 2*count).

   Role (D): DecodeRecoversSource, BranchReach, RelLands, AliasEncodes, NoOverlap, SynonymsShare,
             AliasWithinParent, BaseClean, ImageDecodes (prog mode), DecoderAgreesWithTable (words mode).
   Role (M->C): every "done" state is one instruction form (mnemonic x operand-form combination x
             value class x address x spelling shape) exported with the predicted words or the
             predicted refusal; mode "prog" exports whole mixed programs with their image.
   Role (C->M): mode "trace" runs the CPU machine alone on words produced by the real assembler
             (IOEnv.TRACE_FILE) and reports what the processor would do with them.            *)
EXTENDS Integers, Sequences, FiniteSets, TLC, Json, IOUtils, Bitwise

CONSTANTS Mode,      \* "single" | "prog" | "words" | "trace"
          OpSel,     \* set of mnemonics to enumerate, or {"*"} for all 252
          GenSet,    \* "all" | "rep" | "c04": which general operand forms are enumerated
          ValSet,    \* name of the value-class set for index / immediate / absolute words
          TgtSet,    \* name of the target set for relative operands
          DistSet,   \* "reach" (every encodable distance) | "wide" (-300..+300 / -140..+6) | "few"
          Bases,     \* set of link bases (single/prog mode)
          Shapes,    \* set of spelling shapes for PC-relative operands and branch targets
          ProgLen    \* prog mode: instructions per program

(* ------------------------------------------------------------------ arithmetic *)
Mod(a, b) == a - b * (a \div b)            \* \div floors, so the result is in 0..b-1 for b > 0
W16(x)    == Mod(x, 65536)
Sext8(n)  == IF n >= 128 THEN n - 256 ELSE n
Min(a, b) == IF a <= b THEN a ELSE b

(* ------------------------------------------------------------------ the opcode table *)
R(n, b, f, c) == [name |-> n, base |-> b, fmt |-> f, cpu |-> c]
\* name: mnemonic; base: opcode with all fields zero; fmt: format class; cpu: the processor
\* operation it denotes (synonyms name the same operation; push/pop/call/ret/return are fixed
\* special cases of mov/jsr/rts, see Canon).
Ops == <<
  R("halt", \o000000, "none", "halt"), R("hlt", \o000000, "none", "halt"), R("wait", \o000001, "none", "wait"),
  R("rti", \o000002, "none", "rti"), R("bpt", \o000003, "none", "bpt"), R("iot", \o000004, "none", "iot"),
  R("reset", \o000005, "none", "reset"), R("rtt", \o000006, "none", "rtt"), R("mfpt", \o000007, "none", "mfpt"),
  R("start", \o000012, "none", "start"), R("step", \o000016, "none", "step"), R("rd", \o000020, "none", "rd"),
  R("urd", \o000021, "none", "urd"), R("rdpc", \o000022, "none", "rdpc"), R("rdps", \o000024, "none", "rdps"),
  R("uwr", \o000031, "none", "uwr"), R("wrpc", \o000032, "none", "wrpc"), R("wrps", \o000034, "none", "wrps"),
  R("ret", \o000207, "none", "rts"), R("return", \o000207, "none", "rts"), R("u3000", \o000220, "none", "u3000"),
  R("nop", \o000240, "none", "nop"), R("clc", \o000241, "none", "clc"), R("clv", \o000242, "none", "clv"),
  R("clvc", \o000243, "none", "clvc"), R("clz", \o000244, "none", "clz"), R("clzc", \o000245, "none", "clzc"),
  R("clzv", \o000246, "none", "clzv"), R("clzvc", \o000247, "none", "clzvc"), R("cln", \o000250, "none", "cln"),
  R("clnc", \o000251, "none", "clnc"), R("clnv", \o000252, "none", "clnv"), R("clnvc", \o000253, "none", "clnvc"),
  R("clnz", \o000254, "none", "clnz"), R("clnzc", \o000255, "none", "clnzc"), R("clnzv", \o000256, "none", "clnzv"),
  R("ccc", \o000257, "none", "ccc"), R("clnzvc", \o000257, "none", "ccc"), R("sec", \o000261, "none", "sec"),
  R("sev", \o000262, "none", "sev"), R("sevc", \o000263, "none", "sevc"), R("sez", \o000264, "none", "sez"),
  R("sezc", \o000265, "none", "sezc"), R("sezv", \o000266, "none", "sezv"), R("sezvc", \o000267, "none", "sezvc"),
  R("sen", \o000270, "none", "sen"), R("senc", \o000271, "none", "senc"), R("senv", \o000272, "none", "senv"),
  R("senvc", \o000273, "none", "senvc"), R("senz", \o000274, "none", "senz"), R("senzc", \o000275, "none", "senzc"),
  R("senzv", \o000276, "none", "senzv"), R("scc", \o000277, "none", "scc"), R("senzvc", \o000277, "none", "scc"),
  R("movc", \o076030, "none", "movc"), R("movrc", \o076031, "none", "movrc"), R("movtc", \o076032, "none", "movtc"),
  R("locc", \o076040, "none", "locc"), R("skpc", \o076041, "none", "skpc"), R("scanc", \o076042, "none", "scanc"),
  R("spanc", \o076043, "none", "spanc"), R("cmpc", \o076044, "none", "cmpc"), R("matc", \o076045, "none", "matc"),
  R("addn", \o076050, "none", "addn"), R("subn", \o076051, "none", "subn"), R("cmpn", \o076052, "none", "cmpn"),
  R("cvtnl", \o076053, "none", "cvtnl"), R("cvtpn", \o076054, "none", "cvtpn"), R("cvtnp", \o076055, "none", "cvtnp"),
  R("ashn", \o076056, "none", "ashn"), R("cvtln", \o076057, "none", "cvtln"), R("addp", \o076070, "none", "addp"),
  R("subp", \o076071, "none", "subp"), R("cmpp", \o076072, "none", "cmpp"), R("cvtpl", \o076073, "none", "cvtpl"),
  R("mulp", \o076074, "none", "mulp"), R("divp", \o076075, "none", "divp"), R("ashp", \o076076, "none", "ashp"),
  R("cvtlp", \o076077, "none", "cvtlp"), R("movci", \o076130, "none", "movci"), R("movrci", \o076131, "none", "movrci"),
  R("movtci", \o076132, "none", "movtci"), R("locci", \o076140, "none", "locci"), R("skpci", \o076141, "none", "skpci"),
  R("scanci", \o076142, "none", "scanci"), R("spanci", \o076143, "none", "spanci"), R("cmpci", \o076144, "none", "cmpci"),
  R("matci", \o076145, "none", "matci"), R("addni", \o076150, "none", "addni"), R("subni", \o076151, "none", "subni"),
  R("cmpni", \o076152, "none", "cmpni"), R("cvtnli", \o076153, "none", "cvtnli"), R("cvtpni", \o076154, "none", "cvtpni"),
  R("cvtnpi", \o076155, "none", "cvtnpi"), R("ashni", \o076156, "none", "ashni"), R("cvtlni", \o076157, "none", "cvtlni"),
  R("addpi", \o076170, "none", "addpi"), R("subpi", \o076171, "none", "subpi"), R("cmppi", \o076172, "none", "cmppi"),
  R("cvtpli", \o076173, "none", "cvtpli"), R("mulpi", \o076174, "none", "mulpi"), R("divpi", \o076175, "none", "divpi"),
  R("ashpi", \o076176, "none", "ashpi"), R("cvtlpi", \o076177, "none", "cvtlpi"), R("med", \o076600, "none", "med"),
  R("med6x", \o076600, "none", "med"), R("med74c", \o076601, "none", "med74c"), R("cfcc", \o170000, "none", "cfcc"),
  R("setf", \o170001, "none", "setf"), R("seti", \o170002, "none", "seti"), R("ldub", \o170003, "none", "ldub"),
  R("ldsc", \o170004, "none", "ldsc"), R("mns", \o170004, "none", "ldsc"), R("msn", \o170004, "none", "ldsc"),
  R("mpp", \o170005, "none", "mpp"), R("sta0", \o170005, "none", "mpp"), R("mrs", \o170006, "none", "mrs"),
  R("stb0", \o170006, "none", "mrs"), R("stq0", \o170007, "none", "stq0"), R("setd", \o170011, "none", "setd"),
  R("setl", \o170012, "none", "setl"), R("callr", \o000100, "one", "jmp"), R("jmp", \o000100, "one", "jmp"),
  R("swab", \o000300, "one", "swab"), R("call", \o004700, "one", "jsr"), R("clr", \o005000, "one", "clr"),
  R("com", \o005100, "one", "com"), R("inc", \o005200, "one", "inc"), R("dec", \o005300, "one", "dec"),
  R("neg", \o005400, "one", "neg"), R("adc", \o005500, "one", "adc"), R("sbc", \o005600, "one", "sbc"),
  R("tst", \o005700, "one", "tst"), R("ror", \o006000, "one", "ror"), R("rol", \o006100, "one", "rol"),
  R("asr", \o006200, "one", "asr"), R("asl", \o006300, "one", "asl"), R("mfpi", \o006500, "one", "mfpi"),
  R("mtpi", \o006600, "one", "mtpi"), R("sxt", \o006700, "one", "sxt"), R("csm", \o007000, "one", "csm"),
  R("tstset", \o007200, "one", "tstset"), R("wrtlck", \o007300, "one", "wrtlck"), R("pop", \o012600, "one", "mov"),
  R("clrb", \o105000, "one", "clrb"), R("comb", \o105100, "one", "comb"), R("incb", \o105200, "one", "incb"),
  R("decb", \o105300, "one", "decb"), R("negb", \o105400, "one", "negb"), R("adcb", \o105500, "one", "adcb"),
  R("sbcb", \o105600, "one", "sbcb"), R("tstb", \o105700, "one", "tstb"), R("rorb", \o106000, "one", "rorb"),
  R("rolb", \o106100, "one", "rolb"), R("asrb", \o106200, "one", "asrb"), R("aslb", \o106300, "one", "aslb"),
  R("mtps", \o106400, "one", "mtps"), R("mfpd", \o106500, "one", "mfpd"), R("mtpd", \o106600, "one", "mtpd"),
  R("mfps", \o106700, "one", "mfps"), R("ldfps", \o170100, "one", "ldfps"), R("stfps", \o170200, "one", "stfps"),
  R("stst", \o170300, "one", "stst"), R("push", \o010046, "push", "mov"), R("mov", \o010000, "two", "mov"),
  R("cmp", \o020000, "two", "cmp"), R("bit", \o030000, "two", "bit"), R("bic", \o040000, "two", "bic"),
  R("bis", \o050000, "two", "bis"), R("add", \o060000, "two", "add"), R("movb", \o110000, "two", "movb"),
  R("cmpb", \o120000, "two", "cmpb"), R("bitb", \o130000, "two", "bitb"), R("bicb", \o140000, "two", "bicb"),
  R("bisb", \o150000, "two", "bisb"), R("sub", \o160000, "two", "sub"), R("jsr", \o004000, "r_dd", "jsr"),
  R("xor", \o074000, "r_dd", "xor"), R("mul", \o070000, "ss_r", "mul"), R("div", \o071000, "ss_r", "div"),
  R("ash", \o072000, "ss_r", "ash"), R("ashc", \o073000, "ss_r", "ashc"), R("rts", \o000200, "r", "rts"),
  R("medlsi", \o000210, "r", "medlsi"), R("fadd", \o075000, "r", "fadd"), R("fsub", \o075010, "r", "fsub"),
  R("fmul", \o075020, "r", "fmul"), R("fdiv", \o075030, "r", "fdiv"), R("l2dr", \o076020, "r", "l2dr"),
  R("l3dr", \o076060, "r", "l3dr"), R("sob", \o077000, "sob", "sob"), R("br", \o000400, "br", "br"),
  R("bne", \o001000, "br", "bne"), R("beq", \o001400, "br", "beq"), R("bge", \o002000, "br", "bge"),
  R("blt", \o002400, "br", "blt"), R("bgt", \o003000, "br", "bgt"), R("ble", \o003400, "br", "ble"),
  R("bpl", \o100000, "br", "bpl"), R("bmi", \o100400, "br", "bmi"), R("bhi", \o101000, "br", "bhi"),
  R("blos", \o101400, "br", "blos"), R("bvc", \o102000, "br", "bvc"), R("bvs", \o102400, "br", "bvs"),
  R("bcc", \o103000, "br", "bcc"), R("bhis", \o103000, "br", "bcc"), R("bcs", \o103400, "br", "bcs"),
  R("blo", \o103400, "br", "bcs"), R("emt", \o104000, "imm8", "emt"), R("sys", \o104400, "imm8", "trap"),
  R("trap", \o104400, "imm8", "trap"), R("mark", \o006400, "imm6", "mark"), R("xfc", \o076700, "imm6", "xfc"),
  R("spl", \o000230, "imm3", "spl"), R("clrd", \o170400, "fop", "clrd"), R("clrf", \o170400, "fop", "clrd"),
  R("tstd", \o170500, "fop", "tstd"), R("tstf", \o170500, "fop", "tstd"), R("absd", \o170600, "fop", "absd"),
  R("absf", \o170600, "fop", "absd"), R("negd", \o170700, "fop", "negd"), R("negf", \o170700, "fop", "negd"),
  R("muld", \o171000, "fsrc_ac", "muld"), R("mulf", \o171000, "fsrc_ac", "muld"), R("modd", \o171400, "fsrc_ac", "modd"),
  R("modf", \o171400, "fsrc_ac", "modd"), R("addd", \o172000, "fsrc_ac", "addd"), R("addf", \o172000, "fsrc_ac", "addd"),
  R("ldd", \o172400, "fsrc_ac", "ldd"), R("ldf", \o172400, "fsrc_ac", "ldd"), R("subd", \o173000, "fsrc_ac", "subd"),
  R("subf", \o173000, "fsrc_ac", "subd"), R("cmpd", \o173400, "fsrc_ac", "cmpd"), R("cmpf", \o173400, "fsrc_ac", "cmpd"),
  R("divd", \o174400, "fsrc_ac", "divd"), R("divf", \o174400, "fsrc_ac", "divd"), R("ldcdf", \o177400, "fsrc_ac", "ldcdf"),
  R("ldcfd", \o177400, "fsrc_ac", "ldcdf"), R("std", \o174000, "ac_fdst", "std"), R("stf", \o174000, "ac_fdst", "std"),
  R("stcdf", \o176000, "ac_fdst", "stcdf"), R("stcfd", \o176000, "ac_fdst", "stcdf"), R("stexp", \o175000, "ac_dd", "stexp"),
  R("stcdi", \o175400, "ac_dd", "stcdi"), R("stcdl", \o175400, "ac_dd", "stcdi"), R("stcfi", \o175400, "ac_dd", "stcdi"),
  R("stcfl", \o175400, "ac_dd", "stcdi"), R("ldexp", \o176400, "ss_ac", "ldexp"), R("ldcid", \o177000, "ss_ac", "ldcid"),
  R("ldcif", \o177000, "ss_ac", "ldcid"), R("ldcld", \o177000, "ss_ac", "ldcid"), R("ldclf", \o177000, "ss_ac", "ldcid") >>

NOps == Len(Ops)
ASSUME NOps = 252

Fmts == {"none", "one", "push", "two", "r_dd", "ss_r", "r", "sob", "br", "imm8", "imm6", "imm3",
         "fop", "fsrc_ac", "ac_fdst", "ac_dd", "ss_ac"}

\* operand slots of each format class, in source operand order
Sig(fmt) == CASE fmt = "none"    -> <<>>
              [] fmt = "one"     -> <<"gen">>
              [] fmt = "push"    -> <<"gen">>
              [] fmt = "two"     -> <<"gen", "gen">>
              [] fmt = "r_dd"    -> <<"reg", "gen">>
              [] fmt = "ss_r"    -> <<"gen", "reg">>
              [] fmt = "r"       -> <<"reg">>
              [] fmt = "sob"     -> <<"reg", "sobt">>
              [] fmt = "br"      -> <<"brt">>
              [] fmt = "imm8"    -> <<"n8">>
              [] fmt = "imm6"    -> <<"n6">>
              [] fmt = "imm3"    -> <<"n3">>
              [] fmt = "fop"     -> <<"fop">>
              [] fmt = "fsrc_ac" -> <<"fop", "ac">>
              [] fmt = "ac_fdst" -> <<"ac", "fop">>
              [] fmt = "ac_dd"   -> <<"ac", "gen">>
              [] fmt = "ss_ac"   -> <<"gen", "ac">>

\* bits of the opcode word that belong to operand fields
FieldMask(fmt) == CASE fmt = "none" -> 0
                    [] fmt \in {"one", "imm6", "fop"} -> 63
                    [] fmt = "push" -> 63 * 64
                    [] fmt = "two"  -> 4095
                    [] fmt \in {"r_dd", "ss_r", "sob"} -> 511
                    [] fmt \in {"r", "imm3"} -> 7
                    [] fmt \in {"br", "imm8", "fsrc_ac", "ac_fdst", "ac_dd", "ss_ac"} -> 255

Aliases == {"push", "pop", "call", "ret", "return"}
IsAlias(i) == Ops[i].name \in Aliases

(* ------------------------------------------------------------------ operand forms
   [k, r, v, h]:  k  Reg RegDef AutoInc AutoIncDef AutoDec AutoDecDef Index IndexDef Imm Abs Rel RelDef
                     Acc Num Br;   r register / accumulator;   v index, immediate, absolute address,
                     target, inline number, or branch distance;   h = 1: v is relative to the address of
                     the instruction (Rel/RelDef: target = addr + v; Br: target = addr + 2 + v).      *)
F(k, r, v, h) == [k |-> k, r |-> r, v |-> v, h |-> h]
RegModes == {"Reg", "RegDef", "AutoInc", "AutoIncDef", "AutoDec", "AutoDecDef"}
ModeNum(k) == CASE k = "Reg" -> 0 [] k = "RegDef" -> 1 [] k = "AutoInc" -> 2 [] k = "AutoIncDef" -> 3
                [] k = "AutoDec" -> 4 [] k = "AutoDecDef" -> 5 [] k = "Index" -> 6 [] k = "IndexDef" -> 7
                [] k = "Imm" -> 2 [] k = "Abs" -> 3 [] k = "Rel" -> 6 [] k = "RelDef" -> 7 [] k = "Acc" -> 0
HasExt(f)  == f.k \in {"Index", "IndexDef", "Imm", "Abs", "Rel", "RelDef"}
IsRel(f)   == f.k \in {"Rel", "RelDef"}
Field6(f)  == ModeNum(f.k) * 8 + f.r                 \* mode in bits 5..3, register in 2..0
\* an explicitly spelled (pc)+ / @(pc)+ : the processor takes the FOLLOWING word, which the
\* programmer supplies separately (the assembler emits nothing for it)
ExplicitPcInc(f) == f.k \in {"AutoInc", "AutoIncDef"} /\ f.r = 7

RelTarget(f, A) == IF f.h = 1 THEN W16(A + f.v) ELSE f.v
BrTarget(f, A)  == A + 2 + f.v                       \* an integer; not wrapped

(* value classes *)
Vals == CASE ValSet = "full"  -> {0, 1, 10, 32767, 32768, 65535, -1, -2, -32768}
          [] ValSet = "mid"   -> {0, 10, -2}
          [] ValSet = "two"   -> {10, -2}
          [] ValSet = "one"   -> {10}
Tgts == CASE TgtSet = "c04"   -> {<<0, 0>>, <<0, 2>>, <<1, 0>>, <<1, 2>>, <<1, -2>>, <<0, 32768>>, <<0, 65534>>}
          [] TgtSet = "full"  -> {<<0, 0>>, <<0, 65534>>, <<1, 0>>, <<0, 668>>}
          [] TgtSet = "mid"   -> {<<0, 65534>>, <<1, 0>>}
          [] TgtSet = "one"   -> {<<0, 668>>}
BrDists  == CASE DistSet = "reach" -> {2 * n : n \in -128..127}
              [] DistSet = "wide"  -> -300..300
              [] DistSet = "few"   -> {-256, -2, 0, 2, 254}
SobDists == CASE DistSet = "reach" -> {-2 * n : n \in 0..63}
              [] DistSet = "wide"  -> -140..6
              [] DistSet = "few"   -> {-126, -2, 0}

GenAll == {F(k, r, 0, 0) : k \in RegModes, r \in 0..7}
          \cup {F(k, r, x, 0) : k \in {"Index", "IndexDef"}, r \in 0..7, x \in Vals}
          \cup {F(k, 7, v, 0) : k \in {"Imm", "Abs"}, v \in Vals}
          \cup {F(k, 7, t[2], t[1]) : k \in {"Rel", "RelDef"}, t \in Tgts}
\* one representative per operand class; every register and every mode occurs
GenRep == {F("Reg", 0, 0, 0), F("Reg", 5, 0, 0), F("Reg", 6, 0, 0), F("Reg", 7, 0, 0),
           F("RegDef", 1, 0, 0), F("AutoInc", 2, 0, 0), F("AutoIncDef", 3, 0, 0), F("AutoDec", 4, 0, 0),
           F("AutoDec", 6, 0, 0), F("AutoDecDef", 5, 0, 0), F("AutoInc", 7, 0, 0), F("AutoIncDef", 7, 0, 0)}
          \cup {F("Index", 6, x, 0) : x \in Vals} \cup {F("IndexDef", 0, x, 0) : x \in Vals}
          \cup {F("Index", 7, 10, 0), F("IndexDef", 7, -2, 0)}
          \cup {F(k, 7, v, 0) : k \in {"Imm", "Abs"}, v \in Vals}
          \cup {F(k, 7, t[2], t[1]) : k \in {"Rel", "RelDef"}, t \in Tgts}
\* C04: a PC-relative operand next to operands with and without an extension word
GenC04 == {F("Reg", 1, 0, 0), F("AutoInc", 2, 0, 0), F("Index", 3, 10, 0), F("Imm", 7, -2, 0), F("Abs", 7, 10, 0)}
          \cup {F(k, 7, t[2], t[1]) : k \in {"Rel", "RelDef"}, t \in Tgts}
GenForms == CASE GenSet = "all" -> GenAll [] GenSet = "rep" -> GenRep [] GenSet = "c04" -> GenC04

FormsFor(slot) ==
    CASE slot = "gen"  -> GenForms
      [] slot = "fop"  -> {F("Acc", n, 0, 0) : n \in 0..5} \cup {f \in GenForms : f.k # "Reg"}
      [] slot = "reg"  -> IF GenSet = "c04" THEN {F("Reg", 2, 0, 0)} ELSE {F("Reg", r, 0, 0) : r \in 0..7}
      [] slot = "ac"   -> {F("Acc", n, 0, 0) : n \in 0..3}
      [] slot = "n8"   -> {F("Num", 0, v, 0) : v \in -256..256}
      [] slot = "n6"   -> {F("Num", 0, v, 0) : v \in -1..64}
      [] slot = "n3"   -> {F("Num", 0, v, 0) : v \in -1..8}
      [] slot = "brt"  -> {F("Br", 0, d, 1) : d \in BrDists}
      [] slot = "sobt" -> {F("Br", 0, d, 1) : d \in SobDists}
SlotForms == [s \in {"gen", "fop", "reg", "ac", "n8", "n6", "n3", "brt", "sobt"} |-> FormsFor(s)]

(* ------------------------------------------------------------------ the encoder *)
\* a displacement field exists for a distance iff SOME field value makes the processor land there
BrField(d)  == {n \in -128..127 : 2 * n = d}
SobField(d) == {c \in 0..63 : -2 * c = d}

Accept(fmt, args) ==
    CASE fmt = "br"   -> BrField(args[1].v) # {}
      [] fmt = "sob"  -> SobField(args[2].v) # {}
      [] fmt = "imm8" -> args[1].v \in -255..255       \* pdpy11's documented rule for signed 'i' fields
      [] fmt = "imm6" -> args[1].v \in 0..63
      [] fmt = "imm3" -> args[1].v \in 0..7
      [] OTHER        -> TRUE

OpcodeWord(row, args) ==
    LET fmt == row.fmt IN
    row.base +
    CASE fmt = "none"    -> 0
      [] fmt = "one"     -> Field6(args[1])
      [] fmt = "push"    -> Field6(args[1]) * 64
      [] fmt = "two"     -> Field6(args[1]) * 64 + Field6(args[2])
      [] fmt = "r_dd"    -> args[1].r * 64 + Field6(args[2])
      [] fmt = "ss_r"    -> Field6(args[1]) + args[2].r * 64
      [] fmt = "r"       -> args[1].r
      [] fmt = "sob"     -> args[1].r * 64 + (CHOOSE c \in SobField(args[2].v) : TRUE)
      [] fmt = "br"      -> Mod(CHOOSE n \in BrField(args[1].v) : TRUE, 256)
      [] fmt = "imm8"    -> Mod(args[1].v, 256)
      [] fmt = "imm6"    -> args[1].v
      [] fmt = "imm3"    -> args[1].v
      [] fmt = "fop"     -> Field6(args[1])
      [] fmt = "fsrc_ac" -> Field6(args[1]) + args[2].r * 64
      [] fmt = "ac_fdst" -> args[1].r * 64 + Field6(args[2])
      [] fmt = "ac_dd"   -> args[1].r * 64 + Field6(args[2])
      [] fmt = "ss_ac"   -> Field6(args[1]) + args[2].r * 64

\* address of the extension word of operand i (meaningful if it has one)
ExtAddr(args, i, A) == IF i = 1 THEN A + 2 ELSE A + 2 + (IF HasExt(args[1]) THEN 2 ELSE 0)
\* the extension word: index / immediate / address as written, or the displacement from the
\* address FOLLOWING the extension word to the target
ExtWord(f, ea, A) == IF IsRel(f) THEN W16(RelTarget(f, A) - (ea + 2)) ELSE W16(f.v)

Assemble(i, args, A) ==
    LET row == Ops[i] IN
    IF ~Accept(row.fmt, args) THEN [ok |-> FALSE, words |-> <<>>]
    ELSE LET exts == SelectSeq([j \in 1..Len(args) |-> IF HasExt(args[j]) THEN ExtWord(args[j], ExtAddr(args, j, A), A) ELSE -1],
                               LAMBDA w : w >= 0)
         IN [ok |-> TRUE, words |-> <<OpcodeWord(row, args)>> \o exts]

\* the processor operation an assembler-level special case stands for
RowOf(n) == CHOOSE j \in 1..NOps : Ops[j].name = n
Canon(i, args) ==
    LET n == Ops[i].name IN
    CASE n = "push"             -> [i |-> RowOf("mov"), args |-> <<args[1], F("AutoDec", 6, 0, 0)>>]
      [] n = "pop"              -> [i |-> RowOf("mov"), args |-> <<F("AutoInc", 6, 0, 0), args[1]>>]
      [] n = "call"             -> [i |-> RowOf("jsr"), args |-> <<F("Reg", 7, 0, 0), args[1]>>]
      [] n \in {"ret", "return"} -> [i |-> RowOf("rts"), args |-> <<F("Reg", 7, 0, 0)>>]
      [] OTHER                  -> [i |-> i, args |-> args]

(* ------------------------------------------------------------------ the processor side *)
O(t, m, r, x) == [t |-> t, m |-> m, r |-> r, x |-> x, ea |-> -1]
GenO(f) == O("gen", f \div 8, f % 8, -1)       \* CPU operand: mode, register
FpO(f)  == O("fp", f \div 8, f % 8, -1)        \* FP11 operand: mode 0 names an accumulator
RegO(r) == O("reg", 0, r, -1)
AcO(a)  == O("ac", 0, a, -1)
NumO(n) == O("num", 0, 0, n)
TgtO(n) == O("tgt", 0, 0, n)
D(n, ops) == [name |-> n, ops |-> ops]
Illegal == D("illegal", <<>>)

DoubleW == <<"mov", "cmp", "bit", "bic", "bis", "add">>
DoubleB == <<"movb", "cmpb", "bitb", "bicb", "bisb", "sub">>
SingleW == <<"clr", "com", "inc", "dec", "neg", "adc", "sbc", "tst", "ror", "rol", "asr", "asl">>
SingleB == <<"clrb", "comb", "incb", "decb", "negb", "adcb", "sbcb", "tstb", "rorb", "rolb", "asrb", "aslb">>
BranchW == <<"br", "bne", "beq", "bge", "blt", "bgt", "ble">>                 \* 0004xx .. 0034xx
BranchB == <<"bpl", "bmi", "bhi", "blos", "bvc", "bvs", "bcc", "bcs">>        \* 1000xx .. 1034xx
\* 000240 .. 000277: bit 4 = set/clear, bits 3..0 = N Z V C
CcOps == <<"nop", "clc", "clv", "clvc", "clz", "clzc", "clzv", "clzvc", "cln", "clnc", "clnv", "clnvc", "clnz", "clnzc", "clnzv", "ccc",
           "", "sec", "sev", "sevc", "sez", "sezc", "sezv", "sezvc", "sen", "senc", "senv", "senvc", "senz", "senzc", "senzv", "scc">>
\* CIS string and decimal instructions, low six bits 030..077 (register form) / same with bit 6 (inline form)
CisOps  == <<"movc", "movrc", "movtc", "", "", "", "", "",
             "locc", "skpc", "scanc", "spanc", "cmpc", "matc", "", "",
             "addn", "subn", "cmpn", "cvtnl", "cvtpn", "cvtnp", "ashn", "cvtln",
             "", "", "", "", "", "", "", "",
             "addp", "subp", "cmpp", "cvtpl", "mulp", "divp", "ashp", "cvtlp">>
CisOpsI == <<"movci", "movrci", "movtci", "", "", "", "", "",
             "locci", "skpci", "scanci", "spanci", "cmpci", "matci", "", "",
             "addni", "subni", "cmpni", "cvtnli", "cvtpni", "cvtnpi", "ashni", "cvtlni",
             "", "", "", "", "", "", "", "",
             "addpi", "subpi", "cmppi", "cvtpli", "mulpi", "divpi", "ashpi", "cvtlpi">>
\* 000000 .. 000077 (1801VM2 control operations included)
ZeroOps == [w \in 0..63 |->
              CASE w = 0 -> "halt" [] w = 1 -> "wait" [] w = 2 -> "rti" [] w = 3 -> "bpt" [] w = 4 -> "iot"
                [] w = 5 -> "reset" [] w = 6 -> "rtt" [] w = 7 -> "mfpt" [] w = 10 -> "start" [] w = 14 -> "step"
                [] w = 16 -> "rd" [] w = 17 -> "urd" [] w = 18 -> "rdpc" [] w = 20 -> "rdps"
                [] w = 25 -> "uwr" [] w = 26 -> "wrpc" [] w = 28 -> "wrps" [] OTHER -> ""]
FpZeroOps == <<"cfcc", "setf", "seti", "ldub", "ldsc", "mpp", "mrs", "stq0", "", "setd", "setl">>   \* 170000 .. 170012
FpAcOps   == <<"muld", "modd", "addd", "ldd", "subd", "cmpd", "std", "divd", "stexp", "stcdi", "stcdf", "ldexp", "ldcid", "ldcdf">>  \* 1710.. 1774

Named(n, ops) == IF n = "" THEN Illegal ELSE D(n, ops)

DecodeZeroPage(w) ==                     \* 000000 .. 007777
    LET hi == w \div 64  dd == w % 64  rr == (w \div 64) % 8 IN
    IF w < 64 THEN Named(ZeroOps[w], <<>>)
    ELSE IF hi = 1 THEN D("jmp", <<GenO(dd)>>)
    ELSE IF hi = 2 THEN (IF dd < 8 THEN D("rts", <<RegO(dd)>>)
                         ELSE IF dd < 16 THEN D("medlsi", <<RegO(dd - 8)>>)
                         ELSE IF dd = 16 THEN D("u3000", <<>>)
                         ELSE IF dd \in 24..31 THEN D("spl", <<NumO(dd - 24)>>)
                         ELSE IF dd >= 32 THEN Named(CcOps[dd - 31], <<>>)
                         ELSE Illegal)
    ELSE IF hi = 3 THEN D("swab", <<GenO(dd)>>)
    ELSE IF w < 2048 THEN D(BranchW[w \div 256], <<TgtO(w % 256)>>)          \* 000400 .. 003777
    ELSE IF w < 2560 THEN D("jsr", <<RegO(rr), GenO(dd)>>)                  \* 004000 .. 004777
    ELSE IF hi < 52 THEN D(SingleW[hi - 39], <<GenO(dd)>>)                  \* 0050dd .. 0063dd
    ELSE IF hi = 52 THEN D("mark", <<NumO(dd)>>)
    ELSE IF hi = 53 THEN D("mfpi", <<GenO(dd)>>)
    ELSE IF hi = 54 THEN D("mtpi", <<GenO(dd)>>)
    ELSE IF hi = 55 THEN D("sxt", <<GenO(dd)>>)
    ELSE IF hi = 56 THEN D("csm", <<GenO(dd)>>)
    ELSE IF hi = 58 THEN D("tstset", <<GenO(dd)>>)
    ELSE IF hi = 59 THEN D("wrtlck", <<GenO(dd)>>)
    ELSE Illegal

DecodeHighPage(w) ==                     \* 100000 .. 107777
    LET v == w - 32768  hi == v \div 64  dd == v % 64 IN
    IF v < 2048 THEN D(BranchB[v \div 256 + 1], <<TgtO(v % 256)>>)           \* 100000 .. 103777
    ELSE IF v < 2304 THEN D("emt", <<NumO(v % 256)>>)                        \* 104000 .. 104377
    ELSE IF v < 2560 THEN D("trap", <<NumO(v % 256)>>)                       \* 104400 .. 104777
    ELSE IF hi < 52 THEN D(SingleB[hi - 39], <<GenO(dd)>>)                  \* 1050dd .. 1063dd
    ELSE IF hi = 52 THEN D("mtps", <<GenO(dd)>>)
    ELSE IF hi = 53 THEN D("mfpd", <<GenO(dd)>>)
    ELSE IF hi = 54 THEN D("mtpd", <<GenO(dd)>>)
    ELSE IF hi = 55 THEN D("mfps", <<GenO(dd)>>)
    ELSE Illegal

DecodeEis(w) ==                          \* 070000 .. 077777
    LET v == w - 28672  sub == v \div 512  rr == (v \div 64) % 8  dd == v % 64  low == v % 512 IN
    CASE sub = 0 -> D("mul", <<GenO(dd), RegO(rr)>>)
      [] sub = 1 -> D("div", <<GenO(dd), RegO(rr)>>)
      [] sub = 2 -> D("ash", <<GenO(dd), RegO(rr)>>)
      [] sub = 3 -> D("ashc", <<GenO(dd), RegO(rr)>>)
      [] sub = 4 -> D("xor", <<RegO(rr), GenO(dd)>>)
      [] sub = 5 -> IF low < 32 THEN D(<<"fadd", "fsub", "fmul", "fdiv">>[low \div 8 + 1], <<RegO(low % 8)>>) ELSE Illegal
      [] sub = 6 -> IF low \in 16..23 THEN D("l2dr", <<RegO(low - 16)>>)
                    ELSE IF low \in 48..55 THEN D("l3dr", <<RegO(low - 48)>>)
                    ELSE IF low \in 24..63 THEN Named(CisOps[low - 23], <<>>)
                    ELSE IF low \in 88..127 THEN Named(CisOpsI[low - 87], <<>>)
                    ELSE IF low = 384 THEN D("med", <<>>)
                    ELSE IF low = 385 THEN D("med74c", <<>>)
                    ELSE IF low >= 448 THEN D("xfc", <<NumO(low - 448)>>)
                    ELSE Illegal
      [] sub = 7 -> D("sob", <<RegO(rr), TgtO(dd)>>)

DecodeFp(w) ==                           \* 170000 .. 177777
    LET v == w - 61440  n == v \div 256  sub == (v \div 64) % 4  ac == sub  dd == v % 64 IN
    IF n = 0 THEN (CASE sub = 0 -> IF dd < 11 THEN Named(FpZeroOps[dd + 1], <<>>) ELSE Illegal
                     [] sub = 1 -> D("ldfps", <<GenO(dd)>>)
                     [] sub = 2 -> D("stfps", <<GenO(dd)>>)
                     [] sub = 3 -> D("stst", <<GenO(dd)>>))
    ELSE IF n = 1 THEN D(<<"clrd", "tstd", "absd", "negd">>[sub + 1], <<FpO(dd)>>)
    ELSE LET nm == FpAcOps[n - 1] IN
         IF nm \in {"muld", "modd", "addd", "ldd", "subd", "cmpd", "divd", "ldcdf"} THEN D(nm, <<FpO(dd), AcO(ac)>>)
         ELSE IF nm \in {"std", "stcdf"} THEN D(nm, <<AcO(ac), FpO(dd)>>)
         ELSE IF nm \in {"stexp", "stcdi"} THEN D(nm, <<AcO(ac), GenO(dd)>>)
         ELSE D(nm, <<GenO(dd), AcO(ac)>>)                                   \* ldexp, ldcid

Decode(w) ==
    LET b15 == w \div 32768  top == (w \div 4096) % 8 IN
    IF top \in 1..6 THEN D(IF b15 = 0 THEN DoubleW[top] ELSE DoubleB[top], <<GenO((w \div 64) % 64), GenO(w % 64)>>)
    ELSE IF top = 7 THEN (IF b15 = 0 THEN DecodeEis(w) ELSE DecodeFp(w))
    ELSE (IF b15 = 0 THEN DecodeZeroPage(w) ELSE DecodeHighPage(w))

\* memory as the processor sees it: the words of the image at org, org+2, ...; anything else reads 0
Rd(M, a) == LET k == a - M.org IN
            IF k >= 0 /\ k % 2 = 0 /\ k \div 2 < Len(M.img) THEN M.img[k \div 2 + 1] ELSE 0

CpuInit(pc) == [st |-> "op", pc |-> pc, name |-> "", ops |-> <<>>, n |-> 0]
NeedsWord(o) == o.t \in {"gen", "fp"} /\ (o.m \in {6, 7} \/ (o.m \in {2, 3} /\ o.r = 7))
FetchExt(M, c, i) ==
    IF Len(c.ops) < i \/ ~NeedsWord(c.ops[i]) THEN c
    ELSE LET o   == c.ops[i]
             x   == Rd(M, c.pc)
             pc2 == W16(c.pc + 2)                       \* the PC has moved past the word just read
             ea  == IF o.r # 7 THEN -1                  \* depends on a general register's contents
                    ELSE IF o.m \in {2, 3} THEN x       \* immediate operand / absolute address
                    ELSE W16(pc2 + x)                   \* relative: the UPDATED PC is added
         IN [c EXCEPT !.pc = pc2, !.n = @ + 1, !.ops[i] = [o EXCEPT !.x = x, !.ea = ea]]
ExecTarget(c, o) == IF o.t # "tgt" THEN o
                    ELSE [o EXCEPT !.ea = IF c.name = "sob" THEN W16(c.pc - 2 * o.x) ELSE W16(c.pc + 2 * Sext8(o.x))]
\* stages whose operand takes no word are skipped: op -> [src] -> [dst] -> exec -> done
StageAfter(c, k) == IF k < 1 /\ Len(c.ops) >= 1 /\ NeedsWord(c.ops[1]) THEN "src"
                    ELSE IF k < 2 /\ Len(c.ops) >= 2 /\ NeedsWord(c.ops[2]) THEN "dst"
                    ELSE "exec"
CpuStep(M, c) ==
    CASE c.st = "op" -> LET d == Decode(Rd(M, c.pc))
                            c1 == [st |-> "-", pc |-> W16(c.pc + 2), name |-> d.name, ops |-> d.ops, n |-> 1]
                        IN [c1 EXCEPT !.st = StageAfter(c1, 0)]
      [] c.st = "src" -> [FetchExt(M, c, 1) EXCEPT !.st = StageAfter(c, 1)]
      [] c.st = "dst" -> [FetchExt(M, c, 2) EXCEPT !.st = "exec"]
      [] c.st = "exec" -> [c EXCEPT !.st = "done", !.ops = [j \in 1..Len(c.ops) |-> ExecTarget(c, c.ops[j])]]
      [] c.st = "done" -> c
CpuRun(M, pc) == CpuStep(M, CpuStep(M, CpuStep(M, CpuStep(M, CpuInit(pc)))))

(* what the source form asks for, in the processor's terms (-2 = not determined by the form) *)
ExpOp(slot, f, ea, A) ==
    CASE slot = "reg" -> O("reg", 0, f.r, -1)
      [] slot = "ac"  -> O("ac", 0, f.r, -1)
      [] slot \in {"n8", "n6", "n3"} -> O("num", 0, 0, Mod(f.v, IF slot = "n8" THEN 256 ELSE IF slot = "n6" THEN 64 ELSE 8))
      [] slot = "brt"  -> [O("tgt", 0, 0, -2) EXCEPT !.ea = W16(BrTarget(f, A))]
      [] slot = "sobt" -> [O("tgt", 0, 0, -2) EXCEPT !.ea = W16(BrTarget(f, A))]
      [] slot \in {"gen", "fop"} ->
           LET t == IF slot = "fop" THEN "fp" ELSE "gen"  m == ModeNum(f.k) IN
           IF f.k \in RegModes \/ f.k = "Acc"
             THEN (IF ExplicitPcInc(f) THEN [O(t, m, 7, -2) EXCEPT !.ea = -2] ELSE O(t, m, f.r, -1))
           ELSE IF f.k \in {"Index", "IndexDef"}
             THEN [O(t, m, f.r, W16(f.v)) EXCEPT !.ea = IF f.r = 7 THEN W16(ea + 2 + f.v) ELSE -1]
           ELSE IF f.k \in {"Imm", "Abs"} THEN [O(t, m, 7, W16(f.v)) EXCEPT !.ea = W16(f.v)]
           ELSE [O(t, m, 7, -2) EXCEPT !.ea = RelTarget(f, A)]
Expected(i, args, A) ==
    LET sig == Sig(Ops[i].fmt) IN [j \in 1..Len(args) |-> ExpOp(sig[j], args[j], ExtAddr(args, j, A), A)]
SameOp(e, g) == e.t = g.t /\ e.m = g.m /\ e.r = g.r /\ (e.x = -2 \/ e.x = g.x) /\ (e.ea = -2 \/ e.ea = g.ea)
NPcInc(args) == Cardinality({j \in 1..Len(args) : ExplicitPcInc(args[j])})
\* An explicitly spelled (pc)+ / @(pc)+ makes the processor take the next word in memory.  If that is the
\* LAST word the instruction consumes, the programmer can supply it after the instruction and the round
\* trip is meaningful (one word more than emitted is consumed).  If another operand's extension word
\* follows, the processor would take THAT word: the statement does not denote what it spells; for such
\* forms only the emitted words are compared with the real assembler, no round trip is claimed.
PcIncSane(args) == \A j \in 1..Len(args) : ExplicitPcInc(args[j]) =>
                       \A q \in (j + 1)..Len(args) : ~HasExt(args[q]) /\ ~ExplicitPcInc(args[q])
Recovers(i, args, A, words, c) ==
    LET cn == Canon(i, args)  e == Expected(cn.i, cn.args, A) IN
    /\ c.st = "done"
    /\ c.name = Ops[i].cpu
    /\ Len(c.ops) = Len(e)
    /\ \A j \in 1..Len(e) : SameOp(e[j], c.ops[j])
    /\ c.n = Len(words) + NPcInc(args)                                \* consumes exactly the emitted words
    /\ c.pc = W16(A + 2 * (Len(words) + NPcInc(args)))

(* ------------------------------------------------------------------ spelling shapes (renderer plan)
   "std" number / '.+k';  "dec" decimal number;  "dot" '.+k';  "dotdec" '. + 10.';  "lbl" a label at the
   target;  "lblp" 'L+2';  "lblm" 'L-4';  "loc" local label '1' (branch operands only);  "locc" '1:'.
   A label can stand at x if x is not strictly inside the instruction; near the instruction it is a real
   label placed by padding, elsewhere (relative operands only) a symbol assignment.               *)
IsBrFmt(fmt) == fmt \in {"br", "sob"}
PadBefore(A, fmt) == LET p == IF IsBrFmt(fmt) THEN 304 ELSE 8 IN IF Mode = "single" /\ A >= p THEN p ELSE 0
PadAfter(A, L, fmt) == LET p == IF IsBrFmt(fmt) THEN 312 ELSE 8 IN IF Mode = "single" /\ A + L + p <= 65536 THEN p ELSE 0
InsLen(args) == 2 + 2 * Cardinality({j \in 1..Len(args) : HasExt(args[j])})
(* added after the second seeding round: "locp" a multi-digit local label in a complex operand '10+2' (branch operands only:
   the first number is the label);  "numlocc" '2+1:' (a literal plus a local label written with its colon);  "parlbl" '(L)+2' *)
LabelOffset(sh) == CASE sh \in {"lblp", "locp", "numlocc", "parlbl", "plbl"} -> -2 [] sh = "lblm" -> 4 [] sh \in {"lbl", "loc", "locc", "lblc"} -> 0 [] OTHER -> 0
UsesLabel(sh) == sh \in {"lbl", "lblp", "lblm", "loc", "locc", "locp", "numlocc", "parlbl", "lblc", "plbl"}   \* "plbl": the number first, '2+label';  "lblc": a symbol defined by assignment to the label
Shaped(f) == IsRel(f) \/ f.k = "Br"
TargetOf(f, A) == IF f.k = "Br" THEN BrTarget(f, A) ELSE RelTarget(f, A)
LabelPlan(sh, f, A, L, fmt) ==
    IF ~Shaped(f) \/ ~UsesLabel(sh) THEN [a |-> -1, near |-> FALSE]
    ELSE LET x == TargetOf(f, A) + LabelOffset(sh) IN
         [a |-> x, near |-> x >= A - PadBefore(A, fmt) /\ x <= A + L + PadAfter(A, L, fmt)]
ShapeOK(sh, f, A, L, fmt) ==
    LET isBr == f.k = "Br"  p == LabelPlan(sh, f, A, L, fmt)  t == TargetOf(f, A) IN
    CASE sh = "std"    -> TRUE
      [] sh = "dec"    -> t >= 0
      [] sh = "dot"    -> TRUE
      [] sh = "dotdec" -> TRUE
      [] sh = "plbl" -> ~isBr /\ (p.a <= A \/ p.a >= A + L) /\ p.a \in 0..65535
      [] sh \in {"lbl", "lblp", "lblm", "lblc"} -> (p.a <= A \/ p.a >= A + L) /\ p.a \in 0..65535 /\ (p.near \/ ~isBr)
      [] sh = "loc"    -> isBr /\ (p.a <= A \/ p.a >= A + L) /\ p.near
      [] sh = "locc"   -> (p.a <= A \/ p.a >= A + L) /\ p.near
      [] sh = "locp"   -> isBr /\ (p.a <= A \/ p.a >= A + L) /\ p.near
      [] sh = "numlocc" -> (p.a <= A \/ p.a >= A + L) /\ p.near
      [] sh = "parlbl" -> (p.a <= A \/ p.a >= A + L) /\ p.a \in 0..65535 /\ (p.near \/ ~isBr)
PosDep(fmt, args) == IsBrFmt(fmt) \/ \E j \in 1..Len(args) : IsRel(args[j])
ShapesFor(fmt, args, A) ==
    IF ~PosDep(fmt, args) THEN {"-"}
    ELSE {sh \in Shapes : \A j \in 1..Len(args) : Shaped(args[j]) => ShapeOK(sh, args[j], A, InsLen(args), fmt)}

(* ------------------------------------------------------------------ the state machine *)
Cases == IF Mode = "trace" THEN JsonDeserialize(IOEnv.TRACE_FILE) ELSE <<>>

VARIABLES phase,   \* "op" "a1" "a2" "ready" "cpu" "done" | "words" | "end"
          base,    \* link base
          apc,     \* address of the instruction being assembled
          opi,     \* row of Ops (0: none)
          args,    \* operand forms picked so far
          shape,   \* spelling shape
          res,     \* [ok, words]: what the encoder says
          cpu,     \* the processor
          prog,    \* prog mode: instructions assembled so far
          tid      \* trace mode: case index; words mode: chunk index
vars == <<phase, base, apc, opi, args, shape, res, cpu, prog, tid>>

SelOps == IF "*" \in OpSel THEN 1..NOps ELSE {i \in 1..NOps : Ops[i].name \in OpSel}
NoRes == [ok |-> FALSE, words |-> <<>>]
Idle  == [st |-> "idle", pc |-> 0, name |-> "", ops |-> <<>>, n |-> 0]

Init == /\ opi = 0 /\ args = <<>> /\ shape = "-" /\ prog = <<>>
        /\ CASE Mode \in {"single", "prog"} ->
                  /\ phase = "op" /\ base \in Bases /\ apc = base /\ res = NoRes /\ cpu = Idle /\ tid = 0
             [] Mode = "words" ->
                  /\ phase = "wgroup" /\ base = 0 /\ apc = 0 /\ res = NoRes /\ cpu = Idle /\ tid \in 0..15
             [] Mode = "trace" ->
                  /\ tid \in 1..Len(Cases) /\ phase = "cpu" /\ base = Cases[tid].a /\ apc = base
                  /\ res = [ok |-> TRUE, words |-> Cases[tid].w] /\ cpu = CpuInit(apc)

Fmt == Ops[opi].fmt
Arity == Len(Sig(Fmt))

PickOp == /\ phase = "op" /\ (Mode = "single" \/ Len(prog) < ProgLen)
          /\ \E i \in SelOps : /\ opi' = i /\ args' = <<>>
                               /\ phase' = IF Len(Sig(Ops[i].fmt)) = 0 THEN "ready" ELSE "a1"
          /\ UNCHANGED <<base, apc, shape, res, cpu, prog, tid>>
PickA1 == /\ phase = "a1"
          /\ \E f \in SlotForms[Sig(Fmt)[1]] : args' = <<f>>
          /\ phase' = IF Arity = 1 THEN "ready" ELSE "a2"
          /\ UNCHANGED <<base, apc, opi, shape, res, cpu, prog, tid>>
PickA2 == /\ phase = "a2"
          /\ \E f \in SlotForms[Sig(Fmt)[2]] : args' = Append(args, f)
          /\ phase' = "ready"
          /\ UNCHANGED <<base, apc, opi, shape, res, cpu, prog, tid>>

\* C04 runs enumerate only forms with a PC-relative operand or a branch target (two PC-relative
\* operands of one instruction name the same target, as relative or as relative-deferred)
FocusOK == GenSet = "c04" =>
             /\ PosDep(Fmt, args)
             /\ (Len(args) = 2 /\ IsRel(args[1]) /\ IsRel(args[2])) => (args[1].v = args[2].v /\ args[1].h = args[2].h)

AssembleAct ==
    /\ phase = "ready" /\ FocusOK
    /\ \E sh \in ShapesFor(Fmt, args, apc) :
         /\ shape' = sh
         /\ res' = Assemble(opi, args, apc)
         /\ IF res'.ok THEN cpu' = CpuInit(apc) /\ phase' = "cpu"
            ELSE Mode = "single" /\ cpu' = Idle /\ phase' = "done"      \* refused: nothing to execute
         /\ Mode = "prog" => NPcInc(args) = 0                           \* whole images must stay in step
    /\ UNCHANGED <<base, apc, opi, args, prog, tid>>

Mem == [org |-> apc, img |-> res.words]
CpuAct(st) == /\ phase = "cpu" /\ cpu.st = st
              /\ cpu' = CpuStep(Mem, cpu)
              /\ phase' = IF cpu'.st = "done" THEN "done" ELSE "cpu"
              /\ UNCHANGED <<base, apc, opi, args, shape, res, prog, tid>>
FetchOpcode == CpuAct("op")
FetchSrcExt == CpuAct("src")
FetchDstExt == CpuAct("dst")
Execute     == CpuAct("exec")

\* prog mode: the instruction joins the program, the location counter moves on
Commit == /\ Mode = "prog" /\ phase = "done"
          /\ prog' = Append(prog, [op |-> Ops[opi].name, i |-> opi, args |-> args, a |-> apc, w |-> res.words])
          /\ apc' = apc + 2 * Len(res.words)
          /\ phase' = "op" /\ opi' = 0 /\ args' = <<>> /\ res' = NoRes /\ cpu' = Idle /\ shape' = "-"
          /\ UNCHANGED <<base, tid>>

\* words mode: 16 groups of 16 chunks of 256 words (two levels so that the workers share the load)
PickChunk == /\ phase = "wgroup" /\ phase' = "words" /\ \E c \in 0..15 : tid' = 16 * tid + c
             /\ UNCHANGED <<base, apc, opi, args, shape, res, cpu, prog>>

Next == PickChunk \/ PickOp \/ PickA1 \/ PickA2 \/ AssembleAct \/ FetchOpcode \/ FetchSrcExt \/ FetchDstExt \/ Execute \/ Commit
Spec == Init /\ [][Next]_vars

(* ------------------------------------------------------------------ properties checked by TLC *)
Formed == Mode \in {"single", "prog"} /\ phase = "done"        \* a complete form with the encoder's verdict

TypeOK == /\ phase \in {"op", "a1", "a2", "ready", "cpu", "done", "words", "wgroup"}
          /\ opi \in 0..NOps /\ Len(args) <= 2
          /\ \A j \in 1..Len(res.words) : res.words[j] \in 0..65535
          /\ cpu.pc \in 0..65535

\* decode(encode(form)) = form, and the processor consumes exactly the emitted words
DecodeRecoversSource == (Formed /\ res.ok /\ PcIncSane(args)) => Recovers(opi, args, apc, res.words, cpu)

\* a branch is encodable iff its distance from addr+2 is even and in -256..+254 (SOB: -126..0),
\* and then the processor lands on the target
BranchReach ==
    (Formed /\ IsBrFmt(Fmt)) =>
       LET f == args[Len(args)]  d == f.v IN
       /\ res.ok <=> (IF Fmt = "br" THEN d % 2 = 0 /\ d >= -256 /\ d <= 254 ELSE d % 2 = 0 /\ d >= -126 /\ d <= 0)
       /\ res.ok => cpu.ops[Len(cpu.ops)].ea = W16(apc + 2 + d)

\* the effective address the processor computes for a relative / relative-deferred operand
\* (from ITS pc at the moment it has read that word) is the address written in the source
RelLands ==
    (Formed /\ res.ok /\ PcIncSane(args)) =>
       LET cn == Canon(opi, args) IN
       \A j \in 1..Len(cn.args) : IsRel(cn.args[j]) =>
           /\ cpu.ops[j].r = 7 /\ cpu.ops[j].m = (IF cn.args[j].k = "Rel" THEN 6 ELSE 7)
           /\ cpu.ops[j].ea = RelTarget(cn.args[j], apc)

\* push/pop/call/ret/return encode exactly as the mov/jsr/rts form they stand for
AliasEncodes == (Formed /\ res.ok /\ IsAlias(opi)) =>
                   LET cn == Canon(opi, args) IN Assemble(cn.i, cn.args, apc).words = res.words

\* ---- static properties of the table (constant-level; evaluated once)
Fixed(i) == 65535 - FieldMask(Ops[i].fmt)                       \* the bits a row fixes
\* two rows match a common word iff their bases agree on every bit both of them fix
Overlap(i, j) == ((Ops[i].base ^^ Ops[j].base) & (Fixed(i) & Fixed(j))) = 0
NoOverlapHolds == \A i \in 1..NOps : \A j \in 1..NOps : Ops[i].cpu # Ops[j].cpu => ~Overlap(i, j)
SynonymsShareHolds == \A i \in 1..NOps : \A j \in 1..NOps :
                          (Ops[i].cpu = Ops[j].cpu /\ ~IsAlias(i) /\ ~IsAlias(j)) => (Ops[i].base = Ops[j].base /\ Ops[i].fmt = Ops[j].fmt)
\* a special case matches a subset of the words of the operation it stands for
AliasWithinParentHolds == \A i \in 1..NOps : IsAlias(i) =>
                             LET p == RowOf(Ops[i].cpu) IN
                             /\ (FieldMask(Ops[i].fmt) & Fixed(p)) = 0
                             /\ ((Ops[i].base ^^ Ops[p].base) & Fixed(p)) = 0
BaseCleanHolds == \A i \in 1..NOps : /\ Ops[i].fmt \in Fmts /\ Ops[i].base \in 0..65535
                                     /\ (Ops[i].base & FieldMask(Ops[i].fmt)) = 0
NamesDistinctHolds == \A i \in 1..NOps : \A j \in 1..NOps : Ops[i].name = Ops[j].name => i = j
NoOverlap         == NoOverlapHolds
SynonymsShare     == SynonymsShareHolds
AliasWithinParent == AliasWithinParentHolds
BaseClean         == BaseCleanHolds
NamesDistinct     == NamesDistinctHolds

\* ---- words mode: the range decoder and the flat table describe the same instruction set:
\* a word decodes to operation c iff some row matches it, and every matching row is of operation c
\* (all 65 536 words, 256 per state)
FixedOf == [i \in 1..NOps |-> Fixed(i)]
BaseOf  == [i \in 1..NOps |-> Ops[i].base]
DecoderAgreesWithTable ==
    phase = "words" =>
       \A w \in (256 * tid)..(256 * tid + 255) :
           LET d == Decode(w)  rows == {i \in 1..NOps : (w & FixedOf[i]) = BaseOf[i]} IN
           IF d.name = "illegal" THEN rows = {}
           ELSE rows # {} /\ \A i \in rows : Ops[i].cpu = d.name

\* ---- prog mode: the processor, started at the base, walks the whole image instruction by
\* instruction and meets each source statement at its address
RECURSIVE Walk(_, _, _)
Walk(M, k, pc) == IF k > Len(prog) THEN pc = M.org + 2 * Len(M.img)
                  ELSE LET c == CpuRun(M, pc) IN
                       /\ pc = prog[k].a
                       /\ Recovers(prog[k].i, prog[k].args, pc, prog[k].w, c)
                       /\ Walk(M, k + 1, c.pc)
RECURSIVE Concat(_, _)
Concat(s, k) == IF k > Len(s) THEN <<>> ELSE s[k].w \o Concat(s, k + 1)
Image == Concat(prog, 1)
ProgComplete == Mode = "prog" /\ phase = "op" /\ Len(prog) = ProgLen
ImageDecodes == ProgComplete => Walk([org |-> base, img |-> Image], 1, base)

(* ------------------------------------------------------------------ exports *)
ArgJson(A, L, fmt) == [j \in 1..Len(args) |->
                         [k |-> args[j].k, r |-> args[j].r, v |-> args[j].v, h |-> args[j].h,
                          t |-> IF Shaped(args[j]) THEN TargetOf(args[j], A) ELSE -1,
                          ci |-> IF Ops[opi].name \in {"pop", "call"} THEN j + 1 ELSE j,   \* operand index on the processor side
                          lab |-> LabelPlan(shape, args[j], A, L, fmt)]]
ExportForm == (Mode = "single" /\ phase = "done") =>
    PrintT(ToJson([m |-> "f", op |-> Ops[opi].name, fmt |-> Fmt, cpu |-> Ops[opi].cpu, a |-> apc, sh |-> shape,
                   args |-> ArgJson(apc, InsLen(args), Fmt), ok |-> res.ok, w |-> res.words,
                   pic |-> ~PosDep(Fmt, args), len |-> InsLen(args), rt |-> PcIncSane(args), ninc |-> NPcInc(args),
                   pre |-> PadBefore(apc, Fmt), post |-> PadAfter(apc, InsLen(args), Fmt)]))
ExportProg == ProgComplete =>
    PrintT(ToJson([m |-> "p", base |-> base, image |-> Image,
                   ins |-> [k \in 1..Len(prog) |-> [op |-> prog[k].op, a |-> prog[k].a, w |-> prog[k].w,
                                                      args |-> [j \in 1..Len(prog[k].args) |->
                                                         [k |-> prog[k].args[j].k, r |-> prog[k].args[j].r, v |-> prog[k].args[j].v,
                                                          h |-> prog[k].args[j].h,
                                                          t |-> IF Shaped(prog[k].args[j]) THEN TargetOf(prog[k].args[j], prog[k].a) ELSE -1]]]]]))
\* trace mode: what the processor does with words the real assembler produced
TraceOK == LET c == Cases[tid] IN
           /\ cpu.name = c.name
           /\ cpu.n = c.n
           /\ \A q \in 1..Len(c.chk) : /\ c.chk[q].i <= Len(cpu.ops)
                                       /\ cpu.ops[c.chk[q].i].ea = c.chk[q].ea
ExportTrace == (Mode = "trace" /\ phase = "done") =>
    PrintT(ToJson([m |-> "t", tid |-> tid, name |-> cpu.name, n |-> cpu.n,
                   eas |-> [j \in 1..Len(cpu.ops) |-> cpu.ops[j].ea], ok |-> TraceOK]))
=============================================================================
