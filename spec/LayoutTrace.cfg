SPECIFICATION Spec
INVARIANT Accept
POSTCONDITION Post
CHECK_DEADLOCK FALSE
