----------------------------- MODULE LayoutTrace -----------------------------
(* C02, code -> model.  Validates traces recorded from REAL assemblies (hook H1) against the layout law:

     the address given to a statement = start of its block + number of bytes produced by the statements before
     it in that block; an announced size is the final size; the bytes found in the image at that address are
     the bytes the statement produced; a label's value is the address of the next byte; the bytes of a block
     (a file, an included file, one copy of a .repeat body) are the concatenation of its statements' bytes; the
     image is the concatenation of the linked files, starting at the link base.

   Input (JSON): [programs |-> <<[base, image]>>, traces |-> <<[p, start, total, ev]>>].  One trace per completed
   compile_block invocation ("frame") plus one root trace per program whose events are the linked files.
   ev[l] = [k |-> "emit" | "label", a |-> address given, n |-> final length, ann |-> announced size or -1, b |-> bytes].
   Many traces are validated per TLC run: the trace id is chosen in Init, accepted ids are collected in TLC
   register 1, register 10+tid holds the furthest event reached (for diagnosis).                              *)
EXTENDS Integers, Sequences, FiniteSets, TLC, Json, IOUtils

Input  == JsonDeserialize(IOEnv.TRACE_FILE)
Traces == Input.traces

VARIABLES tid, l, pc
vars == <<tid, l, pc>>

T  == Traces[tid]
P  == Input.programs[T.p]
Ev == T.ev[l]

SliceOK(a, n, b) == /\ a >= P.base
                    /\ a - P.base + n <= Len(P.image)
                    /\ Len(b) = n
                    /\ (n > 0 => SubSeq(P.image, a - P.base + 1, a - P.base + n) = b)

ASSUME TLCSet(1, {})

Init == /\ tid \in 1..Len(Traces)
        /\ l = 1
        /\ pc = Traces[tid].start
        /\ TLCSet(10 + tid, 1)

Step(cond, newpc) == /\ l <= Len(T.ev)
                     /\ cond
                     /\ l' = l + 1 /\ pc' = newpc /\ UNCHANGED tid
                     /\ TLCSet(10 + tid, l + 1)

Emit  == Step(Ev.k = "emit" /\ Ev.a = pc /\ (Ev.ann # -1 => Ev.ann = Ev.n) /\ SliceOK(Ev.a, Ev.n, Ev.b), pc + Ev.n)
Label == Step(Ev.k = "label" /\ Ev.a = pc, pc)

Next == Emit \/ Label
Spec == Init /\ [][Next]_vars

Done == /\ l = Len(T.ev) + 1
        /\ pc - T.start = T.total
        /\ T.start >= P.base /\ T.start - P.base + T.total <= Len(P.image)
        /\ (T.root => (T.start = P.base /\ T.total = Len(P.image)))
Accept == Done => TLCSet(1, TLCGet(1) \cup {tid})
Post == /\ \A t \in (1..Len(Traces)) \ TLCGet(1) : PrintT(<<"REJECTED", t, TLCGet(10 + t)>>)
        /\ PrintT(<<"ACCEPTED", Cardinality(TLCGet(1))>>)
=============================================================================
