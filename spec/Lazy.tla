-------------------------------- MODULE Lazy --------------------------------
(* The lazy evaluation engine of pdpy11 (deferred.py) as the code runs it, at the grain of the
   Python methods: heap objects Deferred / LinearPolynomial / Promise, the globals
   try_compute.depth and Awaiting.awaiting_stack, and an explicit control stack with one frame per
   active call of   wait() loop ("wl") . obj.wait() with its Awaiting block ("ow") .
   Deferred.construct with its try_compute block ("cn") . fn() of a Deferred ("fn") .
   LinearPolynomial._wait ("lp").  Exceptions (NotReadyError, DeferredCycle, RecoverableError, an
   injected one) unwind the stack ONE FRAME PER STEP, each frame doing what its __exit__ does.

   TLC writes the program: during the compile pass it appends one statement at a time
        name = k | s | s+k | s-t | s*k | s/k        name:        .blkb s        .word s
   (compile_assignment / compile_label / a size-bearing metacommand / a sized one) and runs the
   eager attempt; then `Finish` settles the link base and runs the final phase of
   compile_and_link_files: wait(LA), wait(code), wait(every symbol).

   What is modelled from the code (read for *behaviour of the engine*, which is the thing under
   test in role D; the expected VALUES come from Den below, written from the language):
     Symbol.resolve returns the STORED object without waiting it; not found -> NotReadyError when
     depth > 0, else an undefined-symbol report and 0;  construct returns tmp.wait(), i.e. the value
     may itself be another deferred; NotReady leaves the Deferred itself in the symbol table;
     `+ - *` on deferreds build LinearPolynomials WITHOUT waiting (awaited=False), `/` builds a
     Deferred that waits its operand; LinearPolynomial._wait substitutes each key under
     try_compute (NotReady swallowed) and then sums key.wait()*coeff.

   Checked by TLC (role D): Terminates (liveness, WF), NoInternalError, NoSpin, Balanced,
   SettledIsStable (action property), EagerEqualsLazy (against the denotational value Den).
   On the faithful model Terminates / NoSpin / NoInternalError FAIL for cyclic definitions: that
   is the open finding KF-cyclic-definition-*; config A (Cyclic = FALSE) must pass everything.   *)
EXTENDS Integers, Sequences, FiniteSets, TLC, Json, IOUtils

CONSTANTS Syms,        \* symbol names, e.g. {"a","b","c"}
          Ks,          \* constants for  name = k
          AddKs,       \* k of s+k
          MulKs,       \* k of s*k
          DivKs,       \* k of s/k  (non-zero)
          Forms,       \* subset of {"const","ref","add","sub","mul","div"}
          Kinds,       \* subset of {"def","label","blkb","word"}
          MaxLen,      \* statements per program
          Cyclic,      \* TRUE: every definition graph; FALSE: acyclic graphs only (config A)
          Inject,      \* TRUE: one arbitrary exception may be raised at any point of evaluation
          Fault,       \* "none"; or a deliberately broken engine, to show that the properties can fail:
                       \* "depth-leak" (TryCompute.__exit__ forgets depth -= 1 on NotReadyError),
                       \* "stack-leak" (Awaiting.__exit__ forgets the pop when an exception passes)
          MaxHeap, MaxStk, MaxMag    \* divergence bounds (see Exceeded)

VARIABLES prog, phase, cont, symtab, symorder, addr, chunks, heap, depth, astack, stk, ret, exc,
          nerr, outcome, todo, final, injected

vars == <<prog, phase, cont, symtab, symorder, addr, chunks, heap, depth, astack, stk, ret, exc,
          nerr, outcome, todo, final, injected>>

Base == 512                                  \* default link base 0o1000

(* ------------------------------------------------------------------ values, objects, frames *)
IntV(n)  == [t |-> "int",   v |-> n]
Ref(i)   == [t |-> "ref",   v |-> i]
Bytes(n) == [t |-> "bytes", v |-> n]
None     == [t |-> "none",  v |-> 0]

Obj(c) == [c |-> c, f |-> "", s |-> 0, x |-> None, y |-> None, k |-> 0,
           settled |-> FALSE, value |-> None, aw |-> FALSE, coeffs |-> <<>>, const |-> 0]
NewD(f, s, x, y, k) == [Obj("D") EXCEPT !.f = f, !.s = s, !.x = x, !.y = y, !.k = k]
NewLP(cn)           == [Obj("LP") EXCEPT !.coeffs = cn.coeffs, !.const = cn.const]

Frame(op, id, v) == [op |-> op, pc |-> 0, id |-> id, v |-> v, i |-> 1, items |-> <<>>, newc |-> <<>>,
                     nconst |-> 0, accI |-> TRUE, accC |-> <<>>, accK |-> 0]
WL(v)  == Frame("wl", 0, v)
OW(id) == Frame("ow", id, None)
CN(id) == Frame("cn", id, None)
FN(id) == Frame("fn", id, None)

(* ------------------------------------------------------------------ LinearPolynomial algebra *)
RECURSIVE SumC(_, _, _)
SumC(ps, id, j) == IF j = 0 THEN 0 ELSE (IF ps[j][1] = id THEN ps[j][2] ELSE 0) + SumC(ps, id, j - 1)

(* LinearPolynomial.__init__ on a list of pairs: a dict in first-occurrence order, equal keys
   summed, zero coefficients dropped *)
Normalise(ps) ==
    LET idx    == SelectSeq([j \in 1..Len(ps) |-> j], LAMBDA j : \A m \in 1..(j - 1) : ps[m][1] # ps[j][1])
        merged == [q \in 1..Len(idx) |-> <<ps[idx[q]][1], SumC(ps, ps[idx[q]][1], Len(ps))>>]
    IN  SelectSeq(merged, LAMBDA p : p[2] # 0)

Cn(cs, k)      == [coeffs |-> cs, const |-> k]
Content(h, id) == Cn(h[id].coeffs, h[id].const)
CScale(c, k)   == Cn(Normalise([j \in 1..Len(c.coeffs) |-> <<c.coeffs[j][1], c.coeffs[j][2] * k>>]), c.const * k)
CAdd(c1, c2)   == Cn(Normalise(c1.coeffs \o c2.coeffs), c1.const + c2.const)
CAddK(c, k)    == Cn(c.coeffs, c.const + k)

(* get_current_best_estimate(): ONE level *)
BestEst(h, v) ==
    IF v.t # "ref" THEN v
    ELSE LET o == h[v.v] IN
         IF o.c = "LP" THEN (IF o.coeffs # <<>> THEN v ELSE IntV(o.const))
         ELSE (IF o.settled THEN o.value ELSE v)

(* content of  LinearPolynomial() + v   (LinearPolynomial.__add__ normalises v through its best estimate) *)
AsLP1(h, v) ==
    LET be == BestEst(h, v) IN
    IF be.t # "ref" THEN Cn(<<>>, be.v)
    ELSE IF h[be.v].c = "LP" THEN Content(h, be.v)
    ELSE Cn(<< <<be.v, 1>> >>, 0)

(* content of  -y : BaseDeferred.__neg__ follows the best estimate while it is another object
   (recursively: -estimate), LinearPolynomial.__neg__ negates; a chain of settled values that
   comes back to itself recurses until Python gives up (RecursionError) *)
RECURSIVE NegR(_, _, _)
NegR(h, y, fuel) ==
    IF y.t # "ref" THEN [ok |-> TRUE, c |-> Cn(<<>>, 0 - y.v)]
    ELSE IF h[y.v].c = "LP" THEN [ok |-> TRUE, c |-> CScale(Content(h, y.v), -1)]
    ELSE LET be == BestEst(h, y) IN
         IF be = y THEN [ok |-> TRUE, c |-> Cn(<< <<y.v, -1>> >>, 0)]
         ELSE IF fuel = 0 THEN [ok |-> FALSE, c |-> Cn(<<>>, 0)]
         ELSE NegR(h, be, fuel - 1)
NegOk(h, y) == NegR(h, y, Len(h) + 1).ok
NegC(h, y)  == NegR(h, y, Len(h) + 1).c

AddKC(h, x, k) == IF h[x.v].c = "LP" THEN CAddK(Content(h, x.v), k) ELSE CAddK(AsLP1(h, x), k)
MulKC(h, x, k) == IF h[x.v].c = "LP" THEN CScale(Content(h, x.v), k)
                  ELSE Cn(IF k = 0 THEN <<>> ELSE << <<x.v, k>> >>, 0)
SubC(h, x, y)  ==            \* at least one of x, y is a ref
    IF x.t # "ref" THEN CAddK(NegC(h, y), x.v)                         \* int - D  ->  D.__rsub__
    ELSE IF h[x.v].c = "LP" THEN CAdd(Content(h, x.v), NegC(h, y))     \* LP + (-y)
    ELSE IF y.t # "ref" THEN CAddK(AsLP1(h, x), 0 - y.v)               \* D + (-k)
    ELSE CAdd(NegC(h, y), AsLP1(h, x))                                 \* D + LP -> LP.__radd__: (-y) first

(* ------------------------------------------------------------------ the statement alphabet *)
Stmt(k, s, f, a, b, n) == [k |-> k, s |-> s, f |-> f, a |-> a, b |-> b, n |-> n]
DefStmts ==
    (IF "const" \in Forms THEN {Stmt("def", s, "const", "", "", n) : s \in Syms, n \in Ks} ELSE {})
    \cup (IF "ref" \in Forms THEN {Stmt("def", sa[1], "ref", sa[2], "", 0) : sa \in Syms \X Syms} ELSE {})
    \cup (IF "add" \in Forms THEN {Stmt("def", q[1], "add", q[2], "", q[3]) : q \in Syms \X Syms \X AddKs} ELSE {})
    \cup (IF "sub" \in Forms THEN {Stmt("def", q[1], "sub", q[2], q[3], 0) : q \in Syms \X Syms \X Syms} ELSE {})
    \cup (IF "mul" \in Forms THEN {Stmt("def", q[1], "mul", q[2], "", q[3]) : q \in Syms \X Syms \X MulKs} ELSE {})
    \cup (IF "div" \in Forms THEN {Stmt("def", q[1], "div", q[2], "", q[3]) : q \in Syms \X Syms \X DivKs} ELSE {})
Alphabet ==
    (IF "def" \in Kinds THEN DefStmts ELSE {})
    \cup (IF "label" \in Kinds THEN {Stmt("label", s, "", "", "", 0) : s \in Syms} ELSE {})
    \cup (IF "blkb" \in Kinds THEN {Stmt("blkb", "", "", s, "", 0) : s \in Syms} ELSE {})
    \cup (IF "word" \in Kinds THEN {Stmt("word", "", "", s, "", 0) : s \in Syms} ELSE {})

(* optional: restrict the pass to given programs (a JSON list of statement lists in the file named by
   the environment variable LAZY_PROGS) -- used to ask the model about particular programs *)
FixedProgs == IF "LAZY_PROGS" \in DOMAIN IOEnv THEN JsonDeserialize(IOEnv.LAZY_PROGS) ELSE <<>>
IsPrefix(p, q) == Len(p) <= Len(q) /\ \A j \in 1..Len(p) : p[j] = q[j]
Allowed(p)   == FixedProgs = <<>> \/ \E i \in 1..Len(FixedProgs) : IsPrefix(p, FixedProgs[i])
Complete(p)  == FixedProgs = <<>> \/ \E i \in 1..Len(FixedProgs) : p = FixedProgs[i]

Defines(p, s) == \E j \in 1..Len(p) : p[j].k \in {"def", "label"} /\ p[j].s = s
DefIdx(p, s)  == CHOOSE j \in 1..Len(p) : p[j].k \in {"def", "label"} /\ p[j].s = s

(* dependency graph of a program: name -> names its value depends on *)
Deps(p, s) ==
    IF ~Defines(p, s) THEN {}
    ELSE LET j == DefIdx(p, s) IN
         IF p[j].k = "label" THEN {p[i].a : i \in {i \in 1..(j - 1) : p[i].k = "blkb"}}
         ELSE ({p[j].a, p[j].b} \ {""})
RECURSIVE ReachN(_, _, _)
ReachN(p, S, n) == IF n = 0 THEN S ELSE ReachN(p, S \cup UNION {Deps(p, s) : s \in S}, n - 1)
Acyclic(p) == \A s \in Syms : s \notin ReachN(p, Deps(p, s), Cardinality(Syms))

(* ------------------------------------------------------------------ denotational semantics
   (written from the language, not from the engine): a symbol's value is the value of its
   expression; a label is the link base plus the lengths of what precedes it; `/` floors.     *)
Err   == [ok |-> FALSE, v |-> 0]
Ok(n) == [ok |-> TRUE, v |-> n]
Lift2(x, y, r) == IF x.ok /\ y.ok THEN Ok(r) ELSE Err
RECURSIVE Den(_, _, _), SizeOf(_, _, _), AddrOf(_, _, _)
Den(p, s, fuel) ==
    IF fuel = 0 \/ ~Defines(p, s) THEN Err
    ELSE LET j == DefIdx(p, s) st == p[j] IN
         IF st.k = "label" THEN AddrOf(p, j, fuel - 1)
         ELSE CASE st.f = "const" -> Ok(st.n)
                [] st.f = "ref"   -> Den(p, st.a, fuel - 1)
                [] st.f = "add"   -> LET x == Den(p, st.a, fuel - 1) IN Lift2(x, x, x.v + st.n)
                [] st.f = "mul"   -> LET x == Den(p, st.a, fuel - 1) IN Lift2(x, x, x.v * st.n)
                [] st.f = "div"   -> LET x == Den(p, st.a, fuel - 1) IN Lift2(x, x, x.v \div st.n)
                [] st.f = "sub"   -> LET x == Den(p, st.a, fuel - 1) y == Den(p, st.b, fuel - 1) IN Lift2(x, y, x.v - y.v)
SizeOf(p, i, fuel) ==
    IF p[i].k = "blkb" THEN LET c == Den(p, p[i].a, fuel) IN IF c.ok /\ c.v >= 0 /\ c.v < 65536 THEN c ELSE Err
    ELSE IF p[i].k = "word" THEN Ok(2) ELSE Ok(0)
AddrOf(p, j, fuel) ==        \* address of statement j = base + sizes of the statements before it
    IF j = 1 THEN Ok(Base)
    ELSE LET a == AddrOf(p, j - 1, fuel) z == SizeOf(p, j - 1, fuel) IN Lift2(a, z, a.v + z.v)
Fuel == 2 * Cardinality(Syms) + 2
StmtOk(p, j) ==
    CASE p[j].k = "def"   -> Den(p, p[j].s, Fuel).ok
      [] p[j].k = "label" -> Den(p, p[j].s, Fuel).ok
      [] p[j].k = "blkb"  -> SizeOf(p, j, Fuel).ok
      [] p[j].k = "word"  -> LET v == Den(p, p[j].a, Fuel) a == AddrOf(p, j, Fuel) IN
                                v.ok /\ v.v > -65536 /\ v.v < 65536 /\ a.ok /\ a.v % 2 = 0
ProgOk(p) == \A j \in 1..Len(p) : StmtOk(p, j)

(* ------------------------------------------------------------------ the machine *)
Init ==
    /\ prog = <<>> /\ phase = "compile" /\ cont = "none"
    /\ symtab = [s \in Syms |-> None] /\ symorder = <<>>
    /\ heap = << Obj("P") >>                 \* object 1: the link-base Promise LA
    /\ addr = Ref(1) /\ chunks = <<>>
    /\ depth = 0 /\ astack = <<>> /\ stk = <<>> /\ ret = None /\ exc = "none"
    /\ nerr = 0 /\ outcome = "none" /\ todo = <<>> /\ final = [s \in Syms |-> None] /\ injected = FALSE

E == [heap |-> heap, depth |-> depth, astack |-> astack, stk |-> stk, ret |-> ret, exc |-> exc, nerr |-> nerr]

F        == stk[Len(stk)]
Pop      == SubSeq(stk, 1, Len(stk) - 1)
SetTop(f) == [stk EXCEPT ![Len(stk)] = f]
NewId    == Len(heap) + 1
APop     == SubSeq(astack, 1, Len(astack) - 1)
ErrCap(n) == IF n > 2 THEN 2 ELSE n          \* the number of reports matters only as 0 / >= 1

Lookup(s) ==            \* Symbol._resolve
    IF symtab[s].t # "none" THEN [k |-> "ok", v |-> symtab[s], err |-> 0]
    ELSE IF depth > 0 THEN [k |-> "notready", v |-> None, err |-> 0]
    ELSE [k |-> "ok", v |-> IntV(0), err |-> 1]        \* undefined-symbol reported, value 0

RaiseFrom(e)  == [E EXCEPT !.stk = Pop, !.exc = e, !.ret = None]
ReturnV(v)    == [E EXCEPT !.stk = Pop, !.ret = v]
AllocRet(o)   == [E EXCEPT !.heap = Append(heap, o), !.stk = Pop, !.ret = Ref(NewId)]
AllocCall(o)  == [E EXCEPT !.heap = Append(heap, o), !.stk = Append(SetTop([F EXCEPT !.pc = 1]), CN(NewId)), !.ret = None]

(* splice one substituted key into the new coefficient list (LinearPolynomial._wait, first loop) *)
Splice(fr, kv, c) ==
    LET be == BestEst(heap, kv) IN
    IF be.t # "ref" THEN [fr EXCEPT !.nconst = @ + be.v * c]
    ELSE IF heap[be.v].c = "LP"
         THEN [fr EXCEPT !.newc = @ \o [j \in 1..Len(heap[be.v].coeffs) |-> <<heap[be.v].coeffs[j][1], heap[be.v].coeffs[j][2] * c>>],
                         !.nconst = @ + heap[be.v].const * c]
         ELSE [fr EXCEPT !.newc = Append(@, <<be.v, c>>)]

(* acc := acc + r * c   (second loop: sum(key.wait() * value ...)) *)
Accumulate(fr, r, c) ==
    IF r.t # "ref"
    THEN [fr EXCEPT !.accK = @ + r.v * c]
    ELSE LET term == IF heap[r.v].c = "LP" THEN CScale(Content(heap, r.v), c) ELSE Cn(<< <<r.v, c>> >>, 0)
             sum  == CAdd(Cn(fr.accC, fr.accK), term) IN
         [fr EXCEPT !.accI = FALSE, !.accC = sum.coeffs, !.accK = sum.const]

RhsStep ==              \* fn of a symbol definition: Assignment.value.resolve(state)
    LET o == heap[F.id] st == prog[o.s] IN
    IF F.pc = 1 THEN ReturnV(ret)
    ELSE CASE st.f = "const" -> ReturnV(IntV(st.n))
      [] st.f = "ref" -> LET L == Lookup(st.a) IN
                         IF L.k = "notready" THEN RaiseFrom("NotReady")
                         ELSE [ReturnV(L.v) EXCEPT !.nerr = ErrCap(nerr + L.err)]
      [] st.f \in {"add", "mul", "div"} ->
            LET L == Lookup(st.a) IN
            IF L.k = "notready" THEN RaiseFrom("NotReady")
            ELSE IF L.v.t # "ref"
                 THEN [ReturnV(IntV(CASE st.f = "add" -> L.v.v + st.n [] st.f = "mul" -> L.v.v * st.n [] OTHER -> L.v.v \div st.n))
                         EXCEPT !.nerr = ErrCap(nerr + L.err)]
                 ELSE AllocCall(NewD(CASE st.f = "add" -> "addk" [] st.f = "mul" -> "mulk" [] OTHER -> "divk", 0, L.v, None, st.n))
      [] st.f = "sub" ->
            LET L1 == Lookup(st.a) L2 == Lookup(st.b) IN
            IF L1.k = "notready" \/ L2.k = "notready" THEN RaiseFrom("NotReady")
            ELSE IF L1.v.t # "ref" /\ L2.v.t # "ref"
                 THEN [ReturnV(IntV(L1.v.v - L2.v.v)) EXCEPT !.nerr = ErrCap(nerr + L1.err + L2.err)]
                 ELSE [AllocCall(NewD("sub", 0, L1.v, L2.v, 0)) EXCEPT !.nerr = ErrCap(nerr + L1.err + L2.err)]

FnStep ==
    LET o == heap[F.id] IN
    CASE o.f = "rhs"  -> RhsStep
      [] o.f = "addk" -> AllocRet(NewLP(AddKC(heap, o.x, o.k)))          \* lhs + k : no waiting
      [] o.f = "mulk" -> AllocRet(NewLP(MulKC(heap, o.x, o.k)))          \* lhs * k : no waiting
      [] o.f = "sub"  -> IF NegOk(heap, o.y) THEN AllocRet(NewLP(SubC(heap, o.x, o.y)))     \* lhs - rhs : no waiting
                         ELSE RaiseFrom("Recursion")
      [] o.f = "divk" -> IF F.pc = 0 THEN [E EXCEPT !.stk = Append(SetTop([F EXCEPT !.pc = 1]), WL(o.x)), !.ret = None]
                         ELSE ReturnV(IntV(ret.v \div o.k))              \* wait(lhs) // k
      [] o.f = "blkb" ->
            IF F.pc = 0
            THEN LET L == Lookup(prog[o.s].a) IN
                 IF L.k = "notready" THEN RaiseFrom("NotReady")
                 ELSE [E EXCEPT !.stk = Append(SetTop([F EXCEPT !.pc = 1]), WL(L.v)), !.ret = None, !.nerr = ErrCap(nerr + L.err)]
            ELSE IF ret.v < 0 \/ ret.v >= 65536
                 THEN [RaiseFrom("Recoverable") EXCEPT !.nerr = ErrCap(nerr + 1)]        \* value-out-of-bounds reported
                 ELSE ReturnV(Bytes(ret.v))
      [] o.f = "len" ->          \* Deferred.length(): if not self.settled: self.wait(); len(self.value)
            IF F.pc = 0 /\ ~heap[o.x.v].settled
            THEN [E EXCEPT !.stk = Append(SetTop([F EXCEPT !.pc = 1]), OW(o.x.v)), !.ret = None]
            ELSE ReturnV(IntV(heap[o.x.v].value.v))
      [] o.f = "word" ->
            IF F.pc = 0
            THEN LET L == Lookup(prog[o.s].a) IN
                 IF L.k = "notready" THEN RaiseFrom("NotReady")
                 ELSE [E EXCEPT !.stk = Append(SetTop([F EXCEPT !.pc = 1]), WL(L.v)), !.ret = None, !.nerr = ErrCap(nerr + L.err)]
            ELSE IF F.pc = 1
            THEN IF ret.v <= -65536 \/ ret.v >= 65536
                 THEN [RaiseFrom("Recoverable") EXCEPT !.nerr = ErrCap(nerr + 1)]
                 ELSE [E EXCEPT !.stk = Append(SetTop([F EXCEPT !.pc = 2]), WL(o.x)), !.ret = None]   \* wait(emit_address)
            ELSE IF ret.v % 2 = 1 THEN [ReturnV(Bytes(3)) EXCEPT !.nerr = ErrCap(nerr + 1)]           \* odd-address reported
                 ELSE ReturnV(Bytes(2))

Exec ==
    CASE F.op = "wl" ->              \* while isinstance(d, BaseDeferred): d = d.wait()
            LET v == IF F.pc = 0 THEN F.v ELSE ret IN
            IF v.t = "ref" THEN [E EXCEPT !.stk = Append(SetTop([F EXCEPT !.pc = 1, !.v = v]), OW(v.v)), !.ret = None]
            ELSE ReturnV(v)
      [] F.op = "ow" ->              \* obj.wait():  with Awaiting(self): return self._wait()
            LET o == heap[F.id] IN
            IF F.pc = 0 THEN
                IF o.aw THEN RaiseFrom("Cycle")                                   \* Awaiting.__enter__
                ELSE IF o.c = "LP"
                     THEN [E EXCEPT !.heap[F.id].aw = TRUE, !.astack = Append(astack, F.id),
                                    !.stk = Append(SetTop([F EXCEPT !.pc = 2]),
                                                   [Frame("lp", F.id, None) EXCEPT !.items = o.coeffs, !.nconst = o.const])]
                     ELSE IF o.settled THEN ReturnV(o.value)                      \* enter, return value, exit
                     ELSE IF o.c = "P" THEN RaiseFrom(IF depth > 0 THEN "NotReady" ELSE "Internal")
                     ELSE [E EXCEPT !.heap[F.id].aw = TRUE, !.astack = Append(astack, F.id),
                                    !.stk = Append(SetTop([F EXCEPT !.pc = 1]), FN(F.id))]
            ELSE IF F.pc = 1
            THEN [E EXCEPT !.heap[F.id].value = ret, !.heap[F.id].settled = TRUE, !.heap[F.id].aw = FALSE,
                           !.astack = APop, !.stk = Pop]
            ELSE [E EXCEPT !.heap[F.id].aw = FALSE, !.astack = APop, !.stk = Pop]
      [] F.op = "cn" ->              \* with try_compute: return tmp.wait()
            IF F.pc = 0 THEN [E EXCEPT !.depth = depth + 1, !.stk = Append(SetTop([F EXCEPT !.pc = 1]), OW(F.id))]
            ELSE [E EXCEPT !.depth = depth - 1, !.stk = Pop]
      [] F.op = "fn" -> FnStep
      [] F.op = "lp" ->              \* LinearPolynomial._wait
            CASE F.pc = 0 ->
                    IF F.i > Len(F.items)
                    THEN LET norm == Normalise(F.newc) IN
                         [E EXCEPT !.heap[F.id].coeffs = norm, !.heap[F.id].const = F.nconst,
                                   !.stk = SetTop([F EXCEPT !.pc = 3, !.i = 1, !.items = norm])]
                    ELSE [E EXCEPT !.depth = depth + 1, !.stk = Append(SetTop([F EXCEPT !.pc = 1]), OW(F.items[F.i][1]))]
              [] F.pc = 1 ->
                    [E EXCEPT !.depth = depth - 1, !.ret = None,
                              !.stk = SetTop([Splice(F, ret, F.items[F.i][2]) EXCEPT !.pc = 0, !.i = F.i + 1])]
              [] F.pc = 3 ->
                    IF F.i > Len(F.items)
                    THEN IF F.accI THEN ReturnV(IntV(F.accK + F.nconst))
                         ELSE AllocRet(NewLP(Cn(F.accC, F.accK + F.nconst)))
                    ELSE [E EXCEPT !.stk = Append(SetTop([F EXCEPT !.pc = 4]), OW(F.items[F.i][1]))]
              [] F.pc = 4 ->
                    [E EXCEPT !.ret = None, !.stk = SetTop([Accumulate(F, ret, F.items[F.i][2]) EXCEPT !.pc = 3, !.i = F.i + 1])]

Unwind ==       \* an exception passes through the top frame: what its __exit__ does (pc = 0: not entered yet)
    CASE F.op = "ow" /\ F.pc > 0 -> [E EXCEPT !.heap[F.id].aw = FALSE, !.stk = Pop,                       \* Awaiting.__exit__
                                              !.astack = IF Fault = "stack-leak" THEN astack ELSE APop]
      [] F.op = "cn" /\ F.pc > 0 -> IF exc = "NotReady"                                                    \* TryCompute.__exit__
                        THEN [E EXCEPT !.depth = IF Fault = "depth-leak" THEN depth ELSE depth - 1,
                                       !.stk = Pop, !.exc = "none", !.ret = Ref(F.id)]
                        ELSE [E EXCEPT !.depth = depth - 1, !.stk = Pop]
      [] F.op = "lp" /\ F.pc = 1 ->
                        IF exc = "NotReady"          \* swallowed: the key stays what it was
                        THEN [E EXCEPT !.depth = depth - 1, !.exc = "none", !.ret = None,
                                       !.stk = SetTop([Splice(F, Ref(F.items[F.i][1]), F.items[F.i][2]) EXCEPT !.pc = 0, !.i = F.i + 1])]
                        ELSE [E EXCEPT !.depth = depth - 1, !.stk = Pop]
      [] OTHER -> [E EXCEPT !.stk = Pop]

Magnitude(n) == IF n < 0 THEN 0 - n ELSE n
Exceeded ==     \* beyond these bounds the model says "grows without bound" (checked against the real code by replay)
    \/ Len(heap) > MaxHeap \/ Len(stk) > MaxStk
    \/ \E i \in 1..Len(heap) : \/ Magnitude(heap[i].const) > MaxMag
                               \/ (heap[i].value.t = "int" /\ Magnitude(heap[i].value.v) > MaxMag)
                               \/ \E j \in 1..Len(heap[i].coeffs) : Magnitude(heap[i].coeffs[j][2]) > MaxMag
    \/ (stk # <<>> /\ (Magnitude(F.nconst) > MaxMag \/ Magnitude(F.accK) > MaxMag))
    \/ (ret.t = "int" /\ Magnitude(ret.v) > MaxMag)

Running == phase \in {"compile", "final"} /\ ~Exceeded

EngineStep ==
    /\ Running /\ stk # <<>>
    /\ LET r == IF exc # "none" THEN Unwind ELSE Exec IN
         /\ heap' = r.heap /\ depth' = r.depth /\ astack' = r.astack /\ stk' = r.stk
         /\ ret' = r.ret /\ exc' = r.exc /\ nerr' = r.nerr
    /\ UNCHANGED <<prog, phase, cont, symtab, symorder, addr, chunks, outcome, todo, final, injected>>

InjectException ==      \* an arbitrary exception raised somewhere inside evaluation (C18: every exit path)
    /\ Inject /\ ~injected /\ Running /\ stk # <<>> /\ exc = "none"
    /\ exc' = "Injected" /\ injected' = TRUE /\ ret' = None
    /\ UNCHANGED <<prog, phase, cont, symtab, symorder, addr, chunks, heap, depth, astack, stk, nerr, outcome, todo, final>>

AddrPlus(v) ==          \* addr += v
    IF heap[addr.v].c = "LP" THEN CAdd(Content(heap, addr.v), AsLP1(heap, v))
    ELSE CAdd(AsLP1(heap, addr), AsLP1(heap, v))

ChooseStmt ==           \* the compile pass takes one more statement
    /\ Running /\ phase = "compile" /\ cont = "none" /\ stk = <<>> /\ exc = "none" /\ Len(prog) < MaxLen
    /\ \E st \in Alphabet :
         /\ st.k \in {"def", "label"} => ~Defines(prog, st.s)
         /\ Cyclic \/ Acyclic(Append(prog, st))
         /\ Allowed(Append(prog, st))
         /\ prog' = Append(prog, st)
         /\ CASE st.k = "def" ->
                   /\ heap' = Append(heap, NewD("rhs", Len(prog) + 1, None, None, 0))
                   /\ stk' = <<CN(NewId)>> /\ cont' = "def"
                   /\ UNCHANGED <<symtab, symorder, addr>>
              [] st.k = "label" ->
                   /\ symtab' = [symtab EXCEPT ![st.s] = addr] /\ symorder' = Append(symorder, st.s)
                   /\ UNCHANGED <<heap, stk, cont, addr>>
              [] st.k = "blkb" ->
                   /\ heap' = Append(heap, NewD("blkb", Len(prog) + 1, None, None, 0))
                   /\ stk' = <<CN(NewId)>> /\ cont' = "blkb1"
                   /\ UNCHANGED <<symtab, symorder, addr>>
              [] st.k = "word" ->
                   /\ heap' = Append(heap, NewD("word", Len(prog) + 1, addr, None, 0))
                   /\ stk' = <<CN(NewId)>> /\ cont' = "word"
                   /\ UNCHANGED <<symtab, symorder, addr>>
    /\ UNCHANGED <<phase, chunks, depth, astack, ret, exc, nerr, outcome, todo, final, injected>>

Continue ==             \* the statement's eager attempt has returned to compile_block
    /\ Running /\ phase = "compile" /\ cont # "none" /\ stk = <<>> /\ exc = "none"
    /\ CASE cont = "def" ->
              LET s == prog[Len(prog)].s IN
              /\ symtab' = [symtab EXCEPT ![s] = ret] /\ symorder' = Append(symorder, s)
              /\ cont' = "none" /\ UNCHANGED <<heap, stk, addr, chunks>>
         [] cont = "blkb1" ->
              /\ chunks' = Append(chunks, ret)
              /\ IF ret.t = "ref"
                 THEN /\ heap' = Append(heap, NewD("len", 0, ret, None, 0))      \* addr += chunk.length()
                      /\ stk' = <<CN(NewId)>> /\ cont' = "blkb2" /\ UNCHANGED addr
                 ELSE /\ heap' = Append(heap, NewLP(AddrPlus(IntV(ret.v))))
                      /\ addr' = Ref(NewId) /\ cont' = "none" /\ UNCHANGED stk
              /\ UNCHANGED <<symtab, symorder>>
         [] cont = "blkb2" ->
              /\ heap' = Append(heap, NewLP(AddrPlus(ret))) /\ addr' = Ref(NewId) /\ cont' = "none"
              /\ UNCHANGED <<symtab, symorder, stk, chunks>>
         [] cont = "word" ->
              /\ chunks' = Append(chunks, ret)
              /\ heap' = Append(heap, NewLP(AddrPlus(IntV(2)))) /\ addr' = Ref(NewId) /\ cont' = "none"
              /\ UNCHANGED <<symtab, symorder, stk>>
    /\ ret' = None
    /\ UNCHANGED <<prog, phase, depth, astack, exc, nerr, outcome, todo, final, injected>>

Finish ==               \* end of the pass: settle LA, then wait(LA), wait(code), wait(every symbol)
    /\ Running /\ phase = "compile" /\ cont = "none" /\ stk = <<>> /\ exc = "none" /\ Complete(prog)
    /\ phase' = "final"
    /\ heap' = [heap EXCEPT ![1].settled = TRUE, ![1].value = IntV(Base)]
    /\ todo' = << [tag |-> "la", s |-> "", v |-> Ref(1)] >>
               \o [j \in 1..Len(chunks) |-> [tag |-> "chunk", s |-> "", v |-> chunks[j]]]
               \o [j \in 1..Len(symorder) |-> [tag |-> "sym", s |-> symorder[j], v |-> symtab[symorder[j]]]]
    /\ UNCHANGED <<prog, cont, symtab, symorder, addr, chunks, depth, astack, stk, ret, exc, nerr, outcome, final, injected>>

FinalStep ==
    /\ Running /\ phase = "final" /\ stk = <<>> /\ exc = "none"
    /\ IF cont = "final"
       THEN /\ final' = IF Head(todo).tag = "sym" THEN [final EXCEPT ![Head(todo).s] = ret] ELSE final
            /\ todo' = Tail(todo) /\ cont' = "none" /\ ret' = None
            /\ UNCHANGED <<stk, phase, outcome>>
       ELSE IF todo = <<>>
       THEN /\ phase' = "done" /\ outcome' = IF nerr > 0 THEN "unrecoverable" ELSE "ok"    \* handle_reports.__exit__
            /\ UNCHANGED <<stk, cont, todo, ret, final>>
       ELSE /\ stk' = <<WL(Head(todo).v)>> /\ cont' = "final"
            /\ UNCHANGED <<phase, outcome, todo, ret, final>>
    /\ UNCHANGED <<prog, symtab, symorder, addr, chunks, heap, depth, astack, exc, nerr, injected>>

Escape ==               \* an exception reaches compile_and_link_files' caller
    /\ Running /\ stk = <<>> /\ exc # "none"
    /\ phase' = "done"
    /\ outcome' = CASE exc = "Recoverable" -> "unrecoverable"       \* handle_reports.__exit__: error condition set
                    [] exc = "Cycle"       -> "exc:DeferredCycle"
                    [] exc = "NotReady"    -> "exc:NotReadyError"
                    [] exc = "Injected"    -> "exc:Injected"
                    [] exc = "Recursion"   -> "exc:RecursionError"
                    [] OTHER               -> "exc:Exception"
    /\ UNCHANGED <<prog, cont, symtab, symorder, addr, chunks, heap, depth, astack, stk, ret, exc, nerr, todo, final, injected>>

Diverge ==
    /\ phase \in {"compile", "final"} /\ Exceeded
    /\ phase' = "diverged" /\ outcome' = "diverged"
    /\ UNCHANGED <<prog, cont, symtab, symorder, addr, chunks, heap, depth, astack, stk, ret, exc, nerr, todo, final, injected>>

Idle == phase \in {"done", "diverged"} /\ UNCHANGED vars

Next == ChooseStmt \/ Continue \/ Finish \/ FinalStep \/ EngineStep \/ InjectException \/ Escape \/ Diverge \/ Idle
Spec == Init /\ [][Next]_vars /\ WF_vars(ChooseStmt \/ Continue \/ Finish \/ FinalStep \/ EngineStep \/ Escape \/ Diverge)

(* ------------------------------------------------------------------ properties *)
(* the wait() loop follows settled values and comes back: it will never leave *)
ChainNext(id) == IF heap[id].c \in {"D", "P"} /\ heap[id].settled /\ ~heap[id].aw /\ heap[id].value.t = "ref"
                 THEN heap[id].value.v ELSE 0
RECURSIVE ChainEnds(_, _)
ChainEnds(id, n) == IF id = 0 THEN TRUE ELSE IF n = 0 THEN FALSE ELSE ChainEnds(ChainNext(id), n - 1)
Spin == /\ phase \in {"compile", "final"} /\ stk # <<>> /\ exc = "none" /\ F.op = "wl"
        /\ LET v == IF F.pc = 0 THEN F.v ELSE ret IN v.t = "ref" /\ ~ChainEnds(v.v, Len(heap) + 1)

TypeOK == /\ depth >= 0 /\ nerr \in 0..2
          /\ \A i \in 1..Len(astack) : astack[i] \in 1..Len(heap) /\ heap[astack[i]].aw
Terminates      == <>(phase = "done")
NoSpin          == ~Spin
NoDivergence    == phase # "diverged"
NoInternalError == ~(phase = "done" /\ outcome \in {"exc:DeferredCycle", "exc:NotReadyError", "exc:Exception", "exc:RecursionError"})
Balanced        == stk = <<>> => (depth = 0 /\ astack = <<>> /\ \A i \in 1..Len(heap) : ~heap[i].aw)
SettledIsStable == [][\A i \in 1..Len(heap) : (heap[i].c \in {"D", "P"} /\ heap[i].settled)
                                                 => (heap'[i].settled /\ heap'[i].value = heap[i].value)]_vars
EagerEqualsLazy ==
    (phase = "done" /\ ~injected /\ Acyclic(prog)) =>
        IF ProgOk(prog)
        THEN /\ outcome = "ok"
             /\ \A s \in Syms : Defines(prog, s) => final[s] = IntV(Den(prog, s, Fuel).v)
        ELSE outcome = "unrecoverable"

(* ------------------------------------------------------------------ export for replay *)
Predicted == IF Spin THEN "spin" ELSE outcome
Export == (phase \in {"done", "diverged"} \/ Spin) =>
            PrintT(ToJson([m |-> "lazy", prog |-> prog, outcome |-> Predicted, acyclic |-> Acyclic(prog),
                           injected |-> injected,
                           vals |-> [s \in {s \in Syms : Defines(prog, s) /\ phase = "done" /\ outcome = "ok"} |-> final[s].v],
                           depth |-> depth, astack |-> Len(astack), nheap |-> Len(heap)]))

Alias == [prog |-> prog, phase |-> phase, outcome |-> outcome, exc |-> exc, depth |-> depth,
          astack |-> astack, nstk |-> Len(stk), top |-> IF stk = <<>> THEN "-" ELSE F.op]
=============================================================================
