-------------------------------- MODULE Lex --------------------------------
(* Spelling does not matter (C10): the rewrite-rule part of the lexical model.

   A program is a sequence of abstract TOKENS.  A token is a record
       [k, v, s, u, a, b, m]
     k  kind      "mn" mnemonic | "dir" directive | "reg" | "sym" | "num" | "loc" local symbol (1$, 0ball, 89)
                  | "str" character / RADIX-50 literal | "blob" operand text of a string-taking directive
                  | "junk" a statement the tokenizer does not understand | "open" "close" brackets
                  | "op" operator | "comma" "nl" "colon" "eq" "hash" "at" "pct" "minus" "plus" "dot"
                  | "lbrace" "rbrace" | "triv" inserted trivia
     v  identity  mnemonic/directive class (synonyms share it), register number, symbol id, numeric VALUE,
                  caret delimiter id of a bracket, operator id
     s  spelling  mn/dir: which synonym | reg: 0 rN, 1 %N, 2 sp/pc | num: 0 bare octal, 1 decimal '.', 2 0x,
                  3 0o, 4 0b, 5 ^X, 6 ^O, 7 ^B, 8 ^D | bracket: 0 ( ), 1 < >, 2 ^x...x
                  | sym: 1 = starts with '_', 2 = contains '$' or '.' (a statement name stops there)
                  | colon/eq: 1 = doubled | triv: 0 blanks, 1 tab, 2 '; comment'
     u  case      0 lower, 1 UPPER, 2 mixed
     a  mn/dir: number of synonyms | sym: 1 = the name is also a mnemonic/directive name
        | loc: 1 = contains letters | str: 1 = starts with '^' | op: 1 = prefix only
     b  mn: 1 = takes a branch offset (br, bcc ..., sob) | dir: 1 = word list (.word/.dw), 2 = takes text
        | op: 1 = its first character is an infix operator
     m  bit set of the caret delimiters  / | \ ?  (bits 1 2 4 8) that occur in the token's text

   Rewrite rules (each with an ENABLING CONDITION = where the language is NOT spelling-sensitive):
       CaseFlip  Trivia  Radix  Bracket  RegAlias  Synonym  WordListForm  LegacyDeferred
   Canon(t) is the meaning-level token sequence: case folded, numbers by value, registers by number,
   synonyms by class, grouping brackets by role, trivia dropped, new lines that do not end a statement
   dropped, an implicit word list given its '.word'.  Canon looks at the SPELLING to decide the role of a
   token exactly where the language does (a '(' around a register is an addressing mode, a bare number in
   a branch is a label name, a ';' swallows the rest of the line, a line that starts with an operator
   continues the previous one ...), so a rewrite applied outside its enabling condition changes Canon.

   Role (D):   RewritePreservesTokens -- for every token string up to MaxLen over Alphabet (Mode "strings"),
               and for the token strings of real statements (Mode "sites"), every ENABLED rewrite leaves
               Canon unchanged; ExclusionsAreNecessary (ASSUME) -- for each documented exclusion a
               counterexample program on which the excluded rewrite changes Canon.
   Role (M->C): Mode "behave" generates rewrite BEHAVIOURS (steps [r rule, n site selector, p parameter,
               d density]) by simulation, checks CanonStable along them and exports them; harness/checks/
               C10.py replays them on real source text (site = n modulo the number of sites that
               harness/lex.py finds) and compares the images built by the real assembler.
   Mode "sites": the harness sends the abstract tokens of real statements; the module answers with the
               enabled sites of every rule, which must equal what harness/lex.py computed (the two
               implementations of the enabling conditions agree), and checks RewritePreservesTokens there.

   EXCLUSIONS (each is a conjunct of an En* operator below; "W:" names its witness in Witnesses;
   "conservative" = kept from the measured feasibility run or for safety, not forced by this model):
    E1  all rules      no site inside the operand text of a string-taking directive (.ascii .asciz .rad50
                       .include .title .sbttl .ident .error insert_file make_* and unknown directives),
                       nor inside a statement the tokenizer does not understand.        W: str-case, str-trivia
    E2  CaseFlip       not on character / RADIX-50 literals ('c "cc ^Rccc: content, kept as is), W: char-case
                       EXCEPT a character literal that consists of escapes only ('\n "\x1b\x0a: "str" with
                       s = 1): the escape letter and the hex digits are spelling, not content.
    E3  Trivia         blanks only BETWEEN tokens (tokens are atomic: 10. :: == << ^X1F ^/ %3 'c);
                       a '; comment' only directly before a new line (it swallows the rest of the line);
                       a blank line only next to an existing new line (a new line inside a statement is
                       not trivia).                                                      W: comment-mid
    E4  Radix          not in a branch/SOB statement: a bare number there is a local-label name. W: radix-branch
    E5  Radix          not a number followed by ':' (label definition).                  W: radix-label
                       ('1$' is one "loc" token, never a number; bare 8/9 digits likewise.)
    E6  Radix          not after a lone '%' (register expression) -- conservative; '%3' itself is a reg token.
    E7  Radix          no '^'-spelling for / from a number at the start of a line: '^' after a value is XOR,
                       and an expression continues across a new line.                    W: radix-linestart
    E8  Bracket        grouping brackets only: not '(' right after a value (index / call),
                       not '(rN)' (addressing mode).                                     W: bracket-index, bracket-mode
    E9  Bracket        never INTO '(rN)': a group around a single register must not become a mode. W: bracket-to-mode
    E10 Bracket        not in a branch/SOB statement ('(' switches the label reading off). W: bracket-branch
    E11 Bracket        ^d...d only if d does not occur inside the group and no enclosing ^d group
                       uses d.                                                           W: bracket-delim, bracket-nested
    E12 Bracket, RegAlias   not on the first token of a line: '(' '^/' '<<' '%' there continue the
                       previous line after a value.                                      W: bracket-linestart, reg-linestart
    E13 RegAlias       not a name followed by ':' or '=' (definition of a symbol that looks like a register) -- conservative.
    E14 Synonym        only the statement name (first token after the labels); the same name used as
                       a symbol is a different symbol.                                   W: synonym-operand
    E15 WordListForm   '.word' may be dropped / added only if the list starts with a number not spelled
                       with '^', or with a plain symbol followed by ','.  Otherwise the first word would be
                       read as an instruction name ('x +1'; 'a.b, 1' is read as instruction 'a' with operand
                       '.b'), or the line would continue the previous one ('-1', '(1)', '^X1').
                                                                     W: wl-name, wl-minus, wl-mnemonic, wl-dotname
    E16 LegacyDeferred only a WHOLE operand '(rN)' / '@rN' of an instruction: not '(rN)+', '-(rN)',
                       'X(rN)', '@(rN)'.                                                 W: legacy-autoinc, legacy-autodec, legacy-index
*)
EXTENDS Naturals, Sequences, FiniteSets, TLC, Json, IOUtils

CONSTANTS Mode,        \* "strings" | "behave" | "sites"
          MaxLen,      \* strings: maximal program length; behave: number of statements grown
          MaxSteps     \* behave: rewrite steps per behaviour

T(k, v, s, u, a, b, m) == [k |-> k, v |-> v, s |-> s, u |-> u, a |-> a, b |-> b, m |-> m]

(* ------------------------------------------------------------------ small helpers *)
MaxOf(S) == CHOOSE x \in S : \A y \in S : y <= x
MinOf(S) == CHOOSE x \in S : \A y \in S : x <= y
SeqOfIdx(n, P(_)) ==
    LET F[i \in 0..n] == IF i = 0 THEN <<>> ELSE IF P(i) THEN Append(F[i - 1], i) ELSE F[i - 1] IN F[n]
Flatten(ss) ==
    LET F[i \in 0..Len(ss)] == IF i = 0 THEN <<>> ELSE F[i - 1] \o ss[i] IN F[Len(ss)]
Strict(f) == SubSeq(f, 1, Len(f))                   \* force a lazily defined sequence (TLC evaluates it once)
Bit(m, d) == (m \div (2 ^ (d - 1))) % 2 = 1          \* is delimiter d (1..4) in bit set m
DelimBit(d) == IF d \in 1..4 THEN 2 ^ (d - 1) ELSE 0
HSel(n, j) == (n * 7919 + j * 7907) % 65521          \* selector hash shared with harness/lex.py

(* ------------------------------------------------------------------ token classes *)
IsNl(x) == x.k = "nl"
VE(x) == x.k \in {"sym", "num", "loc", "str", "dot", "reg", "close", "junk"}        \* a value can end here
ExpectMore(x) == x.k \in {"comma", "op", "hash", "at", "pct", "open", "eq"}         \* statement cannot end here
Boundary(x) == x.k \in {"nl", "lbrace", "rbrace"}
NameTok(x) == x.k \in {"sym", "loc", "num", "reg"}
StrHead(x) == x.k = "dir" /\ x.b = 2
\* does token j of s start like something that continues an expression after a value?
ContStart(s, j) ==
    LET x == s[j] IN
       x.k \in {"minus", "plus", "pct"}
    \/ (x.k = "op" /\ x.b = 1)
    \/ (x.k = "open" /\ (x.s \in {0, 2} \/ (j < Len(s) /\ s[j + 1].k = "open" /\ s[j + 1].s = 1)))
    \/ (x.k = "num" /\ x.s >= 5)
    \/ (x.k = "reg" /\ x.s = 1)
    \/ (x.k = "sym" /\ x.s = 1)
    \/ (x.k = "str" /\ x.a = 1)

(* ------------------------------------------------------------------ raw level: opaque text, comments *)
RawOpaque(t, i) == \E h \in 1..(i - 1) : StrHead(t[h]) /\ \A q \in (h + 1)..i : ~IsNl(t[q])
IsComment(t, j) == t[j].k = "triv" /\ t[j].s = 2 /\ ~RawOpaque(t, j)
Dead(t, i) == ~IsNl(t[i]) /\ \E j \in 1..(i - 1) : IsComment(t, j) /\ \A q \in (j + 1)..i : ~IsNl(t[q])
Live(t, i) == RawOpaque(t, i) \/ (t[i].k # "triv" /\ ~Dead(t, i))

(* ------------------------------------------------------------------ context of a token string *)
Ctx(t) ==
    LET L0   == SeqOfIdx(Len(t), LAMBDA i : Live(t, i))
        w0   == Strict([q \in 1..Len(L0) |-> t[L0[q]]])
        n0   == Len(L0)
        PrevNN(q) == LET S == {p \in 1..(q - 1) : ~IsNl(w0[p])} IN IF S = {} THEN 0 ELSE MaxOf(S)
        NextNN(q) == LET S == {p \in (q + 1)..n0 : ~IsNl(w0[p])} IN IF S = {} THEN 0 ELSE MinOf(S)
        Soft(q) == /\ IsNl(w0[q])
                   /\ LET p == PrevNN(q)  j == NextNN(q) IN
                        p # 0 /\ j # 0 /\ (ExpectMore(w0[p]) \/ (VE(w0[p]) /\ ContStart(w0, j)))
        L1   == SeqOfIdx(n0, LAMBDA q : ~Soft(q))
        w    == Strict([q \in 1..Len(L1) |-> w0[L1[q]]])
        m    == Len(L1)
        als  == Strict([q \in 1..m |-> L1[q] = 1 \/ IsNl(w0[L1[q] - 1])])         \* first token of a line
        ss   == Strict([q \in 1..m |-> IF Boundary(w[q]) THEN q
                                ELSE LET S == {j \in 1..(q - 1) : Boundary(w[j])} IN IF S = {} THEN 1 ELSE MaxOf(S) + 1])
        se   == Strict([q \in 1..m |-> IF Boundary(w[q]) THEN q
                                ELSE LET S == {j \in (q + 1)..m : Boundary(w[j])} IN IF S = {} THEN m ELSE MinOf(S) - 1])
        hd   == Strict([q \in 1..m |-> IF Boundary(w[q]) THEN q
                                ELSE LET s == ss[q]  e == se[q]
                                         K == {k \in 0..((e - s + 1) \div 2) :
                                                 \A j \in 0..(k - 1) : NameTok(w[s + 2 * j]) /\ w[s + 2 * j + 1].k = "colon"}
                                     IN s + 2 * MaxOf(K)])
        mt   == Strict([q \in 1..m |->
                   IF w[q].k # "open" THEN 0
                   ELSE LET Cnt(kk, j) == Cardinality({r \in q..j : w[r].k = kk})
                            S == {j \in (q + 1)..se[q] : w[j].k = "close" /\ Cnt("open", j) = Cnt("close", j)}
                        IN IF S = {} THEN 0
                           ELSE LET j == MinOf(S) IN IF w[j].s = w[q].s /\ w[j].v = w[q].v THEN j ELSE 0])
    IN [w |-> w, idx |-> Strict([q \in 1..m |-> L0[L1[q]]]), als |-> als, ss |-> ss, se |-> se, hd |-> hd, mt |-> mt, m |-> m]

Kind(c, q) == IF q >= 1 /\ q <= c.m THEN c.w[q].k ELSE "none"
PrevKind(c, q) == IF q - 1 >= c.ss[q] THEN c.w[q - 1].k ELSE "none"
NextKind(c, q) == IF q + 1 <= c.se[q] THEN c.w[q + 1].k ELSE "none"
IsHead(c, q) == c.hd[q] = q
Opq(t, c, q) == RawOpaque(t, c.idx[q]) \/ c.w[q].k \in {"junk", "blob"}
StmtKind(c, q) ==
    LET h == c.hd[q] IN
    IF h > c.se[q] THEN "none"
    ELSE LET x == c.w[h] IN
         IF x.k = "mn" THEN (IF x.b = 1 THEN "br" ELSE "insn")
         ELSE IF x.k = "dir" THEN (IF x.b = 2 THEN "str" ELSE "dir")
         ELSE IF x.k \in {"sym", "dot"} /\ h + 1 <= c.se[q] /\ c.w[h + 1].k = "eq" THEN "asg"
         ELSE "impl"
\* role of the open bracket q
Role(c, q) ==
    LET j == c.mt[q] IN
    IF j = 0 THEN "junk"
    ELSE IF q - 1 >= c.ss[q] /\ VE(c.w[q - 1]) THEN (IF c.w[q].s = 0 THEN "idx" ELSE "junk")
    ELSE IF c.w[q].s = 0 /\ j = q + 2 /\ c.w[q + 1].k = "reg" THEN "mode"
    ELSE "grp"
OperandStart(c, q) == q - 1 >= c.ss[q] /\ ((c.w[q - 1].k = "mn" /\ IsHead(c, q - 1)) \/ c.w[q - 1].k = "comma")
OperandEnd(c, q) == q + 1 > c.se[q] \/ c.w[q + 1].k = "comma"

(* ================================================================== ENABLING CONDITIONS *)
EnCaseFlip(t, c, q) ==
    LET x == c.w[q] IN
    /\ ~Opq(t, c, q)                                                                 \* E1
    /\ \/ x.k \in {"mn", "dir", "sym"}
       \/ (x.k = "reg" /\ x.s # 1)
       \/ (x.k = "num" /\ x.s >= 2)
       \/ (x.k = "loc" /\ x.a = 1)
       \/ (x.k = "str" /\ x.s = 1)                                                   \* E2: "str" only if it consists of escapes
       \/ (x.k = "op" /\ x.v = 19)                                                   \* the one operator spelled with a letter: ^c / ^C

EnRegAlias(t, c, q) ==
    /\ c.w[q].k = "reg" /\ ~Opq(t, c, q)                                             \* E1
    /\ ~c.als[q]                                                                     \* E12
    /\ NextKind(c, q) \notin {"colon", "eq"}                                         \* E13

EnRadix(t, c, q, p) ==
    LET x == c.w[q] IN
    /\ x.k = "num" /\ ~Opq(t, c, q)                                                  \* E1
    /\ StmtKind(c, q) # "br"                                                         \* E4
    /\ NextKind(c, q) # "colon"                                                      \* E5
    /\ PrevKind(c, q) # "pct"                                                        \* E6
    /\ (c.als[q] => (x.s < 5 /\ p < 5))                                              \* E7

EnSynonym(t, c, q) ==
    /\ c.w[q].k \in {"mn", "dir"} /\ IsHead(c, q) /\ c.w[q].a > 1                    \* E14
    /\ ~Opq(t, c, q)

BrStyle(p) == p % 3
BrDelim(p) == IF p % 3 = 2 THEN 1 + ((p \div 3) % 4) ELSE 0
EnBracket(t, c, q, p) ==
    LET x == c.w[q]  j == c.mt[q]  ts == BrStyle(p)  td == BrDelim(p) IN
    /\ x.k = "open" /\ ~Opq(t, c, q)                                                 \* E1
    /\ j # 0 /\ Role(c, q) = "grp"                                                   \* E8
    /\ ~Opq(t, c, j)                                                                 \* E1 (closing bracket)
    /\ StmtKind(c, q) # "br"                                                         \* E10
    /\ ~c.als[q]                                                                     \* E12
    /\ (ts = 0 => ~(j = q + 2 /\ c.w[q + 1].k = "reg"))                              \* E9
    /\ (ts = 2 => /\ \A r \in (q + 1)..(j - 1) : ~Bit(c.w[r].m, td)                  \* E11
                  /\ \A o \in c.ss[q]..(q - 1) :
                        ~(c.w[o].k = "open" /\ c.w[o].s = 2 /\ c.w[o].v = td /\ c.mt[o] > j))

FirstOK(c, f) ==
    LET x == c.w[f] IN
    \/ (x.k = "num" /\ x.s < 5 /\ NextKind(c, f) # "colon")
    \/ (x.k = "sym" /\ x.a = 0 /\ x.s = 0 /\ NextKind(c, f) = "comma")
WordListHow(t, c, q) ==                                                              \* E15
    LET x == c.w[q] IN
    IF Opq(t, c, q) \/ ~IsHead(c, q) THEN "no"
    ELSE IF x.k = "dir" /\ x.b = 1 THEN (IF q + 1 <= c.se[q] /\ FirstOK(c, q + 1) THEN "drop" ELSE "no")
    ELSE IF StmtKind(c, q) = "impl" /\ FirstOK(c, q) THEN "add"
    ELSE "no"

LegacyHow(t, c, q) ==                                                                \* E16
    LET x == c.w[q] IN
    IF Opq(t, c, q) \/ StmtKind(c, q) # "insn" THEN "no"
    ELSE IF x.k = "open" /\ x.s = 0 /\ c.mt[q] = q + 2 /\ c.w[q + 1].k = "reg"
            /\ OperandStart(c, q) /\ OperandEnd(c, q + 2) THEN "to_at"
    ELSE IF x.k = "at" /\ q + 1 <= c.se[q] /\ c.w[q + 1].k = "reg"
            /\ OperandStart(c, q) /\ OperandEnd(c, q + 1) THEN "to_paren"
    ELSE "no"

\* Trivia: gap g in 0..Len(t) lies after raw token g
GapBlocked(t, g) ==
    \/ (g >= 1 /\ (RawOpaque(t, g) \/ StrHead(t[g]) \/ t[g].k \in {"junk", "blob"}))  \* E1
    \/ (g < Len(t) /\ t[g + 1].k \in {"junk", "blob"})
EnTrivia(t, g, kind) ==                                                              \* E3
    CASE kind \in {0, 1} -> ~GapBlocked(t, g)
      [] kind = 2 -> ~GapBlocked(t, g) /\ (g = Len(t) \/ IsNl(t[g + 1]))
      [] kind = 3 -> g = 0 \/ IsNl(t[g])
      [] OTHER -> FALSE

(* ------------------------------------------------------------------ the rules as data *)
Rules == <<"CaseFlip", "Trivia", "Radix", "Bracket", "RegAlias", "Synonym", "WordListForm", "LegacyDeferred">>
\* number of parameter values that matter for ENABLING (Resolve searches these cyclically)
ParamMod(r) == CASE r = "Radix" -> 9 [] r = "Bracket" -> 12 [] r = "Trivia" -> 4 [] OTHER -> 1
\* parameter values that matter for enabling or EFFECT (case target, register form, synonym ...)
AllParams(r) == CASE r = "Radix" -> 0..8 [] r = "Bracket" -> 0..11 [] r = "Trivia" -> 0..3
                  [] r \in {"CaseFlip", "RegAlias"} -> 0..2 [] r = "Synonym" -> 0..3 [] OTHER -> {0}

\* En(t, c, r, i, p): is rule r enabled at site i (a w-index; a gap for Trivia) with parameter p?
En(t, c, r, i, p) ==
    CASE r = "CaseFlip" -> EnCaseFlip(t, c, i)
      [] r = "RegAlias" -> EnRegAlias(t, c, i)
      [] r = "Radix" -> EnRadix(t, c, i, p % 9)
      [] r = "Synonym" -> EnSynonym(t, c, i)
      [] r = "Bracket" -> EnBracket(t, c, i, p % 12)
      [] r = "WordListForm" -> WordListHow(t, c, i) # "no"
      [] r = "LegacyDeferred" -> LegacyHow(t, c, i) # "no"
      [] r = "Trivia" -> EnTrivia(t, i, p % 4)
\* sites of a rule, in text order: enabled for at least one parameter value
SiteRange(t, c, r) == IF r = "Trivia" THEN 0..Len(t) ELSE 1..c.m
IsSite(t, c, r, i) == \E p \in 0..(ParamMod(r) - 1) : En(t, c, r, i, p)
SitesOf(t, c, r) ==
    IF r = "Trivia" THEN LET F[i \in 0..(Len(t) + 1)] == IF i = 0 THEN <<>>
                                                          ELSE IF IsSite(t, c, r, i - 1) THEN Append(F[i - 1], i - 1) ELSE F[i - 1]
                         IN F[Len(t) + 1]
    ELSE SeqOfIdx(c.m, LAMBDA i : IsSite(t, c, r, i))
\* the parameter actually used: for Radix / Bracket / Trivia the first enabled one at or after p (cyclically)
Resolve(t, c, r, i, p) ==
    LET M == ParamMod(r) IN
    IF M = 1 THEN p
    ELSE LET D == {d \in 0..(M - 1) : En(t, c, r, i, (p + d) % M)} IN (p + MinOf(D)) % M

(* ------------------------------------------------------------------ applying a rewrite *)
Splice(t, a, b, new) == SubSeq(t, 1, a - 1) \o new \o SubSeq(t, b + 1, Len(t))       \* replace t[a..b]
RegForms(n) == IF n >= 6 THEN <<0, 1, 2>> ELSE <<0, 1>>
DW0 == T("dir", 0, 0, 0, 2, 1, 0)
Apply(t, c, r, i, p) ==
    CASE r = "CaseFlip" -> [t EXCEPT ![c.idx[i]].u = p % 3]
      [] r = "RegAlias" -> LET f == RegForms(c.w[i].v) IN [t EXCEPT ![c.idx[i]].s = f[(p % Len(f)) + 1]]
      [] r = "Radix" -> [t EXCEPT ![c.idx[i]].s = p % 9, ![c.idx[i]].a = IF p % 9 >= 2 THEN 1 ELSE 0]
      [] r = "Synonym" -> [t EXCEPT ![c.idx[i]].s = p % c.w[i].a]
      [] r = "Bracket" -> LET j == c.mt[i]  ts == BrStyle(p % 12)  td == BrDelim(p % 12) IN
                          [t EXCEPT ![c.idx[i]].s = ts, ![c.idx[i]].v = td, ![c.idx[i]].m = DelimBit(td),
                                    ![c.idx[j]].s = ts, ![c.idx[j]].v = td, ![c.idx[j]].m = DelimBit(td)]
      [] r = "WordListForm" -> IF WordListHow(t, c, i) = "drop" THEN Splice(t, c.idx[i], c.idx[i], <<>>)
                               ELSE Splice(t, c.idx[i], c.idx[i] - 1, <<DW0>>)
      [] r = "LegacyDeferred" -> IF LegacyHow(t, c, i) = "to_at"
                                 THEN Splice(t, c.idx[i], c.idx[i + 2], <<T("at", 0, 0, 0, 0, 0, 0), c.w[i + 1]>>)
                                 ELSE Splice(t, c.idx[i], c.idx[i + 1],
                                             <<T("open", 0, 0, 0, 0, 0, 0), c.w[i + 1], T("close", 0, 0, 0, 0, 0, 0)>>)
      [] r = "Trivia" -> IF p % 4 = 3 THEN Splice(t, i + 1, i, <<T("nl", 0, 0, 0, 0, 0, 0)>>)
                         ELSE Splice(t, i + 1, i, <<T("triv", 0, p % 4, 0, 0, 0, IF p % 4 = 2 THEN 15 ELSE 0)>>)

(* ================================================================== CANON *)
C(tag, k, v, s, u) == <<tag, k, v, s, u>>
Raw(x) == C("raw", x.k, x.v, x.s, x.u * 16 + x.m)
ImplicitWL(c, q) ==
    LET x == c.w[q] IN
    /\ IsHead(c, q) /\ StmtKind(c, q) = "impl"
    /\ \/ x.k \in {"num", "open", "minus", "dot", "str", "loc"}
       \/ (x.k = "sym" /\ x.a = 0 /\ x.s # 2 /\ NextKind(c, q) \in {"comma", "op"})
WholeParenReg(c, q) ==      \* '(' of an operand that is exactly (rN) in an instruction
    /\ c.w[q].k = "open" /\ c.w[q].s = 0 /\ c.mt[q] = q + 2 /\ c.w[q + 1].k = "reg"
    /\ StmtKind(c, q) = "insn" /\ OperandStart(c, q) /\ OperandEnd(c, q + 2)
WholeAtReg(c, q) ==         \* '@' of an operand that is exactly @rN in an instruction
    /\ c.w[q].k = "at" /\ q + 1 <= c.se[q] /\ c.w[q + 1].k = "reg"
    /\ StmtKind(c, q) = "insn" /\ OperandStart(c, q) /\ OperandEnd(c, q + 1)
OpenOf(c, q) == LET S == {o \in c.ss[q]..(q - 1) : c.mt[o] = q} IN IF S = {} THEN 0 ELSE MinOf(S)
BracketCanon(c, q, o) ==    \* q = the bracket token, o = its open bracket (0 if unmatched)
    LET x == c.w[q] IN
    IF o = 0 THEN Raw(x)
    ELSE LET role == Role(c, o) IN
         IF role = "junk" THEN Raw(x)
         ELSE IF role = "grp" /\ StmtKind(c, q) = "br" THEN C("can", x.k, x.v, x.s, 9)
         ELSE C("can", x.k, 0, 0, IF role = "grp" THEN 1 ELSE IF role = "mode" THEN 2 ELSE 3)
Piece(t, c, q) ==
    LET x == c.w[q] IN
    IF Opq(t, c, q) THEN <<Raw(x)>>
    ELSE IF x.k = "nl" THEN (IF q = 1 \/ c.w[q - 1].k = "nl" THEN <<>> ELSE <<C("can", "nl", 0, 0, 0)>>)
    ELSE LET body ==
              CASE x.k = "mn"  -> IF IsHead(c, q) THEN <<C("can", "mn", x.v, 0, 0)>> ELSE <<C("can", "name-mn", x.v, x.s, 0)>>
                [] x.k = "dir" -> IF IsHead(c, q) THEN <<C("can", "dir", x.v, 0, 0)>> ELSE <<C("can", "name-dir", x.v, x.s, 0)>>
                [] x.k = "reg" -> IF (q - 2 >= c.ss[q] /\ WholeParenReg(c, q - 1)) \/ (q - 1 >= c.ss[q] /\ WholeAtReg(c, q - 1))
                                  THEN <<>> ELSE <<C("can", "reg", x.v, 0, 0)>>
                [] x.k = "sym" -> <<C("can", "sym", x.v, 0, 0)>>
                [] x.k = "num" -> IF NextKind(c, q) = "colon" \/ StmtKind(c, q) = "br"
                                  THEN <<C("can", "numraw", x.v, x.s, 0)>> ELSE <<C("can", "num", x.v, 0, 0)>>
                [] x.k = "loc" -> <<C("can", "loc", x.v, 0, 0)>>
                [] x.k = "open" -> IF WholeParenReg(c, q) THEN <<C("can", "rdef", c.w[q + 1].v, 0, 0)>>
                                   ELSE <<BracketCanon(c, q, q)>>
                [] x.k = "close" -> IF q - 2 >= c.ss[q] /\ WholeParenReg(c, q - 2) THEN <<>>
                                    ELSE <<BracketCanon(c, q, OpenOf(c, q))>>
                [] x.k = "at" -> IF WholeAtReg(c, q) THEN <<C("can", "rdef", c.w[q + 1].v, 0, 0)>> ELSE <<C("can", "at", 0, 0, 0)>>
                [] x.k \in {"colon", "eq"} -> <<C("can", x.k, 0, x.s, 0)>>
                [] x.k = "op" -> <<C("can", "op", x.v, 0, 0)>>
                [] x.k = "str" -> IF x.s = 1 THEN <<C("can", "stresc", x.v, 0, 0)>> ELSE <<Raw(x)>>
                [] x.k \in {"junk", "blob", "triv"} -> <<Raw(x)>>
                [] OTHER -> <<C("can", x.k, 0, 0, 0)>>
         IN IF ImplicitWL(c, q) THEN <<C("can", "dir", 0, 0, 0)>> \o body ELSE body
CanonC(t, c) == Flatten([q \in 1..c.m |-> Piece(t, c, q)])
Canon(t) == CanonC(t, Ctx(t))

(* ================================================================== properties (role D) *)
\* all enabled single rewrites of t
Rewrites(t, c) ==
    UNION { UNION { {<<Rules[k], i, p>> : i \in {j \in SiteRange(t, c, Rules[k]) : En(t, c, Rules[k], j, p)}} :
                    p \in AllParams(Rules[k]) } : k \in 1..Len(Rules) }
Preserved(t) ==
    LET c == Ctx(t)  k0 == CanonC(t, c) IN
    \A rw \in Rewrites(t, c) : Canon(Apply(t, c, rw[1], rw[2], rw[3])) = k0

(* ---- the exclusions are necessary: each witness is a program, a rewrite that is NOT enabled on it, and the
        observation that applying it nevertheless changes Canon *)
NL == T("nl", 0, 0, 0, 0, 0, 0)          COMMA == T("comma", 0, 0, 0, 0, 0, 0)
COLON == T("colon", 0, 0, 0, 0, 0, 0)    HASH == T("hash", 0, 0, 0, 0, 0, 0)
AT == T("at", 0, 0, 0, 0, 0, 0)          MINUS == T("minus", 0, 0, 0, 0, 0, 0)
PLUS == T("plus", 0, 0, 0, 0, 0, 0)      PCT == T("pct", 0, 0, 0, 0, 0, 0)
EQ == T("eq", 0, 0, 0, 0, 0, 0)          DOT == T("dot", 0, 0, 0, 0, 0, 0)
LB == T("lbrace", 0, 0, 0, 0, 0, 0)      RB == T("rbrace", 0, 0, 0, 0, 0, 0)
MNP == T("mn", 1, 0, 0, 2, 0, 0)         \* e.g. ret/return, ldf/ldd
MNB == T("mn", 2, 0, 0, 2, 1, 0)         \* e.g. bcc/bhis
DW == DW0                                 \* .word/.dw
DS == T("dir", 100, 0, 0, 1, 2, 0)       \* .ascii
R1 == T("reg", 1, 0, 0, 0, 0, 0)         R6 == T("reg", 6, 2, 1, 0, 0, 0)
N1 == T("num", 1, 0, 0, 0, 0, 0)         NX == T("num", 1, 5, 0, 1, 0, 0)       \* 1   ^X1
SA == T("sym", 1, 0, 0, 0, 0, 0)         SM == T("sym", 2, 0, 0, 1, 0, 0)       \* a   a symbol called like a mnemonic
STR == T("str", 1, 0, 0, 0, 0, 1)        LOC == T("loc", 1, 0, 0, 0, 0, 0)      \* '/   1$
STRE == T("str", 2, 1, 0, 0, 0, 1)                                              \* '\x1b  (escapes only)
DIV == T("op", 1, 0, 0, 0, 1, 1)         MUL == T("op", 10, 0, 0, 0, 1, 0)      \* /   *
OP(s, d) == T("open", d, s, 0, 0, 0, DelimBit(d))
CL(s, d) == T("close", d, s, 0, 0, 0, DelimBit(d))
TRIV(kind) == T("triv", 0, kind, 0, 0, 0, 0)

Witnesses == <<
  [e |-> "str-case",          t |-> <<DS, SA, NL>>,                         r |-> "CaseFlip", i |-> 2, p |-> 1],
  [e |-> "str-trivia",        t |-> <<DS, SA, NL>>,                         r |-> "Trivia", i |-> 1, p |-> 0],
  [e |-> "char-case",         t |-> <<DW, STR, NL>>,                        r |-> "CaseFlip", i |-> 2, p |-> 1],
  [e |-> "comment-mid",       t |-> <<MNP, R1, COMMA, R1, NL>>,             r |-> "Trivia", i |-> 2, p |-> 2],
  [e |-> "radix-branch",      t |-> <<MNB, N1, NL>>,                        r |-> "Radix", i |-> 2, p |-> 1],
  [e |-> "radix-label",       t |-> <<N1, COLON, MNP, NL>>,                 r |-> "Radix", i |-> 1, p |-> 1],
  [e |-> "radix-linestart",   t |-> <<DW, SA, NL, N1, COMMA, N1, NL>>,      r |-> "Radix", i |-> 4, p |-> 5],
  [e |-> "bracket-index",     t |-> <<MNP, N1, OP(0, 0), SA, CL(0, 0), NL>>, r |-> "Bracket", i |-> 3, p |-> 1],
  [e |-> "bracket-mode",      t |-> <<MNP, OP(0, 0), R1, CL(0, 0), NL>>,    r |-> "Bracket", i |-> 2, p |-> 1],
  [e |-> "bracket-to-mode",   t |-> <<MNP, OP(1, 0), R1, CL(1, 0), NL>>,    r |-> "Bracket", i |-> 2, p |-> 0],
  [e |-> "bracket-branch",    t |-> <<MNB, OP(0, 0), N1, CL(0, 0), NL>>,    r |-> "Bracket", i |-> 2, p |-> 1],
  [e |-> "bracket-linestart", t |-> <<DW, SA, NL, OP(1, 0), N1, CL(1, 0), NL>>, r |-> "Bracket", i |-> 4, p |-> 0],
  [e |-> "reg-linestart",     t |-> <<DW, SA, NL, R1, NL>>,                 r |-> "RegAlias", i |-> 4, p |-> 1],
  [e |-> "synonym-operand",   t |-> <<DW, MNP, NL>>,                        r |-> "Synonym", i |-> 2, p |-> 1],
  [e |-> "wl-name",           t |-> <<DW, SA, PLUS, N1, NL>>,               r |-> "WordListForm", i |-> 1, p |-> 0],
  [e |-> "wl-minus",          t |-> <<DW, SA, NL, DW, MINUS, N1, NL>>,      r |-> "WordListForm", i |-> 4, p |-> 0],
  [e |-> "wl-mnemonic",       t |-> <<DW, SM, COMMA, N1, NL>>,              r |-> "WordListForm", i |-> 1, p |-> 0],
  [e |-> "wl-dotname",        t |-> <<DW, T("sym", 3, 2, 0, 0, 0, 0), COMMA, N1, NL>>, r |-> "WordListForm", i |-> 1, p |-> 0],
  [e |-> "legacy-autoinc",    t |-> <<MNP, OP(0, 0), R1, CL(0, 0), PLUS, NL>>, r |-> "LegacyDeferred", i |-> 2, p |-> 0],
  [e |-> "legacy-autodec",    t |-> <<MNP, MINUS, OP(0, 0), R1, CL(0, 0), NL>>, r |-> "LegacyDeferred", i |-> 3, p |-> 0],
  [e |-> "legacy-index",      t |-> <<MNP, N1, OP(0, 0), R1, CL(0, 0), NL>>, r |-> "LegacyDeferred", i |-> 3, p |-> 0]
>>
\* the two caret-delimiter witnesses need the rewrite to be applied with a chosen delimiter
DelimWitnesses == <<
  [e |-> "bracket-delim",  t |-> <<DW, HASH, OP(0, 0), SA, DIV, SA, CL(0, 0), NL>>,                    i |-> 3, p |-> 2],
  [e |-> "bracket-nested", t |-> <<DW, HASH, OP(2, 1), SA, MUL, OP(0, 0), SA, CL(0, 0), CL(2, 1), NL>>, i |-> 6, p |-> 2]
>>
\* Applying a rule where it is not enabled: WordListForm / LegacyDeferred have no effect defined there, so the
\* forced effect is spelled out: drop the '.word' / respell the three tokens.
Forced(t, c, r, i, p) ==
    CASE r = "WordListForm" -> Splice(t, c.idx[i], c.idx[i], <<>>)
      [] r = "LegacyDeferred" -> Splice(t, c.idx[i], c.idx[i + 2], <<AT, c.w[i + 1]>>)
      [] OTHER -> Apply(t, c, r, i, p)
WitnessOK(wit) == LET c == Ctx(wit.t) IN ~En(wit.t, c, wit.r, wit.i, wit.p) /\ Canon(Forced(wit.t, c, wit.r, wit.i, wit.p)) # Canon(wit.t)
\* a caret group whose delimiter occurs inside closes early: model that reading to show the clash matters
DelimClash(t, c, q, p) == ~EnBracket(t, c, q, p) /\ EnBracket(t, c, q, 1)
ASSUME ExclusionsAreNecessary ==
    /\ \A k \in 1..Len(Witnesses) : WitnessOK(Witnesses[k])
    /\ \A k \in 1..Len(DelimWitnesses) : LET wit == DelimWitnesses[k] IN DelimClash(wit.t, Ctx(wit.t), wit.i, wit.p)
\* positive controls: the same rules ARE enabled next to each exclusion
ASSUME Controls ==
    /\ LET t == <<MNP, HASH, N1, NL>> IN EnRadix(t, Ctx(t), 3, 5)
    /\ LET t == <<MNP, HASH, OP(0, 0), N1, CL(0, 0), NL>> IN \A p \in {1, 2, 5} : EnBracket(t, Ctx(t), 3, p)
    /\ LET t == <<MNP, OP(0, 0), R1, CL(0, 0), COMMA, AT, R1, NL>> IN
         LegacyHow(t, Ctx(t), 2) = "to_at" /\ LegacyHow(t, Ctx(t), 6) = "to_paren"
    /\ LET t == <<DW, N1, COMMA, SA, NL, SA, COMMA, N1, NL>> IN
         WordListHow(t, Ctx(t), 1) = "drop" /\ WordListHow(t, Ctx(t), 6) = "add"
    /\ LET t == <<MNP, R1, COMMA, R6, NL>> IN EnRegAlias(t, Ctx(t), 2) /\ EnRegAlias(t, Ctx(t), 4) /\ EnSynonym(t, Ctx(t), 1)

(* ================================================================== behaviours (role M->C) *)
\* one step of a behaviour: rule r at the sites chosen by selector n and density d, parameter p
\*   d = 0: the single site  sites[n mod count];  d = 1: every site j (0-based) with HSel(n, j) % 4 = 0;  d = 2: every site
\* Sites are rewritten from the last to the first; each is re-checked on the program rewritten so far.
Chosen(sites, n, d) ==
    IF d = 0 THEN <<(n % Len(sites)) + 1>>
    ELSE SeqOfIdx(Len(sites), LAMBDA j : d = 2 \/ HSel(n, j - 1) % 4 = 0)
ApplyStep(t, r, n, p, d) ==
    LET c0 == Ctx(t)
        sites0 == SitesOf(t, c0, r)
    IN IF Len(sites0) = 0 THEN t
       ELSE LET ch == Chosen(sites0, n, d)
                \* go through the chosen site numbers from the last to the first
                \* (Len(cur) is asked first so that TLC evaluates F[k - 1] before it descends into Ctx)
                F[k \in 0..Len(ch)] ==
                    IF k = 0 THEN t
                    ELSE LET cur == F[k - 1] IN
                         IF Len(cur) = 0 THEN cur
                         ELSE LET cc == Ctx(cur)
                                  ss == SitesOf(cur, cc, r)
                                  j == ch[Len(ch) + 1 - k]
                                  pj == IF d = 0 THEN p ELSE p + HSel(n, j - 1)
                              IN IF j > Len(ss) \/ ~IsSite(cur, cc, r, ss[j]) THEN cur
                                 ELSE Apply(cur, cc, r, ss[j], Resolve(cur, cc, r, ss[j], pj))
            IN F[Len(ch)]

\* statement templates for the grown programs (abstract images of ordinary statements)
Stmts == <<
  <<MNP, R1, COMMA, OP(0, 0), R1, CL(0, 0)>>,                             \* mov r1, (r1)
  <<MNP, HASH, OP(1, 0), SA, PLUS, N1, CL(1, 0), MUL, N1, COMMA, R6>>,    \* mov #<a+1>*1, sp
  <<MNP, AT, R1, COMMA, MINUS, OP(0, 0), R1, CL(0, 0)>>,                  \* mov @r1, -(r1)
  <<MNP, N1, OP(0, 0), R1, CL(0, 0), COMMA, OP(0, 0), R6, CL(0, 0), PLUS>>, \* mov 1(r1), (sp)+
  <<SA, COLON, MNB, N1>>,                                                 \* a: bcc 1
  <<N1, COLON, MNB, SA>>,                                                 \* 1: bcc a
  <<MNB, LOC>>,                                                           \* bcc 1$
  <<DW, N1, COMMA, SA, COMMA, NX>>,                                       \* .word 1, a, ^X1
  <<DW, OP(0, 0), N1, DIV, N1, CL(0, 0), MUL, OP(2, 2), SA, CL(2, 2)>>,   \* .word (1/1)*^|a|
  <<N1, COMMA, N1>>,                                                      \* 1, 1
  <<SA, COMMA, N1>>,                                                      \* a, 1
  <<DW, MINUS, N1>>,                                                      \* .word -1
  <<DS, STR>>,                                                            \* .ascii ...
  <<SA, EQ, N1, PLUS, OP(1, 0), NX, CL(1, 0)>>,                           \* a = 1 + <^X1>
  <<DOT, EQ, DOT, PLUS, N1>>,                                             \* . = . + 1
  <<DW, STR, COMMA, PCT, N1>>,                                            \* .word 'a, % 1
  <<T("dir", 8, 0, 0, 1, 0, 0), N1, LB, MNP, RB>>,                        \* .repeat 1 { ret }
  <<MNP>>,                                                                \* ret
  <<DW, STRE, COMMA, STR>>,                                               \* .word '\x1b, '/
  <<MNP, HASH, STRE, PLUS, N1, COMMA, R1>>,                               \* mov #'\x1b+1, r1
  <<MNP, HASH, MINUS, NX, COMMA, AT, HASH, SA>>                           \* mov #-^X1, @#a
>>

Alphabet == {MNP, MNB, DW, DS, R1, N1, NX, SA, STR, OP(0, 0), CL(0, 0), OP(1, 0), CL(1, 0), OP(2, 1), CL(2, 1),
             COMMA, NL, COLON, HASH, AT, MINUS, PLUS, DIV, PCT, EQ}

VARIABLES toks, orig, hist, ph
vars == <<toks, orig, hist, ph>>

Cases == IF Mode = "sites" THEN JsonDeserialize(IOEnv.CASE_FILE) ELSE <<>>

Init == /\ toks = <<>> /\ orig = <<>> /\ hist = <<>>
        /\ ph = IF Mode = "sites" THEN "root" ELSE "grow"

\* Mode "strings": every token string
GrowTok == /\ Mode = "strings" /\ Len(toks) < MaxLen
           /\ \E x \in Alphabet : toks' = Append(toks, x)
           /\ UNCHANGED <<orig, hist, ph>>
\* Mode "behave": a program of MaxLen statements, then MaxSteps rewrite steps
GrowStmt == /\ Mode = "behave" /\ ph = "grow"
            /\ IF Len(hist) < MaxLen
               THEN /\ \E k \in 1..Len(Stmts) : toks' = toks \o Stmts[k] \o <<NL>>
                    /\ hist' = Append(hist, 0) /\ UNCHANGED <<orig, ph>>
               ELSE /\ ph' = "rewrite" /\ orig' = toks /\ hist' = <<>> /\ UNCHANGED toks
\* (the random choices are bound by \E over singleton sets so that each is drawn exactly once per step)
Step == /\ Mode = "behave" /\ ph = "rewrite" /\ Len(hist) < MaxSteps
        /\ \E k \in 1..Len(Rules) : \E n \in {RandomElement(0..9999)} : \E p \in {RandomElement(0..47)} : \E d \in {RandomElement(0..2)} :
             LET r == Rules[k] IN
                /\ (r = "Trivia" => Len(toks) <= 30)            \* trivia makes the program longer: keep it small
                /\ Len(SitesOf(toks, Ctx(toks), r)) > 0
                /\ toks' = ApplyStep(toks, r, n, p, d)
                /\ hist' = Append(hist, [r |-> r, n |-> n, p |-> p, d |-> d])
        /\ UNCHANGED <<orig, ph>>
\* Mode "sites": one state per case, spread over the workers in blocks
Blocks == 64
PickBlock == /\ Mode = "sites" /\ ph = "root"
             /\ \E b \in 1..Blocks : hist' = <<b>>
             /\ ph' = "block" /\ UNCHANGED <<toks, orig>>
PickCase == /\ Mode = "sites" /\ ph = "block"
            /\ \E k \in 1..Len(Cases) : k % Blocks = hist[1] % Blocks /\ hist' = <<k>> /\ toks' = Cases[k]
            /\ ph' = "case" /\ UNCHANGED orig

Next == GrowTok \/ GrowStmt \/ Step \/ PickBlock \/ PickCase
Spec == Init /\ [][Next]_vars

(* ---- invariants *)
TypeOK == ph \in {"grow", "rewrite", "root", "block", "case"}
RewritePreservesTokens == (Mode = "strings" \/ ph = "case") => Preserved(toks)
CanonStable == (Mode = "behave" /\ ph = "rewrite") => Canon(toks) = Canon(orig)

(* ---- exports *)
ExportBehaviour == (Mode = "behave" /\ ph = "rewrite" /\ Len(hist) = MaxSteps) =>
                      PrintT(ToJson([kind |-> "behaviour", steps |-> hist, prog |-> orig, final |-> toks]))
EnabledTable(t) ==
    LET c == Ctx(t)
        One(r) == [q \in 1..Len(SitesOf(t, c, r)) |-> c.idx[SitesOf(t, c, r)[q]]]
        Two(r) == Flatten([i \in 1..c.m |->
                             LET S == SeqOfIdx(ParamMod(r), LAMBDA z : En(t, c, r, i, z - 1))
                             IN [q \in 1..Len(S) |-> <<c.idx[i], S[q] - 1>>]])
        Triv == Flatten([z \in 1..(Len(t) + 1) |->
                           LET S == SeqOfIdx(4, LAMBDA kk : EnTrivia(t, z - 1, kk - 1))
                           IN [q \in 1..Len(S) |-> <<z - 1, S[q] - 1>>]])
    IN [CaseFlip |-> One("CaseFlip"), RegAlias |-> One("RegAlias"), Synonym |-> One("Synonym"),
        WordListForm |-> One("WordListForm"), LegacyDeferred |-> One("LegacyDeferred"),
        Radix |-> Two("Radix"), Bracket |-> Two("Bracket"), Trivia |-> Triv]
ExportSites == (Mode = "sites" /\ ph = "case") =>
                  PrintT(ToJson([kind |-> "sites", cid |-> hist[1], tab |-> EnabledTable(toks)]))
=============================================================================
