------------------------------ MODULE LineCol ------------------------------
(* Line and column of a position in a source text (C17), written from the property statement:
   "line:column ... a tab counting as four columns".

     line(text, pos) = 1 + number of newlines before pos
     col (text, pos) = 1 + characters since the start of the line, a TAB counting as four columns
                       (one position plus three), any other character - a non-ASCII one included -
                       counting one.

   Two independent definitions:
     * LC(text, pos)        closed form (counting sets of indices);
     * the scanner below    inductive: one character at a time, carrying (line, col).
   Role (D):    Agree - both definitions coincide on every reachable state, i.e. on every text of at
                most MaxLen characters over the classes {letter, tab, newline, non-ASCII, space, break-like}
                and every position 0..Len(text).
   Role (M->C): every reachable state is exported with the predicted "line:col"; the harness
                renders the class string to characters and compares with repr() of the real
                pdpy11 Context (exhaustive).                                                    *)
EXTENDS Naturals, Sequences, FiniteSets, TLC, Json

CONSTANT MaxLen

Classes == {"l", "t", "n", "u", "s", "f"}  \* letter, TAB, newline (LF), non-ASCII character, space, and "f": a character that some
                                           \* libraries take for a line break (FF, VT, lone CR, NEL, U+2028, FS) - an ordinary character here

(* ---- closed form ---- *)
NewlinesBefore(text, pos) == {i \in 1..pos : text[i] = "n"}
Max0(S) == IF S = {} THEN 0 ELSE CHOOSE m \in S : \A k \in S : k <= m
LineStart(text, pos) == Max0(NewlinesBefore(text, pos))          \* index of the last newline before pos, 0 if none
TabsSince(text, pos) == Cardinality({i \in (LineStart(text, pos) + 1)..pos : text[i] = "t"})
LC(text, pos) == [line |-> 1 + Cardinality(NewlinesBefore(text, pos)),
                  col  |-> 1 + (pos - LineStart(text, pos)) + 3 * TabsSince(text, pos)]

(* ---- the scanner ---- *)
VARIABLES text, pos, line, col
vars == <<text, pos, line, col>>

Init == text = <<>> /\ pos = 0 /\ line = 1 /\ col = 1

(* the text is written first (only while nothing has been scanned) ... *)
Extend == /\ pos = 0 /\ Len(text) < MaxLen
          /\ \E c \in Classes : text' = Append(text, c)
          /\ UNCHANGED <<pos, line, col>>

(* ... then scanned one character at a time *)
Scan == /\ pos < Len(text)
        /\ pos' = pos + 1
        /\ LET c == text[pos + 1] IN
             /\ line' = IF c = "n" THEN line + 1 ELSE line
             /\ col'  = IF c = "n" THEN 1 ELSE IF c = "t" THEN col + 4 ELSE col + 1
        /\ UNCHANGED text

Next == Extend \/ Scan
Spec == Init /\ [][Next]_vars

TypeOK == Len(text) <= MaxLen /\ pos \in 0..Len(text) /\ line >= 1 /\ col >= 1
Agree  == LC(text, pos) = [line |-> line, col |-> col]
(* consequences a reader expects; checked, not assumed *)
LineBounded   == line <= pos + 1
ColAfterNL    == (pos > 0 /\ text[pos] = "n") => col = 1
TabIsFour     == (pos > 0 /\ text[pos] = "t") => col >= 5

Export == PrintT(ToJson([t |-> text, p |-> pos, line |-> line, col |-> col]))
=============================================================================
