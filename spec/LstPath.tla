------------------------------ MODULE LstPath ------------------------------
(* C19, second half: where the listing goes.  "It is written beside the first output file and named after it with a
   .lst suffix."  Output files are modelled as [dir, stem, ext] (ext = "" for none); the format of an output is "bin"
   or "raw".  The suffix that names the format is replaced, any other suffix is kept: out.bin -> out.lst,
   prog.raw (raw) -> prog.lst, image (raw, no suffix) -> image.lst, image.dat (raw) -> image.dat.lst, x.raw written as
   bin by make_bin -> x.raw.lst.  Standard output ('-o -') has no directory: the listing is 'listing.lst' in the
   working directory.  TLC enumerates the selector scenarios and exports the predicted listing path.               *)
EXTENDS Naturals, Sequences, TLC, Json

Dirs  == {"", "sub"}
Stems == {"out", "prog"}
Exts  == {"bin", "raw", "", "dat"}

VARIABLES sel, done
(* selector kinds: -o path | make_bin path | make_raw path | make_bin without path | --implicit-bin | -o - *)
Init == sel = [k |-> "none"] /\ done = FALSE
Choose ==
    /\ ~done /\ done' = TRUE
    /\ \/ \E d \in Dirs, st \in Stems, e \in Exts : sel' = [k |-> "dash-o", dir |-> d, stem |-> st, ext |-> e]
       \/ \E d \in Dirs, st \in Stems, e \in Exts : sel' = [k |-> "make_bin", dir |-> d, stem |-> st, ext |-> e]
       \/ \E d \in Dirs, st \in Stems, e \in Exts : sel' = [k |-> "make_raw", dir |-> d, stem |-> st, ext |-> e]
       \/ \E e1 \in {"bin", "dat"}, e2 \in {"raw", "bin"} :       \* two directive outputs: the FIRST one names the listing
             sel' = [k |-> "two", dir |-> "", stem |-> "first", ext |-> e1, k1 |-> "make_bin", k2 |-> IF e2 = "raw" THEN "make_raw" ELSE "make_bin",
                     stem2 |-> "second", ext2 |-> e2]
       \/ sel' = [k |-> "make_bin_default"]
       \/ sel' = [k |-> "implicit_bin"]
       \/ sel' = [k |-> "stdout"]
Spec == Init /\ [][Choose]_<<sel, done>>

Format(s) == CASE s.k = "dash-o"  -> IF s.ext = "bin" THEN "bin" ELSE "raw"       \* -o: bin iff the name ends in .bin
               [] s.k \in {"make_bin", "make_bin_default", "implicit_bin", "two"} -> "bin"
               [] s.k = "make_raw" -> "raw"
               [] s.k = "stdout"   -> "raw"
(* the primary output as [dir, stem, ext]; default names derive from the source 'main.mac' *)
Output(s) == CASE s.k \in {"dash-o", "make_bin", "make_raw", "two"} -> [dir |-> s.dir, stem |-> s.stem, ext |-> s.ext]
               [] s.k \in {"make_bin_default", "implicit_bin"} -> [dir |-> "", stem |-> "main", ext |-> "bin"]
               [] s.k = "stdout" -> [dir |-> "", stem |-> "-", ext |-> ""]
Listing(s) == IF s.k = "stdout" THEN [dir |-> "", stem |-> "listing", keep |-> "", ext |-> "lst"]
              ELSE LET o == Output(s) IN
                   [dir |-> o.dir, stem |-> o.stem, keep |-> IF o.ext = Format(s) THEN "" ELSE o.ext, ext |-> "lst"]

BesideOutput == done => (sel.k # "stdout" => Listing(sel).dir = Output(sel).dir /\ Listing(sel).stem = Output(sel).stem)
Export == done => PrintT(ToJson([sel |-> sel, format |-> Format(sel), output |-> Output(sel), listing |-> Listing(sel)]))
=============================================================================
