------------------------------- MODULE Outcome -------------------------------
(* C08 outcome automaton as a trace monitor (role C->M, batched as in DESIGN Appendix B).

   One run of the real assembler (parse + compile_and_link_files under one report handler, with
   the watchdog) is recorded as the trace
           Report(sev)* ; End(outcome)
   sev in {warning, error, critical}, outcome in {ok, unrecoverable, exception, hang}.
   The property (C08): every run ends in  ok with no error/critical issued  or in
   unrecoverable with at least one error/critical issued.  Everything else is a bad state:
           ok-after-error        success although an error was reported (the latch did not fire)
           silent-failure        UnrecoverableError without any error diagnostic
           internal-exception    any other exception escaped (the 'unexpected internal compiler error' path)
           hang                  the watchdog fired
           malformed             not of the shape Report* ; End   (harness defect, never a verdict on the code)

   The file named by the environment variable TRACE_FILE holds a JSON list of
           [id |-> n, ev |-> << [k |-> "report", sev |-> ...], ..., [k |-> "end", out |-> ...] >>].
   TLC starts one behaviour per trace (tid chosen in Init); the terminal state of each behaviour
   prints its verdict, so every trace id gets exactly one verdict line.                          *)
EXTENDS Naturals, Sequences, TLC, Json, IOUtils

Traces == JsonDeserialize(IOEnv.TRACE_FILE)

VARIABLES tid, l, errs, st, clause
vars == <<tid, l, errs, st, clause>>

Ev  == Traces[tid].ev[l]
N   == Len(Traces[tid].ev)

Init == /\ tid \in 1..Len(Traces) /\ l = 1 /\ errs = 0 /\ st = "run" /\ clause = ""

IsReport == l <= N /\ Ev.k = "report" /\ Ev.sev \in {"warning", "error", "critical"}
IsEnd    == l = N /\ Ev.k = "end" /\ Ev.out \in {"ok", "unrecoverable", "exception", "hang"}

Report == /\ st = "run" /\ IsReport
          /\ errs' = IF Ev.sev \in {"error", "critical"} THEN 1 ELSE errs
          /\ l' = l + 1 /\ UNCHANGED <<tid, st, clause>>

Verdict(out) ==
    CASE out = "ok" /\ errs = 0            -> <<"good", "">>
      [] out = "ok" /\ errs = 1            -> <<"bad", "ok-after-error">>
      [] out = "unrecoverable" /\ errs = 1 -> <<"good", "">>
      [] out = "unrecoverable" /\ errs = 0 -> <<"bad", "silent-failure">>
      [] out = "exception"                 -> <<"bad", "internal-exception">>
      [] out = "hang"                      -> <<"bad", "hang">>

End == /\ st = "run" /\ IsEnd
       /\ st' = Verdict(Ev.out)[1] /\ clause' = Verdict(Ev.out)[2]
       /\ l' = l + 1 /\ UNCHANGED <<tid, errs>>

Malformed == /\ st = "run" /\ ~IsReport /\ ~IsEnd
             /\ st' = "bad" /\ clause' = "malformed" /\ UNCHANGED <<tid, l, errs>>

Next == Report \/ End \/ Malformed
Spec == Init /\ [][Next]_vars

(* the automaton itself: a good end state is exactly one of the two allowed endings *)
GoodIsAllowed == st = "good" => /\ l = N + 1
                                /\ \/ (Traces[tid].ev[N].out = "ok" /\ errs = 0)
                                   \/ (Traces[tid].ev[N].out = "unrecoverable" /\ errs = 1)
Total == st \in {"run", "good", "bad"} /\ (st = "run" => ENABLED Next)

Emit == st \in {"good", "bad"} => PrintT(ToJson([id |-> Traces[tid].id, v |-> st, clause |-> clause]))
=============================================================================
