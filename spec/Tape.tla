-------------------------------- MODULE Tape --------------------------------
(* Output containers of pdpy11 (property C13).

   (a) Record formats:  Raw(img) = img;  Bin(base, img) = lo(base) hi(base) lo(len) hi(len) img;
       the 44-byte RIFF/WAVE header of an 8-bit mono PCM file.
   (b) THE READER IS THE SPECIFICATION.  A BK-0010 tape reader as a state machine over *periods*
       (highRun, lowRun) -- samples >= 128 are high -- given as a flat sequence of triples
       h, l, n  (n identical periods in a row; a purely syntactic run-length encoding).
       Normal format (BK-0010 monitor tape format):
         Pilot(n >= 1024) Marker Long  Pilot(n >= 4) Marker Long  20 header bytes
         Pilot(n >= 4) Marker Long  len data bytes  2 checksum bytes  trailer of short periods
       The pilot tone defines the unit U (length of one pilot period); every period is classified
       by its total length t:  2t < 3U short,  t < 3U long,  otherwise marker.  A bit is a short
       sync period followed by a data period: short = 0, long = 1; bits arrive LEAST SIGNIFICANT
       FIRST.  Header = base lo/hi, length lo/hi, 16 name bytes.  Checksum = 16-bit sum of the data
       bytes with END-AROUND CARRY.  Pilot/trailer counts are LOWER BOUNDS.
       Turbo format: PINNED from the format constants of the loader (single-period bits, high run
       1 = 0 / 3 = 1, low run 2; pilot of >= 1024 equal periods, marker >= 3 pilot periods,
       a pause of >= 4 extra low samples after the header block and after the data block,
       trailer of pilot-like periods).  This part is a regression oracle, not an independent one.
   (c) A writer (the obvious inverse) for role (D): ReadWriteRoundTrip, and mutant writers
       (MSB first, missing pause, sum mod 65535, length counting the header, NUL padding) that the
       reader must refuse.
   (d) ChooseOutput: which files a CLI run writes, where, and in which format (Mode = "select").

   The tape being read is the variable cs (a record mode, base, name, img, riff, p).  In this module
   it is produced by the writer; TapeTrace.tla instantiates the module with cs <- the record
   extracted from a file written by the real assembler, so the same reader and the same acceptance
   condition serve the design check and the trace validation.                                    *)
EXTENDS Naturals, Sequences, FiniteSets, TLC, Json, SequencesExt

CONSTANTS Mode,      \* "tape" | "select"
          Full       \* role (D): TRUE adds the longest payloads (2 x 65535) and more names

(* ------------------------------------------------------------------ (a) record formats *)
Lo(w) == w % 256
Hi(w) == w \div 256
LE16(w) == << Lo(w), Hi(w) >>
LE32(w) == << w % 256, (w \div 256) % 256, (w \div 65536) % 256, w \div 16777216 >>
U16(a, b) == a + 256 * b
U32(a, b, c, d) == IF d > 127 THEN 0 - 1 ELSE a + 256 * b + 65536 * c + 16777216 * d

Raw(img) == img
Bin(base, img) == LE16(base) \o LE16(Len(img)) \o img

cRIFF == << 82, 73, 70, 70 >>
cWAVE == << 87, 65, 86, 69 >>
cFMT  == << 102, 109, 116, 32 >>
cDATA == << 100, 97, 116, 97 >>

RiffHeader(rate, n) == cRIFF \o LE32(36 + n) \o cWAVE \o cFMT \o LE32(16) \o LE16(1) \o LE16(1)
                       \o LE32(rate) \o LE32(rate) \o LE16(1) \o LE16(8) \o cDATA \o LE32(n)

(* field-by-field reading of a 44-byte header r for n data bytes *)
RiffOK(r, n) ==
    /\ Len(r) = 44
    /\ SubSeq(r, 1, 4) = cRIFF
    /\ U32(r[5], r[6], r[7], r[8]) = 36 + n
    /\ SubSeq(r, 9, 12) = cWAVE
    /\ SubSeq(r, 13, 16) = cFMT
    /\ U32(r[17], r[18], r[19], r[20]) = 16          \* fmt chunk size
    /\ U16(r[21], r[22]) = 1                          \* PCM
    /\ U16(r[23], r[24]) = 1                          \* mono
    /\ U32(r[25], r[26], r[27], r[28]) > 0            \* sample rate
    /\ SubSeq(r, 29, 32) = SubSeq(r, 25, 28)          \* byte rate = sample rate * 1 channel * 1 byte
    /\ U16(r[33], r[34]) = 1                          \* block align
    /\ U16(r[35], r[36]) = 8                          \* bits per sample
    /\ SubSeq(r, 37, 40) = cDATA
    /\ U32(r[41], r[42], r[43], r[44]) = n

Pad16(name) == name \o [ i \in 1..(16 - Len(name)) |-> 32 ]

Eac(s, b) == LET t == s + b IN IF t > 65535 THEN (t % 65536) + 1 ELSE t
Checksum(img) == FoldLeft(Eac, 0, img)
Sum(img) == FoldLeft(LAMBDA a, b : a + b, 0, img)

(* ------------------------------------------------------------------ (b) the reader *)
MinPilot(mode, st) == IF st = 0 THEN 1024 ELSE 4
MinTrailer == 1

Cls(t, U) == IF 2 * t < 3 * U THEN "S" ELSE IF t < 3 * U THEN "L" ELSE "M"

NEv(P)    == Len(P) \div 3
EvH(P, e) == P[3 * e - 2]
EvL(P, e) == P[3 * e - 1]
EvN(P, e) == P[3 * e]

Pow2 == << 1, 2, 4, 8, 16, 32, 64, 128 >>

R0 == [ ph |-> "Pilot", st |-> 0, ei |-> 1, off |-> 0, U |-> 0, cnt |-> 0, half |-> 0, bits |-> 0, acc |-> 0,
        hdr |-> << >>, need |-> 0, data |-> << >>, sum |-> 0, ck |-> << >>, ns |-> 0, why |-> "" ]

Reject(r, w) == [ r EXCEPT !.ph = "Reject", !.why = w ]

(* consume k periods of the current event *)
Take(r, P, k) ==
    LET n == EvN(P, r.ei)
        t == EvH(P, r.ei) + EvL(P, r.ei)
        done == r.off + k = n
    IN  [ r EXCEPT !.ns = @ + k * t, !.ei = IF done THEN @ + 1 ELSE @, !.off = IF done THEN 0 ELSE @ + k ]

Deliver(r, b, mode) ==
    CASE r.ph = "Hdr" ->
           LET h == Append(r.hdr, b) IN
           IF Len(h) < 20 THEN [ r EXCEPT !.hdr = h ]
           ELSE LET len == U16(h[3], h[4]) IN
                IF mode = "n" THEN [ r EXCEPT !.hdr = h, !.need = len, !.ph = "Pilot", !.st = 2, !.cnt = 0 ]
                ELSE [ r EXCEPT !.hdr = h, !.need = len, !.ph = IF len = 0 THEN "Ck" ELSE "Data" ]
      [] r.ph = "Data" ->
           [ r EXCEPT !.data = Append(@, b), !.sum = Eac(@, b), !.need = @ - 1,
                      !.ph = IF r.need = 1 THEN "Ck" ELSE "Data" ]
      [] r.ph = "Ck" ->
           [ r EXCEPT !.ck = Append(@, b), !.ph = IF Len(r.ck) = 1 THEN "Trailer" ELSE "Ck", !.cnt = 0 ]

PushBit(r, bit, mode) ==
    LET a == r.acc + bit * Pow2[r.bits + 1] IN
    IF r.bits = 7 THEN Deliver([ r EXCEPT !.acc = 0, !.bits = 0, !.half = 0 ], a, mode)
    ELSE [ r EXCEPT !.acc = a, !.bits = @ + 1, !.half = 0 ]

AfterLong(r) == IF r.st = 0 THEN [ r EXCEPT !.ph = "Pilot", !.st = 1, !.cnt = 0 ]
                ELSE IF r.st = 1 THEN [ r EXCEPT !.ph = "Hdr" ]
                ELSE [ r EXCEPT !.ph = IF r.need = 0 THEN "Ck" ELSE "Data" ]

TapeNext(r, P, mode) ==
    IF r.ei > NEv(P) THEN
        IF r.ph = "Trailer" /\ r.cnt >= MinTrailer THEN [ r EXCEPT !.ph = "Done" ]
        ELSE Reject(r, "tape ends early")
    ELSE
    LET h == EvH(P, r.ei)
        l == EvL(P, r.ei)
        t == h + l
        rem == EvN(P, r.ei) - r.off
        c == Cls(t, r.U)
    IN
    CASE r.ph = "Pilot" ->
           IF r.U = 0 THEN IF h = 0 /\ r.ei = 1 THEN Take(r, P, rem)            \* leading silence before the first edge
                           ELSE IF h = 0 \/ l = 0 THEN Reject(r, "no pilot tone")
                           ELSE [ Take(r, P, rem) EXCEPT !.U = t, !.cnt = rem ]
           ELSE IF c = "S" THEN [ Take(r, P, rem) EXCEPT !.cnt = @ + rem ]
           ELSE IF c = "M" /\ r.cnt >= MinPilot(mode, r.st)
                THEN [ Take(r, P, 1) EXCEPT !.ph = IF mode = "n" THEN "Long" ELSE "Hdr", !.cnt = 0 ]
           ELSE Reject(r, "pilot too short or not followed by a marker")
      [] r.ph = "Long" ->
           IF c = "L" THEN AfterLong(Take(r, P, 1)) ELSE Reject(r, "no long period after the marker")
      [] r.ph \in { "Hdr", "Data", "Ck" } ->
           IF mode = "n" THEN
               IF r.half = 0 THEN IF c = "S" THEN [ Take(r, P, 1) EXCEPT !.half = 1 ]
                                  ELSE Reject(r, "sync period of a bit is not short")
               ELSE IF c = "M" THEN Reject(r, "marker inside a byte")
               ELSE PushBit(Take(r, P, 1), IF c = "S" THEN 0 ELSE 1, mode)
           ELSE \* turbo (pinned): one period per bit
               LET last == r.bits = 7 /\ ( (r.ph = "Hdr" /\ Len(r.hdr) = 19) \/ (r.ph = "Data" /\ r.need = 1) )
                   due  == IF last /\ r.ph = "Hdr" /\ U16(r.hdr[3], r.hdr[4]) = 0 THEN 2 ELSE 1
               IN  IF h \notin { 1, 3 } THEN Reject(r, "turbo: high run is neither 1 nor 3")
                   ELSE IF last /\ l < 2 + 4 * due THEN Reject(r, "turbo: pause missing after a block")
                   ELSE IF ~last /\ l # 2 THEN Reject(r, "turbo: low run of a bit is not 2")
                   ELSE PushBit(Take(r, P, 1), IF h = 1 THEN 0 ELSE 1, mode)
      [] r.ph = "Trailer" ->
           IF c = "S" THEN [ Take(r, P, rem) EXCEPT !.cnt = @ + rem ]
           ELSE Reject(r, "trailer contains a period that is not short")

(* raw / bin files are decoded in one step: P is the byte sequence of the file *)
FileNext(r, P, mode) ==
    IF mode = "raw" THEN [ r EXCEPT !.ph = "Done", !.data = P ]
    ELSE IF Len(P) < 4 THEN Reject(r, "bin shorter than its header")
    ELSE IF U16(P[3], P[4]) # Len(P) - 4 THEN Reject([ r EXCEPT !.hdr = SubSeq(P, 1, 4) ], "bin length field is not the number of bytes that follow")
    ELSE [ r EXCEPT !.ph = "Done", !.hdr = SubSeq(P, 1, 4), !.data = SubSeq(P, 5, Len(P)) ]

ReaderNext(r, P, mode) == IF mode \in { "n", "t" } THEN TapeNext(r, P, mode) ELSE FileNext(r, P, mode)

(* what a finished reader must have seen for tape record x *)
Matches(x, r) ==
    /\ r.ph = "Done"
    /\ r.data = x.img
    /\ x.mode = "raw" \/ ( SubSeq(r.hdr, 1, 2) = LE16(x.base) /\ SubSeq(r.hdr, 3, 4) = LE16(Len(x.img)) )
    /\ x.mode \in { "n", "t" } =>
         /\ SubSeq(r.hdr, 5, 20) = Pad16(x.name)
         /\ r.ck = LE16(r.sum)
         /\ r.sum = Checksum(x.img)
         /\ RiffOK(x.riff, r.ns)

(* ------------------------------------------------------------------ (c) the writer, role (D) *)
Flat(f(_), s) == FoldLeft(LAMBDA a, b : a \o f(b), << >>, s)
BitsOf(b, msb) == [ i \in 1..8 |-> IF msb THEN (b \div Pow2[9 - i]) % 2 ELSE (b \div Pow2[i]) % 2 ]

NBit(bit) == IF bit = 0 THEN << 2, 2, 1, 2, 2, 1 >> ELSE << 2, 2, 1, 4, 4, 1 >>
NBytes(bs, msb) == Flat(LAMBDA b : Flat(NBit, BitsOf(b, msb)), bs)
NSync(n) == << 2, 2, n, 8, 8, 1, 4, 4, 1 >>

TBits(bs, msb) == Flat(LAMBDA b : BitsOf(b, msb), bs)
TBlock(bs, msb, pause) == LET bb == TBits(bs, msb) IN
    Flat(LAMBDA i : << IF bb[i] = 0 THEN 1 ELSE 3, IF i = Len(bb) THEN 2 + pause ELSE 2, 1 >>, [ i \in 1..Len(bb) |-> i ])

WCk(img, mut) == IF mut = "ck65535" THEN Sum(img) % 65535 ELSE Checksum(img)
WLen(img, mut) == IF mut = "len20" THEN Len(img) + 20 ELSE Len(img)
WName(name, mut) == IF mut = "nulpad" THEN name \o [ i \in 1..(16 - Len(name)) |-> 0 ] ELSE Pad16(name)
WHeader(c) == LE16(c.base) \o LE16(WLen(c.img, c.mut)) \o WName(c.name, c.mut)

(* c = [mode, base, name, img, mut, big]; big = TRUE: counts of the real tapes, FALSE: the lower bounds *)
WritePeriods(c) ==
    LET msb == c.mut = "msb"
        ckb == LE16(WCk(c.img, c.mut))
    IN
    IF c.mode = "n" THEN
        << 2, 2, IF c.big THEN 4096 ELSE 1024, 8, 8, 1, 4, 4, 1 >> \o NSync(IF c.big THEN 10 ELSE 4)
        \o NBytes(WHeader(c), msb)
        \o (IF c.mut = "nopause" THEN << >> ELSE NSync(IF c.big THEN 10 ELSE 4))
        \o NBytes(c.img, msb) \o NBytes(ckb, msb)
        \o << 2, 2, IF c.big THEN 200 ELSE 1 >>
    ELSE
        LET p == IF c.mut = "nopause" THEN 0 ELSE IF c.big THEN 4 ELSE 6 IN
        << 3, 3, IF c.big THEN 1024 ELSE 1500, 12, 12, 1 >>
        \o TBlock(WHeader(c), msb, IF Len(c.img) = 0 THEN 2 * p ELSE p)
        \o TBlock(c.img, msb, p) \o TBlock(ckb, msb, 0)
        \o << 3, 3, IF c.big THEN 2 ELSE 1 >>

NSamples(P) == FoldLeft(LAMBDA a, e : a + (EvH(P, e) + EvL(P, e)) * EvN(P, e), 0, [ e \in 1..NEv(P) |-> e ])

TapeOf(c) == LET p == WritePeriods(c) IN
    [ mode |-> c.mode, base |-> c.base, name |-> c.name, img |-> c.img, mut |-> c.mut,
      riff |-> RiffHeader(IF c.mode = "n" THEN 21428 ELSE 40000, NSamples(p)), p |-> p ]

DBytes == { 0, 1, 128, 255, 90 }
DImages == { << >> } \cup { << a >> : a \in DBytes } \cup { << a, b >> : a \in DBytes, b \in DBytes }
Rep(n, b) == [ i \in 1..n |-> b ]
DLong == { Rep(257, 255),                    \* byte sum 65535: checksum 65535, not 0
           Rep(258, 255),                    \* 65790: one carry
           Rep(3, 0),                        \* checksum 0
           Rep(256, 255) \o << 254, 1 >> }   \* 65535 again, other bytes
         \cup (IF Full THEN { Rep(514, 255) } ELSE { })     \* 2 * 65535
DNames == { << >>, << 80, 82, 79, 71 >>, << 49, 50, 51, 52, 53, 54, 55, 56, 57, 48, 65, 66, 67, 68, 69, 70 >> }
DBases == { 0, 512, 65534 }
Muts   == { "none", "msb", "nopause", "ck65535", "len20", "nulpad" }

DesignCases ==
    { [ mode |-> m, base |-> b, name |-> nm, img |-> im, mut |-> "none", big |-> g ] :
        m \in { "n", "t" }, b \in DBases, nm \in { << >>, << 80, 82, 79, 71 >> }, im \in DImages, g \in BOOLEAN }
    \cup { [ mode |-> m, base |-> 512, name |-> nm, img |-> im, mut |-> "none", big |-> TRUE ] :
        m \in { "n", "t" }, nm \in (IF Full THEN DNames ELSE { << 49, 50, 51, 52, 53, 54, 55, 56, 57, 48, 65, 66, 67, 68, 69, 70 >> }), im \in DLong }
    \cup { [ mode |-> m, base |-> 512, name |-> << 80, 82, 79, 71 >>, img |-> im, mut |-> mu, big |-> TRUE ] :
        m \in { "n", "t" }, im \in { << >>, << 1 >>, << 90, 255 >>, Rep(257, 255) }, mu \in Muts \ { "none" } }

DesignBin == { [ mode |-> m, base |-> b, name |-> << >>, img |-> im, mut |-> "none", riff |-> << >>,
                 p |-> IF m = "bin" THEN Bin(b, im) ELSE Raw(im) ] : m \in { "bin", "raw" }, b \in DBases, im \in DImages }

(* is mutant mu visible on this image?  (the others always are) *)
Observable(x) == CASE x.mut = "ck65535" -> Sum(x.img) > 0 /\ Sum(x.img) % 65535 = 0
                   [] x.mut = "nulpad"  -> Len(x.name) < 16
                   [] OTHER -> TRUE

(* ------------------------------------------------------------------ (d) output selection *)
(* A file name is a sequence of dot-separated parts (<<"prog","mac">>), a directory a sequence of
   segments relative to the scratch root; ".." segments are resolved by Norm.                    *)
IsMac(s) == s \in { "mac", "MAC", "Mac" }
IsWav(s) == s \in { "wav", "WAV" }
StripMac(n) == IF Len(n) > 1 /\ IsMac(n[Len(n)]) THEN SubSeq(n, 1, Len(n) - 1) ELSE n
StripWav(n) == IF Len(n) > 1 /\ IsWav(n[Len(n)]) THEN SubSeq(n, 1, Len(n) - 1) ELSE n
Norm(d) == FoldLeft(LAMBDA a, s : IF s = ".." THEN SubSeq(a, 1, Len(a) - 1) ELSE Append(a, s), << >>, d)

FormatOf(cmd) == CASE cmd \in { "make_bin", "make_bk0010_rom" } -> "bin"
                   [] cmd = "make_raw" -> "raw"
                   [] cmd = "make_wav" -> "n"
                   [] cmd = "make_turbo_wav" -> "t"
DefaultExt(cmd) == CASE cmd \in { "make_bin", "make_bk0010_rom" } -> << "bin" >>
                     [] cmd = "make_raw" -> << >>
                     [] OTHER -> << "wav" >>

NoPath == [ k |-> "none", dir |-> << >>, name |-> << >> ]
NoO    == [ k |-> "none", dir |-> << >>, name |-> << >> ]
NoTape == [ k |-> "none", parts |-> << >>, text |-> "" ]
TapeText(s) == [ k |-> "text", parts |-> << >>, text |-> s ]

(* A directive belongs to the file that contains it: the main source, or the file lib/part.mac included by it.
   Relative paths and the default name are taken from THAT file ("the source file" of the directive). *)
IncDir(sc)  == sc.srcDir \o << "lib" >>
IncName     == << "part", "mac" >>
HomeDir(sc, d)  == IF d.inc THEN IncDir(sc) ELSE sc.srcDir
HomeName(sc, d) == IF d.inc THEN IncName ELSE sc.srcName

DirectiveFile(sc, d) ==
    LET dir  == CASE d.p.k = "none" -> HomeDir(sc, d)
                  [] d.p.k = "rel"  -> Norm(HomeDir(sc, d) \o d.p.dir)
                  [] d.p.k = "abs"  -> d.p.dir
        name == IF d.p.k = "none" THEN StripMac(HomeName(sc, d)) \o DefaultExt(d.cmd) ELSE d.p.name
        fmt  == FormatOf(d.cmd)
    IN  [ dir |-> dir, name |-> name, fmt |-> fmt,
          tape |-> IF fmt \in { "n", "t" }
                   THEN (IF d.tape.k = "none" THEN [ k |-> "parts", parts |-> StripWav(name), text |-> "" ] ELSE d.tape)
                   ELSE NoTape ]
          \* tape name: "parts" = the dot-joined parts (default: output file name without .wav), "text" = explicit operand

OFormat(name) == IF Len(name) > 1 /\ name[Len(name)] = "bin" THEN "bin" ELSE "raw"

ChooseOutput(sc) ==
    LET dfiles == { DirectiveFile(sc, sc.ds[i]) : i \in 1..Len(sc.ds) }
        ofile  == IF sc.o.k = "rel" THEN { [ dir |-> Norm(sc.cwd \o sc.o.dir), name |-> sc.o.name, fmt |-> OFormat(sc.o.name), tape |-> NoTape ] }
                  ELSE IF sc.o.k = "abs" THEN { [ dir |-> sc.o.dir, name |-> sc.o.name, fmt |-> OFormat(sc.o.name), tape |-> NoTape ] }
                  ELSE { }
        ifile  == IF sc.o.k = "none" /\ sc.impl /\ sc.ds = << >>
                  THEN { [ dir |-> sc.srcDir, name |-> StripMac(sc.srcName) \o << "bin" >>, fmt |-> "bin", tape |-> NoTape ] }
                  ELSE { }
    IN  [ files  |-> dfiles \cup ofile \cup ifile,
          stdout |-> IF sc.o.k = "stdout" THEN OFormat(sc.o.name) ELSE "none" ]

(* scenario families *)
Proj == << "proj" >>
SrcNames == { << "prog", "mac" >>, << "PROG", "MAC" >>, << "prog", "Mac" >>, << "prog", "asm" >>, << "prog" >>, << "a", "b", "mac" >> }
Cwds == { Proj, << "other" >> }
Cmds == { "make_bin", "make_raw", "make_bk0010_rom", "make_wav", "make_turbo_wav" }
ExtFor(cmd) == CASE cmd \in { "make_bin", "make_bk0010_rom" } -> "bin" [] cmd = "make_raw" -> "raw" [] OTHER -> "wav"
PathForms(cmd) ==
    { NoPath,
      [ k |-> "rel", dir |-> << >>, name |-> << "out", ExtFor(cmd) >> ],
      [ k |-> "rel", dir |-> << "sub" >>, name |-> << "deep", ExtFor(cmd) >> ],
      [ k |-> "rel", dir |-> << ".." >>, name |-> << "up", ExtFor(cmd) >> ],
      [ k |-> "rel", dir |-> << >>, name |-> << "odd", "dat" >> ],
      [ k |-> "abs", dir |-> << "abs", "dir" >>, name |-> << "there", ExtFor(cmd) >> ] }
TapeNames == { NoTape, TapeText("TAPE NAME"), TapeText(""), TapeText("0123456789ABCDEF") }
Dir(cmd, inc, p, tp) == [ cmd |-> cmd, inc |-> inc, p |-> p, tape |-> tp ]

OForms == { [ k |-> "rel", dir |-> << >>, name |-> << "x", "bin" >> ],
            [ k |-> "rel", dir |-> << >>, name |-> << "x" >> ],
            [ k |-> "rel", dir |-> << >>, name |-> << "x", "raw" >> ],
            [ k |-> "rel", dir |-> << >>, name |-> << "x", "bin", "bak" >> ],
            [ k |-> "rel", dir |-> << "odir" >>, name |-> << "y", "bin" >> ],
            [ k |-> "rel", dir |-> << ".." >>, name |-> << "z" >> ],
            [ k |-> "rel", dir |-> << >>, name |-> << "bin" >> ],                \* a name that IS "bin" has no .bin suffix: raw
            [ k |-> "rel", dir |-> << "odir" >>, name |-> << "Bin" >> ],
            [ k |-> "rel", dir |-> << "v1", "2" >>, name |-> << "cabin" >> ],
            [ k |-> "abs", dir |-> << "abs", "dir" >>, name |-> << "w", "bin" >> ],
            [ k |-> "stdout", dir |-> << >>, name |-> << "-" >> ],
            [ k |-> "stdout", dir |-> << >>, name |-> << "-", "bin" >> ],        \* pinned: "-." + ext
            [ k |-> "stdout", dir |-> << >>, name |-> << "-", "raw" >> ] }

Sc(srcName, cwd, abs, o, impl, ds) == [ srcDir |-> Proj, srcName |-> srcName, cwd |-> cwd, srcAbs |-> abs, o |-> o, impl |-> impl, ds |-> ds ]

FamO  == { Sc(<< "prog", "mac" >>, cwd, FALSE, o, impl, ds) : cwd \in Cwds, o \in OForms, impl \in BOOLEAN,
             ds \in { << >>, << Dir("make_bin", FALSE, NoPath, NoTape) >> } }
FamI  == { Sc(sn, cwd, abs, NoO, impl, ds) : sn \in SrcNames, cwd \in Cwds, abs \in BOOLEAN, impl \in BOOLEAN,
             ds \in { << >>, << Dir("make_raw", FALSE, [ k |-> "rel", dir |-> << >>, name |-> << "r", "raw" >> ], NoTape) >> } }
FamD  == UNION { { Sc(sn, cwd, FALSE, NoO, FALSE, << Dir(cmd, inc, p, NoTape) >>) :
                     sn \in { << "prog", "mac" >>, << "PROG", "MAC" >>, << "prog", "asm" >> }, cwd \in Cwds, inc \in BOOLEAN,
                     p \in PathForms(cmd) } : cmd \in Cmds }
FamT  == { Sc(<< "prog", "mac" >>, Proj, FALSE, NoO, FALSE, << Dir(cmd, FALSE, p, tp) >>) :
             cmd \in { "make_wav", "make_turbo_wav" }, tp \in TapeNames,
             p \in { NoPath, [ k |-> "rel", dir |-> << >>, name |-> << "game", "wav" >> ], [ k |-> "rel", dir |-> << >>, name |-> << "game", "WAV" >> ],
                     [ k |-> "rel", dir |-> << "sub" >>, name |-> << "a", "b", "wav" >> ] } }
Fam2  == { Sc(<< "prog", "mac" >>, cwd, FALSE, o, FALSE, << Dir(c1, FALSE, NoPath, NoTape), Dir(c2, i2, p2, NoTape) >>) :
             cwd \in Cwds, o \in { NoO, [ k |-> "rel", dir |-> << >>, name |-> << "x", "bin" >> ] },
             c1 \in { "make_bin", "make_wav" }, c2 \in { "make_raw", "make_turbo_wav", "make_bk0010_rom" }, i2 \in BOOLEAN,
             p2 \in { NoPath, [ k |-> "rel", dir |-> << "sub" >>, name |-> << "two", "out" >> ] } }

SourceFiles(sc) == { [ dir |-> sc.srcDir, name |-> sc.srcName ], [ dir |-> IncDir(sc), name |-> IncName ] }
(* inside the property's quantifier: outputs are pairwise distinct files and never a source file
   (e.g. make_raw without a path in a source without .mac suffix: undefined by the property) *)
ValidScenario(sc) ==
    LET out == ChooseOutput(sc).files
        locs == { [ dir |-> f.dir, name |-> f.name ] : f \in out }
    IN  /\ Cardinality(locs) = Cardinality(out)
        /\ Cardinality(out) = Len(sc.ds) + (IF sc.o.k \in { "rel", "abs" } THEN 1 ELSE 0)
                              + (IF sc.o.k = "none" /\ sc.impl /\ sc.ds = << >> THEN 1 ELSE 0)
        /\ locs \cap SourceFiles(sc) = { }
        /\ \A i \in 1..Len(sc.ds) : sc.ds[i].tape.k = "text" => sc.ds[i].p.k # "none"    \* the tape name is the second operand

Scenarios == { sc \in FamO \cup FamI \cup FamD \cup FamT \cup Fam2 : ValidScenario(sc) }

(* ------------------------------------------------------------------ state machine *)
VARIABLES cs, rd, sc
vars == << cs, rd, sc >>
(* cfg VIEW: the period list cs.p is a function of the other fields of cs, keep it out of the fingerprint *)
View == << IF Mode = "tape" THEN [ cs EXCEPT !.p = << >> ] ELSE cs, rd, sc >>

Init == \/ /\ Mode = "tape"
           /\ \/ \E c \in DesignCases : cs = TapeOf(c)
              \/ cs \in DesignBin
           /\ rd = R0
           /\ sc = 0
        \/ /\ Mode = "select"
           /\ cs = 0
           /\ rd = R0
           /\ sc \in Scenarios

ReadStep == /\ rd.ph \notin { "Done", "Reject" }
            /\ rd' = ReaderNext(rd, cs.p, cs.mode)

Next == Mode = "tape" /\ ReadStep /\ UNCHANGED << cs, sc >>
Spec == Init /\ [][Next]_vars

Terminal == rd.ph \in { "Done", "Reject" }
Accepted == Terminal /\ Matches(cs, rd)

(* ---- role (D) *)
TypeOK == /\ rd.bits \in 0..7 /\ rd.acc \in 0..255 /\ rd.half \in { 0, 1 } /\ rd.sum \in 0..65535
          /\ Len(rd.hdr) <= 20 /\ Len(rd.ck) <= 2
ReadWriteRoundTrip == (Terminal /\ cs.mut = "none") => Matches(cs, rd)
MutantsRefused     == (Terminal /\ cs.mut # "none" /\ Observable(cs)) => ~Matches(cs, rd)
MutantsInvisible   == (Terminal /\ cs.mut # "none" /\ ~Observable(cs)) => Matches(cs, rd)
(* a non-zero byte sum never yields checksum 0 (the end-around carry keeps it in 1..65535) *)
ChecksumNeverZeroOnCarry == (Terminal /\ rd.ph = "Done" /\ cs.mode \in { "n", "t" } /\ Sum(rd.data) > 0) => rd.sum > 0
ChecksumClosedForm == (Terminal /\ rd.ph = "Done" /\ cs.mode \in { "n", "t" }) =>
                         rd.sum = (IF Sum(rd.data) = 0 THEN 0 ELSE ((Sum(rd.data) - 1) % 65535) + 1)
ExportDesign == (Mode = "tape" /\ Terminal) =>
                   PrintT(ToJson([ k |-> "D", mode |-> cs.mode, mut |-> cs.mut, base |-> cs.base, name |-> cs.name,
                                   n |-> Len(cs.img), bsum |-> Sum(cs.img), ph |-> rd.ph, why |-> rd.why, sum |-> rd.sum,
                                   ok |-> Matches(cs, rd) ]))

(* ---- (M->C) selection scenarios with the predicted files *)
ExportScenario == Mode = "select" =>
    LET c == ChooseOutput(sc) IN
    PrintT(ToJson([ k |-> "S", sc |-> sc, files |-> SetToSeq(c.files), stdout |-> c.stdout ]))
=============================================================================
