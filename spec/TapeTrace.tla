------------------------------ MODULE TapeTrace ------------------------------
(* (C->M) trace validation for C13: files written by the REAL assembler are decoded by the reader
   of Tape.tla.

   The harness writes a JSON array of records
       [ id, mode ("n" normal tape | "t" turbo tape | "bin" | "raw"),
         base, name (0..16 bytes, unpadded), img (expected image),          -- what must be found
         riff (the 44 header bytes of the WAV, << >> otherwise),
         p (tapes: flat list  h, l, n  of run-length-encoded periods obtained by thresholding the
            samples at 128; bin/raw: the bytes of the file) ]
   to the file named by the environment variable TRACE_FILE.  Tape.tla is instantiated with
   cs <- Traces[tid]; the reader is stepped over the periods and the trace is accepted iff
   Tape!Matches holds in the terminal state (reader Done; header = base, len, name padded to 16 with
   spaces; data = image; checksum = end-around-carry sum; RIFF header consistent with the number
   of samples consumed).  Accepted ids are collected with TLCSet/TLCGet (run with -workers 1) and
   printed by the POSTCONDITION; every terminal state also prints a verdict record naming the phase
   and position where a rejected reader stopped.                                                *)
EXTENDS Naturals, Sequences, FiniteSets, TLC, Json, IOUtils, SequencesExt

Traces == JsonDeserialize(IOEnv.TRACE_FILE)

VARIABLES tid, rd
vars == << tid, rd >>

T == INSTANCE Tape WITH Mode <- "tape", Full <- FALSE, cs <- Traces[tid], sc <- 0

ASSUME TLCSet(1, { })

Init == tid \in 1..Len(Traces) /\ rd = T!R0
Next == T!ReadStep /\ UNCHANGED tid
Spec == Init /\ [][Next]_vars

Accepted == T!Accepted => TLCSet(1, TLCGet(1) \cup { Traces[tid].id })

Verdict == T!Terminal =>
    PrintT(ToJson([ k |-> "V", id |-> Traces[tid].id, ok |-> T!Matches(Traces[tid], rd), ph |-> rd.ph, why |-> rd.why,
                    ei |-> rd.ei, off |-> rd.off, st |-> rd.st, hdr |-> rd.hdr, nd |-> Len(rd.data), need |-> rd.need,
                    sum |-> rd.sum, ck |-> rd.ck, ns |-> rd.ns, cnt |-> rd.cnt,
                    riffok |-> IF Traces[tid].mode \in { "n", "t" } THEN T!RiffOK(Traces[tid].riff, rd.ns) ELSE TRUE ]))

Post == PrintT(ToJson([ k |-> "P", n |-> Len(Traces), accepted |-> SetToSeq(TLCGet(1)) ]))
=============================================================================
