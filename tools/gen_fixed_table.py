#!/usr/bin/env python3
"""Regenerate the 'Complete list of repaired defects' table of DESIGN.md (section 10.3) from known_findings.json."""
import json
import re
from pathlib import Path

root = Path(__file__).resolve().parent.parent
kf = json.loads((root / "known_findings.json").read_text())
rows = []
for line in kf["fixed"]:
    m = re.match(r"fixed: property=(C\d\d) ([0-9a-f]{7}) (.*)$", line, re.S)
    if not m:
        raise SystemExit(f"unparsable fixed entry: {line[:80]}")
    rows.append(f"| {m.group(1)} | `{m.group(2)}` | {m.group(3).replace('|', '&#124;')} |")
text = (root / "DESIGN.md").read_text()
head = "| property | commit | what failed |\n|---|---|---|\n"
a = text.index(head) + len(head)
b = text.index("\n**Open known findings**", a)
text = text[:a] + "\n".join(rows) + "\n" + text[b:]
(root / "DESIGN.md").write_text(text)
print(f"{len(rows)} repaired defects listed")
