#!/usr/bin/env python3
"""Regenerate /verif/MANIFEST.json from the table below (single source of truth for the interface)."""
import json
from pathlib import Path

V = Path(__file__).resolve().parent.parent
ALL = [f"C{i:02d}" for i in range(1, 20)]

MC = "model_checking"
CHECKS = {
 "C15": dict(
  engine="Codec",
  technique="TLA+ spec Codec.tla: TLC enumerates all 64000 RADIX-50 triples and bounded/simulated item strings with predicted words; every state replayed into the real assembler (.rad50 and ^R)",
  text="Exhaustive model checking of the packing machine (Unpack(Pack(t)) = t on all 64000 leaves) and exhaustive conformance: every leaf and every item string up to the bound (plus simulated strings to 12 items) is assembled by the real code and compared with the word list or refusal the specification predicts. Exhaustive over the property's own quantifier for triples; bounded for strings.",
  note="Trusted: TLC; the RADIX-50 alphabet order written in Codec.tla from the DEC definition; the renderer that turns exported items into source text; public entry points parser.parse and Compiler.compile_and_link_files.",
  design="DESIGN.md 3.8, 5 (C15)"),
}

NOT_YET = {}


def main():
    props = {json.loads(l)["id"] for l in (V / "properties.jsonl").read_text().splitlines() if l.strip()}
    assert props == set(ALL)
    checks = []
    for pid in ALL:
        c = CHECKS.get(pid)
        if not c:
            continue
        checks.append({
            "property_id": pid,
            "quick_cmd": f"./check {pid} --tier quick",
            "thorough_cmd": f"./check {pid} --tier thorough",
            "evidence_file": f"/verif/evidence/{pid}.json",
            "replay_cmd_template": f"./check {pid} --tier quick --replay {{path}}",
            "engine": c["engine"],
            "level_claimed": {"category": c.get("category", MC), "text": c["text"], "design_ref": c["design"]},
            "level_note": c["note"],
            "technique": c["technique"],
        })
    na = [{"property_id": pid, "reason": NOT_YET.get(pid, "check not built yet (in progress); nothing is claimed for this property")}
          for pid in ALL if pid not in CHECKS]
    engines = {}
    for pid, c in CHECKS.items():
        engines.setdefault(c["engine"], []).append(pid)
    man = {
        "version": 1,
        "setup_cmd": "./setup.sh",
        "hooks": {
            "guard": "PDPY11_VERIF",
            "enable": "environment variable PDPY11_VERIF=1 at import time of pdpy11.compiler (set by ./check); pure Python, nothing to build",
            "baseline_off_cmd": "cd /repo && env -u PDPY11_VERIF /venv/bin/python -m pytest -ra -q -p no:cacheprovider --timeout=900 --continue-on-collection-errors",
            "source_commits": ["32dc7db"],
            "add_only": True,
        },
        "engines": [{"name": n, "path": f"/verif/spec/{n}.tla", "serves_properties": sorted(p),
                     "kind_free_text": "TLA+ specification checked with TLC; behaviours exported and replayed into the real assembler and/or real traces validated against it"}
                    for n, p in sorted(engines.items())],
        "checks": checks,
        "notes": "Model-based verification with explicit TLA+ specifications (DESIGN.md). ./check <ID> --tier quick|thorough; known defects in known_findings.json; seeded mutants in seeded/.",
        "not_applicable": na,
    }
    (V / "MANIFEST.json").write_text(json.dumps(man, indent=1) + "\n")
    print(f"{len(checks)} checks, {len(na)} not claimed")


if __name__ == "__main__":
    main()
