#!/usr/bin/env python3
"""Regenerate /verif/MANIFEST.json from the table below (single source of truth for the interface)."""
import json
from pathlib import Path

V = Path(__file__).resolve().parent.parent
ALL = [f"C{i:02d}" for i in range(1, 20)]

MC = "model_checking"
CHECKS = {
 "C15": dict(
  engine="Codec",
  technique="TLA+ spec Codec.tla: TLC enumerates all 64000 RADIX-50 triples and bounded/simulated item strings with predicted words; every state replayed into the real assembler (.rad50 and ^R)",
  text="Exhaustive model checking of the packing machine (Unpack(Pack(t)) = t on all 64000 leaves) and exhaustive conformance: every leaf and every item string up to the bound (plus simulated strings to 12 items) is assembled by the real code and compared with the word list or refusal the specification predicts. Exhaustive over the property's own quantifier for triples; bounded for strings.",
  note="Trusted: TLC; the RADIX-50 alphabet order written in Codec.tla from the DEC definition; the renderer that turns exported items into source text; public entry points parser.parse and Compiler.compile_and_link_files.",
  design="DESIGN.md 3.8, 5 (C15)"),
}

CHECKS.update({
 "C01": dict(engine="ISA",
  technique="TLA+ model ISA.tla (handbook opcode table of 252 mnemonics + encoder vs. an independent range decoder / CPU fetch machine) model-checked by TLC; every state of the instruction-form graph exported with predicted words and replayed into the real assembler (M->C); the CPU machine re-run by TLC on the real words (C->M)",
  text="Model checking of DecodeRecoversSource, NoOverlap (all 65536 words), synonym/alias consistency on the specification, and exhaustive-within-bounds conformance: quick = all 252 mnemonics with representatives of every operand class plus all operand-form pairs for 21 mnemonics, every inline number, every encodable branch distance, mixed programs at three bases; thorough = 252 mnemonics x all operand-form pairs x value classes x bases (about 5*10^5 forms).",
  note="Trusted: the opcode table of DESIGN.md Appendix A written from the processor handbooks (the ten 1801VM2-only rows are weakly independent), TLC, the renderer harness/isa.py, public entry points of the assembler.",
  design="DESIGN.md 3.1, 5 (C01), Appendix A"),
 "C04": dict(engine="ISA",
  technique="TLA+ model ISA.tla: BranchReach / RelLands checked by TLC; every branch mnemonic x byte distance, SOB x distance, relative operands x position x target x base x expression shape exported with predicted accept+words or refusal and replayed; the CPU machine run by TLC on the real words must land on the source address",
  text="Exhaustive on mnemonic and distance (-300..+300, SOB -140..+6) in both tiers and on expression shape in thorough; accept/reject must agree with the specification's reach rule and every accepted displacement must make the specification's CPU machine arrive at the address written in the source.",
  note="Trusted: ISA.tla's reading of the PDP-11 branch/SOB/PC-relative semantics, TLC, the renderer (labels placed with .blkb padding), public entry points.",
  design="DESIGN.md 3.1, 5 (C04)"),
 "C02": dict(engine="AsmCore",
  technique="TLA+ spec AsmCore.tla: TLC writes every program over a layout alphabet and checks AddressAgreement/AnnouncedSizeHonest on its declared semantics; each program replayed into the real assembler at three bases (image, base, every symbol value); hook-H1 traces of the 21 corpus programs and of generated programs validated by TLC against LayoutTrace.tla",
  text="Bounded-exhaustive model-to-code conformance (all programs of <= 3 (quick) / 4 (thorough) statements over 29 statement kinds incl. .repeat/.include/insert_file, plus simulated programs of up to 16 statements in 2 files) and code-to-model trace validation of every compile_block invocation of real assemblies: address given = block start + bytes before, announced size = final size, bytes at the address = bytes produced, image = concatenation of the files.",
  note="Trusted: TLC; AsmCore.tla's declared semantics (addresses = base + bytes before; ten instruction encodings from the handbook); the renderer harness/asmcore.py; hook H1 (PDPY11_VERIF=1) recording statement/state/chunk without evaluating anything; the corpus out.bin files are not used as oracle.",
  design="DESIGN.md 3.2, 5 (C02), 7"),
 "C03": dict(engine="AsmCore",
  technique="TLA+ spec AsmCore.tla (order alphabet, MoveInvariant clause) and Chain.tla model-checked by TLC; every statement order is a separate exported program replayed into the real assembler; chains to depth 300/30 in three orders and seven use positions; corpus definitions moved to random positions",
  text="Model checking that moving a '.'-free constant definition never changes outcome or image in the declared semantics, and bounded-exhaustive conformance of the real assembler with the per-order predictions (all programs <= 3/4 statements over definition chains, diamonds, duplicates, cycles and ten kinds of use), plus deep chains and corpus moves.",
  note="Trusted: TLC, AsmCore.tla/Chain.tla, renderer; the repository's parser is used only to locate movable definitions in corpus sources. Definition cycles are an open known finding (the assembler hangs).",
  design="DESIGN.md 3.2, 3.3, 5 (C03)"),
 "C06": dict(engine="Data",
  technique="TLA+ model Data.tla of the data directives (sequences of directives, boundary value grid with limb arithmetic, alignment grid 1..64 x 65 bases, strings x 5 charsets); TLC checks 8 invariants and every exported state is replayed into the real assembler (bytes and accept/reject)",
  text="Model checking of the store/fill/pad rules and exhaustive-within-bounds conformance: every directive x 0-8 operands x the 21-class boundary grid, all alignment moduli at all offsets, strings of <= 2/3 items (simulated to 8) in five charsets; the real assembler must emit the predicted bytes or refuse exactly where the model refuses.",
  note="Trusted: Data.tla's semantics written from the property statement and MACRO-11 practice; the charset byte table (cross-checked at run time against Python's codecs); renderer; TLC.",
  design="DESIGN.md 5 (C06)"),
 "C09": dict(engine="AsmCore",
  technique="TLA+ spec AsmCore.tla (relocation alphabet): TLC evaluates every program at four link bases and checks RelocationLaw on the predicted images; the real assembler is run at the same bases and must reproduce each predicted image",
  text="Model checking of the relocation law on the specification (word-wise differences are 0 or exactly the base difference; programs without absolute references are identical) and bounded-exhaustive conformance of the real images at bases 0o1000, 0o40000, 0o157776 and 0o177776 (wrap-around).",
  note="Trusted: TLC, AsmCore.tla (ten instruction encodings from the handbook), renderer.",
  design="DESIGN.md 3.2, 5 (C09)"),
 "C11": dict(engine="AsmCore",
  technique="TLA+ spec AsmCore.tla (scope alphabet): declared scoping (local regions, per-file and per-include privacy, exports, precedence, duplicates) evaluated by TLC on every program over 1-3 files and two includable files; each program replayed into the real assembler (probe words, listed symbol values, accept/reject)",
  text="Bounded-exhaustive conformance with the declared scoping rules: all single-file programs <= 3 statements (quick; 2x2 files exhaustive in thorough) plus simulated programs over 3 files x 4 statements with includes.",
  note="Trusted: TLC, AsmCore.tla's scoping rules written from the property statement, renderer. Exporting a name the file does not define is outside the declared domain (skipped).",
  design="DESIGN.md 3.2, 5 (C11)"),
 "C12": dict(engine="AsmCore",
  technique="TLA+ spec AsmCore.tla (link alphabet): the base is evaluated as a linear form k*LA + c (defined iff k = 0 and no non-linear operator touched a base-dependent value); second .link, self-dependence, forward/backward '. =' predicted; every program replayed into the real assembler",
  text="Bounded-exhaustive conformance: all programs <= 3/4 statements over 13 .link expressions, 7 '. =' forms, labels and data (plus simulated 2-file programs; alphabets of their own for bases at the top of the address space, inside conditionally assembled blocks, behind paddings of unknown size, through chains of aliases and written as an invalid octal literal); predicted base, image and symbol values or rejection.",
  note="Trusted: TLC, AsmCore.tla, renderer. Base expressions involving a size that is unknown before the base is known are outside the declared domain (skipped, counted).",
  design="DESIGN.md 3.2, 5 (C12)"),
 "C13": dict(engine="Tape",
  technique="TLA+ BK-0010 tape-reader state machine (Tape.tla) model-checked against its inverse writer and mutant writers; real WAV/bin/raw files from file_formats and CLI runs validated by TLC trace validation (TapeTrace.tla); TLC-enumerated ChooseOutput scenarios replayed into the real CLI",
  text="Model checking of read/write round trip and refusal of mutant writers on a small domain; trace validation of several hundred real output files per run (lengths 0-64 exhaustive in thorough, 65-4096 sampled, checksum-carry payloads, all bases/names, normal and turbo); 300-650 output-selection scenarios replayed through the real command line.",
  note="Trusted: TLC; Python thresholding at 128 + run-length encoding of samples; the turbo reader and '-o -.ext' are pinned from format constants; the image is taken from asm().",
  design="DESIGN.md 3.7, 5 (C13)"),
 "C14": dict(engine="BkCodec",
  technique="exhaustive enumeration of the real 'bk' codec (256 decodes + 65536 encodes) validated by a TLC monitor (BkCodecTrace.tla) against ASCII and the KOI8-R table of BkCodec.tla; TLC-enumerated strings with predicted bytes or error span replayed through str.encode, .ascii and character literals",
  text="Exhaustive on bytes and BMP code points (trace validation), bounded on strings (<= 5 items exhaustive, <= 12 simulated).",
  note="Trusted: TLC; the committed KOI8-R table (asserted equal to Python's koi8_r at run time); bytes 0x7F-0xBF constrained only by injectivity and round trip; documented alias U+00A4 -> 0x24.",
  design="DESIGN.md 3.8, 5 (C14)"),
})

CHECKS.update({
 "C16": dict(engine="AsmCore",
  technique="TLA+ spec AsmCore.tla (struct alphabet): .repeat = unrolling, .include = private inline, .end / .once / insert_file by definition, LinkIsConcatenation checked by TLC; three-way replay: program as written vs. harness-transformed variant (unrolled / insert as .byte / files concatenated) vs. predicted image",
  text="Bounded-exhaustive conformance (all single-file programs <= 3 statements over 13 .repeat forms with '.', impure operators, hoisted index expressions, local-label branches, nesting, plus insert_file/.end/.once/.include; two-file programs exhaustively in thorough) with every accepted program also assembled in its unrolled / inlined / concatenated form against the same prediction.",
  note="Trusted: TLC, AsmCore.tla, renderer and the three syntactic transformations in harness/checks/C16.py. Repeat counts are literals 0..3 in the exhaustive part, large counts 17/33/40 and counts that are symbols defined further down (StructLateAlphabet: late-compiled blocks referring to labels behind them) in alphabets of their own.",
  design="DESIGN.md 3.2, 5 (C16)"),
 "C19": dict(engine="AsmCore",
  technique="TLA+ spec AsmCore.tla (list alphabet, ListingOf/ListingSorted) and LstPath.tla model-checked by TLC; every accepted program's predicted per-file sorted listing compared line by line with Compiler.generate_listing(), and all LstPath selector scenarios run through the real CLI with --lst (path and content)",
  text="Bounded-exhaustive conformance of listing content (programs <= 3/4 statements plus simulated 3-file programs with includes, negative / wide / equal values) and exhaustive conformance of the listing path rule over 51 output-selector scenarios through the real command line.",
  note="Trusted: TLC, AsmCore.tla/LstPath.tla, renderer. Section order is not specified by the property and not compared; '-o' combined with a directive output is not generated (ambiguous 'first output').",
  design="DESIGN.md 3.2, 5 (C19)"),
})

CHECKS.update({
 "C05": dict(engine="Expr",
  technique="TLA+ Expr.tla: TLC checks shunting machine = reference grammar evaluator on every token string it writes (ShuntEqualsGrammar) and the literal laws (RespellPreservesValue, LitCaseSign); every string is exported with its predicted value or error and replayed into the real assembler as .dword/.word with constant, symbolic (defined before/after) and address-valued operands",
  text="Model checking, exhaustive within bounds (all token strings <= 5 tokens over 9 operand classes and <= 4 over 20 classes in quick; <= 5/6/7 tokens over 20/7/4 classes in thorough) plus TLC-simulated long strings (to 30-40 tokens, nesting 5), each conformance-replayed; all literal spellings x radices x case as an exhaustive table.",
  note="Trusted: Expr.tla's precedence and semantics table (authored from the property text), TLC with CommunityModules Bitwise, the renderer; values outside (-2^30, 2^30) are counted and not judged.",
  design="DESIGN.md 3.4, 5 (C05)"),
 "C07": dict(engine="Cli",
  technique="TLA+ phase machine of the command line (Cli.tla) model-checked by TLC (FailIffError, NoOutputAfterError, WarningsAreInert, OutcomeAutomaton); TLC-exported scenarios (fault plan x report format x -W selection x output options) replayed through the real `python -m pdpy11`; ordered traces of in-process CLI runs validated by TLC against CliTrace.tla",
  text="Model checking of the CLI phase machine bound to the code by scenario replay (about 800-1000 real command-line runs in quick, 16-22k in thorough: exit status, exact set of files created/modified, variants of -W/format byte-identical) and by trace validation of the order of reports and writes.",
  note="Trusted: the scenario renderer and fault catalogue harness/faults.py; recognition of an error diagnostic by its text shape; in-process recorders; environment faults in the output phase are exempt; bare diagnostics on stdout with '-o -' are an open known finding.",
  design="DESIGN.md 3.6, 4, 5 (C07)"),
 "C17": dict(engine="LineCol",
  technique="TLA+ LineCol.tla (closed form vs inductive scanner) model-checked and exhaustively replayed against Context.__repr__; a fault catalogue of 64 kinds with designated culprit tokens planted at every position x trivia x file location and replayed in-process and through the real CLI in bare format",
  text="Exhaustive model-to-code conformance of line/column for all texts <= 6 (thorough <= 7) characters over 5 classes; exhaustive kinds x positions x trivia x locations for culprit positions (4.6k programs quick, 10.7k thorough); span well-formedness (file of the run, 0 <= start <= end <= len, one file) of every diagnostic.",
  note="Trusted: the culprit designations in harness/faults.py (written before looking at the reports; five reconciled and listed in the evidence), pdpy11's own token convention for '#expr' and signed literals.",
  design="DESIGN.md 3.5, 4, 5 (C17)"),
})

CHECKS.update({
 "C10": dict(engine="Lex",
  technique="TLA+ token/rewrite model Lex.tla (8 rewrite rules with enabling conditions E1-E16) model-checked for canon-invariance of every enabled rewrite; TLC-computed enabled sites and rewrite results must equal those of the independent tokenizer harness/lex.py; TLC-simulated rewrite behaviours replayed on the 21 corpus programs and 32 generated programs (one of them made of escape-only character literals, whose escape letters and hex digits CaseFlip respells), images compared through the real assembler",
  text="Model checking (bounded exhaustive: all token strings <= 3 (quick) / 4 (thorough) tokens over 25 token classes plus the abstract token windows of real statements) with conformance replay: about 1.3k rewritten program variants / 280k site rewrites in quick, 25k variants in thorough; outcome, base and bytes must equal the original spelling's.",
  note="Trusted: harness/lex.py token classification (statements it does not understand are opaque and never rewritten), the synonym table from the handbooks, TLC. Included files of corpus programs are not rewritten. Implicit word lists starting with a dotted symbol are an open known finding (excluded from the rewrite).",
  design="DESIGN.md 3.5, 5 (C10)"),
})

CHECKS.update({
 "C08": dict(engine="Grammar",
  technique="TLA+/TLC: operational model of the lazy evaluation engine (Lazy.tla: termination under weak fairness, no escaping exception, balanced evaluation state, settled values stable, eager = denotational value) whose counterexamples and predictions are replayed on the real assembler; grammar G as a TLA+ derivation machine (Grammar.tla: every program up to k expansions by BFS, programs up to 60 statements by simulation, planted faults, <= 3 token/character mutations) run under the collect/bare/graphical report handlers with a CPU-time watchdog; every run validated as a trace by the outcome automaton Outcome.tla",
  text="Model checking of the engine design for <= 3 symbols / <= 3 statements (config A, acyclic: all properties hold; config B, all graphs: the counterexamples are the open cyclic-definition finding and are reproduced on the real code) and bounded-exhaustive plus simulated conformance: about 30k texts (quick) / 1.3M texts (thorough) from grammar G, each run ending in 'ok and no error issued' or 'reported failure with at least one error' as accepted by Outcome.tla.",
  note="Trusted: TLC, the renderer harness/grammar.py, the bounds guard (repeat/align/shift counts are small literals; texts outside are dropped and counted), hang = 0.6-1 CPU-s confirmed with 5 CPU-s in a fresh process; known-finding matching uses pdpy11's parser only to build the definition graph. Cyclic definitions are an open known finding.",
  design="DESIGN.md 3.3, 3.9, 4, 5 (C08), 10.7"),
 "C18": dict(engine="History",
  technique="TLA+/TLC: History.tla composes assemblies of eight kinds sequentially (every exit path restores try_compute depth, awaiting stack and handler stack), Lazy.tla Balanced under injected exceptions; every enumerated history (all <= 4-5, simulated of 50) is played in one process on the real assembler followed by five probe programs whose results must equal a fresh process; the same probes through the CLI under PYTHONHASHSEED 0..N",
  text="Model checking of state restoration on every exit path and bounded-exhaustive conformance on probe results (outcome, base, bytes, diagnostics by severity/identifier/position, emitted files, listing): about 900 histories / 6k assemblies in quick, 17.6k histories / 196k assemblies in thorough.",
  note="Trusted: TLC; concrete programs per kind come from pools in harness/history.py; counter readings are diagnostic only; diagnostic texts are compared only across hash seeds. Kinds 'cycle' and 'interrupted' rely on inputs that hang today (open known finding).",
  design="DESIGN.md 3.3, 5 (C18), 10.7"),
})

NOT_YET = {}


def main():
    props = {json.loads(l)["id"] for l in (V / "properties.jsonl").read_text().splitlines() if l.strip()}
    assert props == set(ALL)
    checks = []
    for pid in ALL:
        c = CHECKS.get(pid)
        if not c:
            continue
        checks.append({
            "property_id": pid,
            "quick_cmd": f"./check {pid} --tier quick",
            "thorough_cmd": f"./check {pid} --tier thorough",
            "evidence_file": f"/verif/evidence/{pid}.json",
            "engine": c["engine"],
            "level_claimed": {"category": c.get("category", MC), "text": c["text"], "design_ref": c["design"]},
            "level_note": c["note"],
            "technique": c["technique"],
        })
    na = [{"property_id": pid, "reason": NOT_YET.get(pid, "check not built yet (in progress); nothing is claimed for this property")}
          for pid in ALL if pid not in CHECKS]
    engines = {}
    for pid, c in CHECKS.items():
        engines.setdefault(c["engine"], []).append(pid)
    man = {
        "version": 1,
        "setup_cmd": "./setup.sh",
        "hooks": {
            "guard": "PDPY11_VERIF",
            "enable": "environment variable PDPY11_VERIF=1 at import time of pdpy11.compiler (set by ./check) makes the hook code available; the harness turns it on (pdpy11.compiler.VERIF_HOOKS) only for the assemblies whose layout trace it records and runs everything else, command-line runs included, with the hook off; pure Python, nothing to build",
            "baseline_off_cmd": "cd /repo && env -u PDPY11_VERIF /venv/bin/python -m pytest -ra -q -p no:cacheprovider --timeout=900 --continue-on-collection-errors",
            "source_commits": ["32dc7db", "b95f956"],
            "add_only": True,
        },
        "engines": [{"name": n, "path": f"/verif/spec/{n}.tla", "serves_properties": sorted(p),
                     "kind_free_text": "TLA+ specification checked with TLC; behaviours exported and replayed into the real assembler and/or real traces validated against it"}
                    for n, p in sorted(engines.items())],
        "checks": checks,
        "notes": "Model-based verification with explicit TLA+ specifications (DESIGN.md). ./check <ID> --tier quick|thorough; known defects in known_findings.json; seeded mutants in seeded/.",
        "not_applicable": na,
    }
    (V / "MANIFEST.json").write_text(json.dumps(man, indent=1) + "\n")
    print(f"{len(checks)} checks, {len(na)} not claimed")


if __name__ == "__main__":
    main()
