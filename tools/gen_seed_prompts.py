#!/usr/bin/env python3
"""tools/gen_seed_prompts.py <round letter> <out dir>  - briefs for blind seeding sub-agents (one per property).
Each brief contains ONLY the property text (from properties.jsonl), the generic task description (taken from
tools/seed_prompt_example.txt) and one-line ideas of the seeds made so far ("do not repeat"); nothing else from /verif.
The sub-agent works in its own scratch worktree /tmp/seed-<Cxx><letter> (create it with `git -C /repo worktree add --detach`) and
writes /tmp/seed-<Cxx><letter>-out/m1, m2; evaluate with tools/seed_eval.sh, then remove the worktree."""
import importlib.util
import json
import sys
from pathlib import Path

root = Path(__file__).resolve().parent.parent
letter, out = sys.argv[1], Path(sys.argv[2])
out.mkdir(parents=True, exist_ok=True)
spec = importlib.util.spec_from_file_location("sm", root / "tools" / "seed_meta.py")
sm = importlib.util.module_from_spec(spec)
spec.loader.exec_module(sm)
tmpl = (root / "tools" / "seed_prompt_example.txt").read_text()
head = tmpl[:tmpl.index("The property your bugs must break")]
task = tmpl[tmpl.index("YOUR TASK:"):]
for line in (root / "properties.jsonl").read_text().splitlines():
    p = json.loads(line)
    pid, tag = p["id"], p["id"] + letter
    used = [v for k, v in sm.NEEDS.items() if k.startswith(pid)]
    body = (f"The property your bugs must break (read it carefully):\n\nPROPERTY {pid}: {p['title']}\n\nStatement: {p['statement']}\n\n"
            f"Quantified over: {p['quantifier']['text']}\n\nWhy the existing tests cannot settle it: {p['why_tests_cant']}\n\n"
            f"Code anchors (JSON): {json.dumps(p['anchors'])[:1500]}\n\n"
            f"LATER ROUND: earlier rounds already produced {len(used)} bugs for this property. Do NOT repeat their ideas; find bugs in OTHER "
            "mechanisms, other files, other input shapes, other option combinations. The ideas already used were:\n"
            + "".join(f"  - {u}\n" for u in used) +
            "Produce TWO new changes (m1, m2), as subtle as you can make them while still demonstrable; bugs that need two cooperating sites, "
            "a particular order of statements, a particular value boundary, an unusual but legal spelling, or an interaction between two "
            "language features are preferred. Think about which corners of the property's quantified domain a test generator would be LEAST "
            "likely to visit, and put the bug there.\n\n\n")
    (out / f"prompt_{tag}.txt").write_text((head + body + task).replace("seed-C04b", "seed-" + tag))
print("written to", out)
