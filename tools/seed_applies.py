#!/usr/bin/env python3
"""tools/seed_applies.py - record in every seeded/<id>/meta.json the newest /repo commit the patch applies to
('applies_at_repo_commit'; later repairs of /repo may have rewritten the lines a seed changes).  Uses a scratch worktree
under /tmp that is removed at the end."""
import json
import subprocess
import sys
from pathlib import Path

root = Path(__file__).resolve().parent.parent
repo = "/repo"
wt = "/tmp/seed-applies-wt"


def sh(*a, **k):
    return subprocess.run(a, capture_output=True, text=True, **k)


commits = sh("git", "-C", repo, "log", "--first-parent", "--format=%h").stdout.split()
seeds = sorted(d for d in (root / "seeded").iterdir() if (d / "patch.diff").exists())
todo = {d.name: d for d in seeds}
found = {}
sh("git", "-C", repo, "worktree", "add", "--detach", wt, "HEAD")
try:
    for c in commits:
        if not todo:
            break
        sh("git", "-C", wt, "checkout", "-q", "--detach", c)
        for name, d in list(todo.items()):
            ok = sh("git", "-C", wt, "apply", "--check", str(d / "patch.diff")).returncode == 0
            if not ok:
                ok = subprocess.run(f"patch -p1 --dry-run -F3 -s < {d / 'patch.diff'}", shell=True, cwd=wt, capture_output=True).returncode == 0
            if ok:
                found[name] = c
                del todo[name]
finally:
    sh("git", "-C", repo, "worktree", "remove", "--force", wt)
head = commits[0]
for d in seeds:
    mp = d / "meta.json"
    m = json.loads(mp.read_text()) if mp.exists() else {}
    m["applies_at_repo_commit"] = found.get(d.name)
    m["applies_at_repo_head"] = found.get(d.name) == head
    mp.write_text(json.dumps(m, indent=1) + "\n")
print("HEAD", head, "| apply at HEAD:", sum(1 for v in found.values() if v == head), "| only at an older commit:",
      sorted(k for k, v in found.items() if v != head), "| nowhere:", sorted(todo))
