#!/bin/bash
# tools/seed_eval.sh <src dir with patch.diff demo.py notes.md> <seed id> <check ids...>
# Confirms a seeded change in a scratch worktree (/tmp/seedeval): applies, suite passes, demo fails with / passes without,
# then runs the given checks against it and records everything in /verif/seeded/<seed id>/.
set -u
SRC="$1"; ID="$2"; shift 2
WT=/tmp/seedeval-$ID
OUT=/verif/seeded/$ID
mkdir -p "$OUT"
if [ ! -d $WT ]; then git -C /repo worktree add -q --detach $WT HEAD; fi
git -C $WT checkout -q -- . ; git -C $WT clean -fdq; git -C $WT checkout -q --detach "$(git -C /repo rev-parse HEAD)"
cp "$SRC/patch.diff" "$OUT/patch.diff"; cp "$SRC/demo.py" "$OUT/demo.py"; [ -f "$SRC/notes.md" ] && cp "$SRC/notes.md" "$OUT/notes.md"
timeout 120 /venv/bin/python "$OUT/demo.py" $WT >/tmp/seedeval.demo0 2>&1; D0=$?
git -C $WT apply "$OUT/patch.diff" 2>/dev/null || (cd $WT && patch -p1 -F3 -s < "$OUT/patch.diff") || { echo "patch does not apply"; exit 2; }
SUITE=$(cd $WT && env -u PDPY11_VERIF /venv/bin/python -m pytest -q -p no:cacheprovider --continue-on-collection-errors 2>&1 | tail -1)
timeout 120 /venv/bin/python "$OUT/demo.py" $WT >/tmp/seedeval.demo1 2>&1; D1=$?
echo "suite: $SUITE | demo clean=$D0 patched=$D1"
: > /tmp/seedeval-$ID.runs
for c in "$@"; do
  OUTC=$(cd /verif && PDPY11_REPO=$WT timeout 3000 ./check $c --tier quick 2>&1); RC=$?
  N=$(echo "$OUTC" | grep -c '^VIOLATION')
  echo "$OUTC" | grep -A1 '^VIOLATION' | sed -n '2p' | cut -c1-300 > /tmp/seedeval-$ID.first
  echo "check $c: exit=$RC violations_printed=$N :: $(cat /tmp/seedeval-$ID.first)"
  python3 -c 'import json,sys; print(json.dumps({"check":sys.argv[1],"exit":int(sys.argv[2]),"violation_lines":int(sys.argv[3]),"first":open(sys.argv[4]).read().strip()}))' "$c" "$RC" "$N" /tmp/seedeval-$ID.first >> /tmp/seedeval-$ID.runs
done
python3 - "$OUT" "$ID" "$SUITE" "$D0" "$D1" "/tmp/seedeval-$ID.runs" <<'PY'
import json, sys
out, sid, suite, d0, d1, resf = sys.argv[1:7]
res = json.dumps([json.loads(l) for l in open(resf) if l.strip()])
meta_p = out + "/meta.json"
try:
    meta = json.load(open(meta_p))
except Exception:
    meta = {}
meta.update({"seed": sid, "suite_with_patch": suite, "demo_exit_clean_tree": int(d0), "demo_exit_patched_tree": int(d1),
             "confirmed": (int(d0) == 0 and int(d1) != 0 and "180 passed" in suite)})
meta.setdefault("runs", [])
meta["runs"] = [r for r in meta["runs"] if r["check"] not in {x["check"] for x in json.loads(res)}] + json.loads(res)
json.dump(meta, open(meta_p, "w"), indent=1)
PY
git -C $WT checkout -q -- . && git -C $WT clean -fdq
rm -f /tmp/seedeval-$ID.runs /tmp/seedeval-$ID.first
