#!/usr/bin/env python3
"""Fill property / what-it-needs fields of seeded/*/meta.json (the run results are written by tools/seed_eval.sh)."""
import json
from pathlib import Path

NEEDS = {
 "C01-m1": "cmpf/cmpd with ac1 or ac2 as accumulator operand (2-bit accumulator field written with swapped bits); ac0/ac3 and all other FP mnemonics unaffected",
 "C01-m2": "relative-deferred '@label' as SECOND operand after a first operand that has its own extension word (mov #5, @ptr): displacement 2 too large",
 "C01-m3": "'.repeat n>=2' whose body has an index operand with a prefix-operator offset (@N(Rn), -sym(Rn)): hoist() rewrites the shared tree, copies 2..n become PC-relative",
 "C02-m1": "operand-less '.word'/'.dw' (announces 0 bytes, emits 2) while the statement stays deferred: link base unknown (no leading .link) or an earlier size unknown",
 "C02-m2": "three or more linked files: the running address advances by the accumulated length instead of the last file's length",
 "C02-m3": "an immediately computable '.ascii' chunk after a still pending statement inside an included file / .repeat body / non-last linked file (bytearray element counted as 0 bytes in Concatenator.length)",
 "C03-m1": "two symbols defined before a later label they both depend on, combined in one expression, while the link base is unknown during the pass (duplicate polynomial variables lost)",
 "C03-m2": "product (a+1)*b where both factors are still unevaluated at use time (definitions written before their dependency)",
 "C03-m3": "a constant defined BEFORE '.extern all' in a file and used from another file (recorded under the prefixed name, so not exported)",
 "C04-m1": "relative-deferred operand in second position after a first operand with an extension word",
 "C04-m2": "SOB with a target exactly 128 bytes back (accepted and truncated to 0 instead of rejected)",
 "C04-m3": "'.repeat n>=3' with a PC-relative reference from the body to something outside the body (copy k>=3 compiled for a wrong address)",
 "C05-m1": "a minus directly in front of a caret-radix literal (-^X10) at the head of an expression or group",
 "C05-m2": "'!' followed by '^' without brackets (a ! b ^ c groups as (a|b)^c)",
 "C05-m3": "address * symbol where the address is base-relative with the base unknown and the symbol was defined before its own dependency",
 "C06-m1": "an operand exactly equal to -2^n (.byte -400, .word -200000, .dword -40000000000): accepted and stored as 0",
 "C06-m2": ".align with a modulus that is not a power of two",
 "C06-m3": "'<n>' next to another chunk in .ascii with n >= 0o200 (encoded through the charset instead of stored raw; range check lost)",
 "C07-m1": "a non-critical error followed later in the same run by any warning (even a filtered one): the latch is overwritten, exit 0 and files written",
 "C07-m2": "a displayed warning with two spans on one source line under --report-format=graphical (label-fixup 'br 1 + 2', missing-newline with -Wall): TypeError in the handler, exit 1, while bare format / disabled warning succeed",
 "C07-m3": "a non-critical error issued through the parser's report= path (\\x without hex digits in a string, '^R' without characters): printed but not latched, exit 0",
 "C08-m1": "'.extern NAME' of a name that is never defined plus a reference to NAME: KeyError instead of undefined-symbol (only at the final evaluation)",
 "C08-m2": "'.end' (or an effective '.once') inside a .repeat body whose count is a forward reference, so that the body is compiled late when no file-level block is on the stack: CompilerStopIteration escapes",
 "C08-m3": ".rad50 with a raw digit <50> (= 40, accepted by an off-by-one) as FIRST digit of a group whose packed value exceeds 65535: struct.error",
 "C18-m1": "two or more input files on the command line under different PYTHONHASHSEED values (files linked in set order)",
 "C18-m2": "a '.once'-guarded file included by the probe after an earlier assembly in the same process included a file of the same path (counter dictionary shared by all Compilers)",
 "C18-m3": "an included file with parse-time diagnostics or once-only constructs, included again by a later assembly in the same process (parsed includes cached by path and text)",
 "C09-m1": "a branch/SOB whose target address is >= 0o200000 because the base is near the top of the address space (rejected only at that base)",
 "C09-m2": "two sibling include files behind at least one code statement, a PC-relative reference from one to a code label at non-zero offset of the other, link base unknown during the pass (.link last or absent)",
 "C09-m3": "an include as first emitting statement that itself includes a further file whose code refers outwards PC-relatively, no .link before it",
 "C10-m1": "a negative number written with a caret radix prefix (-^D10)",
 "C10-m2": "'.extern ALL' (any upper-case letter) in a multi-source program whose other source uses the exported symbols",
 "C10-m3": "a caret group delimited by colons whose last token before the closing colon is a global symbol (^:rows:)",
 "C11-m1": "a file and the FIRST file it includes share one private-symbol prefix (privacy between includer and first include lost; spurious duplicates)",
 "C11-m2": "a name exported by an earlier file and privately defined later in another file that uses it before the definition in an immediately computable statement",
 "C11-m3": "about 20 or more ordinary labels and a two-digit local label whose leading digits continue a scope number ('.local21' + '1' vs '.local2' + '11')",
 "C12-m1": "linear self-dependence of the base (.link end, leading '. = . + 10'): no report, assembles at base 0",
 "C12-m2": "a multi-file build where a LATER file sets the base ('. = 3000' treated as skip / '.link X' rejected)",
 "C12-m3": "k*label with k != 1 in a .link expression (coefficient of the base kept at 1): 2*e - s accepted, 3*e - 2*s - s rejected",
 "C13-m1": "--implicit-bin with two or more input files (output named after the LAST source)",
 "C13-m2": "two make_wav (or two make_turbo_wav) directives with different tape names in one program (container cached per format)",
 "C13-m3": "byte sum t with (t & 0xffff) + (t >> 16) >= 0x10000, e.g. 0x1ffff (smallest image: 515 bytes): checksum one too small",
 "C14-m1": "capital Cyrillic letters for 0xFC/0xFD swapped (still a bijection, no longer KOI8-R)",
 "C14-m2": "an unencodable character as the LAST character of a string (error end position wraps to 0)",
 "C14-m3": "U+007F (DEL) in an otherwise ASCII string encodes silently to 0x7F (which decodes to U+25A0)",
 "C15-m1": "one- and two-character ^R literals (right-justified instead of space-padded)",
 "C15-m2": ".rad50 with several chunks whose inner boundaries are not multiples of three (padding after every chunk)",
 "C15-m3": "a lower-case 'z' inside a .rad50 string (refused)",
 "C16-m1": "'.repeat n>=2' with an index operand whose symbolic offset starts with a prefix operator (-OFFS(R0))",
 "C16-m2": "a '.once' file included twice through path spellings that differ before normalisation (x.mac vs ./x.mac vs sub/../x.mac)",
 "C16-m3": "'.repeat n>=3' whose body size depends on its position (.even/.odd/.align in the body)",
 "C17-m1": "a diagnostic after a tab that does not start on a multiple of four columns (tab-stop semantics instead of 'a tab counts four')",
 "C17-m2": "a lazily reported fault of an operator application that is NOT the leftmost term of its operand (1 + 2/0): reported at the start of the operand",
 "C17-m3": "an infix operator whose right operand is missing, followed by blank space before the offending token",
 "C19-m1": "two or more make_* directives with --lst and no -o (listing beside the LAST output)",
 "C19-m2": "two distinct negative values, or a value >= 2^18 next to a six-digit value, in one file's section (sorted by text)",
 "C19-m3": "symbol names containing a dot (truncated in the listing)",
 # ---- round 2 (two further patches per property, made after the round-1 strengthening)
 "C01b-m1": "an FP-11 instruction whose memory operand is an ordinary symbol that merely begins like an accumulator name (ac1buf, ac0_save, AC3TMP, ac51): taken for the accumulator",
 "C01b-m2": "the legacy spelling '@Rn' of register deferred (accepted with a warning as (Rn)): assembled as @0(Rn) with an extra word",
 "C02b-m1": "an '.ascii' concatenation with a quoted chunk that is not the first chunk, kept pending by an <expr> chunk that names a later symbol: announced size forgets the later quoted chunks",
 "C02b-m2": "link base known during the pass, two pending sizes in front of a label, the first becomes computable and an evaluation attempt of the label fails on the second: the first size is folded twice",
 "C03b-m1": "two linked files: the earlier exports a name, the later defines the same name privately AFTER a use that is computable at once (the use binds to the other file's value)",
 "C03b-m2": "definition chain written in reverse order with an additive constant ('a = b + 1' above 'b = c + 2' above 'c = 5') and 'a' first used with a coefficient other than +1 (10 - a, 3*a)",
 "C04b-m1": "branch/SOB operand that is an expression whose first number is a numeric local label of two or more digits ('br 10+2'): the label is looked up by its value ('8')",
 "C04b-m2": "branch/SOB operand that is an expression containing exactly one of '(' and ':' with a plain number reached before any symbol ('br 2+1:', 'beq (lbl)+2'): the number becomes a local label",
 "C05b-m1": "a '^R' literal of one or two characters inside an expression (^RA, ^RAB): padded on the wrong side",
 "C05b-m2": "'/' with a dividend or quotient beyond about 2^52 (<1 << 62.>/3, 12345678901234567890./1000.): computed through a float",
 "C06b-m1": "an operand-less '.word' / '.dw' at an odd address: accepted with only the implicit-operand warning",
 "C06b-m2": "multi-byte output charset (utf-8), a non-ASCII character in an '.ascii'/'.asciz' string, and the directive kept pending by an <expr> chunk naming a later symbol: size announced in characters",
 "C07b-m1": "a make_bin/make_raw/make_wav/... directive in the source plus a non-critical error that does not abort compilation (undefined symbol, odd address, .error ...): the directive's file is written although the exit status is 1",
 "C07b-m2": "a -W selection that switches off an identifier an ERROR uses (-Wno-all with '.word #5' = excess-hash, 'ldf r6, ac0' = implicit-accumulator, -Wno-undefined-symbol): exit 1 without any error diagnostic",
 "C09b-m1": "a label laid out BEFORE a '.link' that stands in the middle of the text, with a block of still unknown size in front of it, read directly after the '.link': the base is counted twice",
 "C09b-m2": "a constant that names a label and is defined before it ('x = buf' above 'buf:'), base unknown while labels are laid out ('.link' in the middle or at the end), the constant SUBTRACTED from another address as its first use",
 "C10b-m1": "an implicit word list followed by a ';' comment with no blank in between ('1, 2;note')",
 "C10b-m2": "the end directive written with an upper-case letter (.END) followed by text that does not parse (banner, Ctrl-Z)",
 "C11b-m1": "an '.include' (or second linked file) behind an ordinary label of the includer, and a local label used at the top of the included file before its first ordinary label, same local name in the includer's current region",
 "C11b-m2": "two files exporting the same name, the later one through '.extern all' placed AFTER the definition: duplicate not reported",
 "C12b-m1": "'. = X' after the base is set whose target is exactly the current location (skip of size 0): refused as a backward move",
 "C12b-m2": "'.link' expression in which an intermediate symbol defined before its labels has a coefficient other than +1 and evaluates to a polynomial with a non-zero constant and a still unknown size ('.link 40000 - span')",
 "C13b-m1": "'-o NAME.BIN' (extension not all lower case): written in raw format without the base/length header",
 "C13b-m2": "make_wav / make_turbo_wav with an explicitly EMPTY tape name: replaced by the name inferred from the output file",
 "C16b-m1": "a '.once' file that is both named on the command line and '.include'd in one build: contributes twice (or spurious duplicate-symbol)",
 "C16b-m2": "two insert_file directives in source files of different directories naming their files by the same relative path, the files differing: the second gets the first file's bytes",
 "C17b-m1": "a value too far below zero for its field (.byte 1, -400; mov #-200000, r0; lazily: low = -1000000 defined later): reported at the start of the statement instead of the operand",
 "C17b-m2": "two assemblies in one process that give the same file name texts with different line breaks, the later one reporting a position in it: line/column computed from the stale line table",
 "C19b-m1": "--lst with an output whose stem ends in a letter of its extension (main.bin -> ma.lst, draw.raw -> d.lst)",
 "C19b-m2": "a program of ten or more compiled source files (linked and included, repeats counted): files 10.. have no section in the listing",
 # ---- round 3 (two more per property, all 19 properties; aimed at the corners a strengthened harness would still not reach)
 'C01c-m1': "an inline-number instruction (emt/trap/sys/mark/spl/xfc) whose operand is a symbol defined further down, and a LATER instruction with the same mnemonic: the postponed encoding reads the later statement's number",
 'C01c-m2': "two sibling '.include's in one assembly with a few dozen operands each: a per-Compiler memo keyed by id(token) hands freed-and-reused ids of the first file's register tokens to the second file's symbols (allocator dependent)",
 'C02c-m1': 'a block (file, include, .repeat body) whose first statement is still pending (forward br, .word fwd, .blkb n) directly followed by a statement that yields a multi-part chunk (mov #fwd, r0; jmp fwd): the first part of the second chunk is dropped from the image',
 'C02c-m2': "utf-8 output charset, non-ASCII quoted text in '.ascii'/'.asciz', and an <expr> chunk naming a later symbol: size announced in characters",
 'C03c-m1': 'the same as C02c-m2 seen as an order dependence: moving \'cr = 15\' from above to below the \'.ascii "жу"<cr>\' changes a later label (utf-8 only)',
 'C03c-m2': "an UNUSED definition with an error-reporting operator (/ % <<) under a linear operator whose operand is defined above it but depends on something defined below: 'lim = z' / 'q = 100 / lim + 1' / 'z = 0' assembles, other orders fail",
 'C04c-m1': "a forward 'sob' whose target is a bare symbol defined by assignment ('fwd = lbl'): accepted and encoded as a fall-through",
 'C04c-m2': 'a branch or sob that itself stands at an ODD address (after .byte, odd .link): parity is checked on the target instead of the distance',
 'C05c-m1': 'a two-character literal whose second character encodes to a byte >= 0x80 (Cyrillic under bk) where sign or bits above 15 matter (.dword, /, %, >>): unpacked as a signed word',
 'C05c-m2': 'an alias of an address written before its label, used with a coefficient other than +1 as its first evaluation, in a statement emitted before the label, base unknown',
 'C06c-m1': "U+007F (raw or '\\x7f') in an otherwise ASCII string under the bk charset: the one ASCII character bk does not have is let through by an ASCII fast path",
 'C06c-m2': "'.repeat' of three or more copies whose body length depends on the start address (.even/.odd/.align inside): the address of copy i is start + i * (length of the previous copy)",
 'C07c-m1': 'a critical (parser) error in a file included by an INCLUDED file: printed, not latched, exit 0 and outputs written (two cooperating sites)',
 'C07c-m2': 'a make_xxx target that cannot be written for a reason other than missing directory / permission (it is a directory, the path runs through a file, name too long): internal error without an error diagnostic',
 'C08c-m1': "a first evaluation attempt of an unsized statement that ends in a recoverable error inside a swallowing context ('.repeat 2 { .blkb -1 }') followed by anything that calls not_ready ('.word nosuch'): try_compute.depth stays raised, NotReadyError escapes",
 'C08c-m2': 'graphical handler, a diagnostic with spans in two files, the other span on a line number beyond the length of the file named first: KeyError',
 'C09c-m1': "'.link SYM' with SYM defined further down, standing after an instruction that has a forward PC-relative operand: the displacement contains twice the base",
 'C09c-m2': "an included file whose FIRST statement is an '.include' (two-hop promise chain), '.link' first: absolute references to labels of the inner file lose the base",
 'C10c-m1': "'@%N' (legacy register deferred composed with the %N register spelling): falls through to relative deferred and fails",
 'C10c-m2': "an implicit word list of two or more words in which a word other than the first mentions '.': '.' means the address of each word instead of the statement",
 'C11c-m1': 'an exported name spelled in different letter case in two files (Counter:: / counter): the export table is no longer case-insensitive',
 'C11c-m2': 'the same private name in two linked files, both defined by forward reference, one file exporting a value linear in its own, the other combining that export with its own in one sum before either is forced: terms merged by name',
 'C12c-m1': "'. = X' after the base is set with a NEGATIVE target (image at the top of the address space, '. = -40'): refused as out of bounds",
 'C12c-m2': "a base directive inside '.repeat FLAG { }' with FLAG defined further down, in the last file: the block is compiled after the default base is settled",
 'C13c-m1': "make_wav / make_turbo_wav with an explicit output path that has an extension other than .wav and no tape name ('game.v2'): the inferred tape name loses the extension",
 'C13c-m2': 'the source named on the command line is a symbolic link: default and relative outputs (and includes) follow the link target instead of the name given',
 'C14c-m1': 'a string whose first unencodable character lies beyond the BMP (U+10000 and up): IndexError instead of an encoding error',
 'C14c-m2': "two assemblies in one process with the same refused character literal ('é): the second gets the memoised 0 without a report",
 'C15c-m1': "'.rad50 <expr>' whose expression depends on '.' inside a '.repeat': the code of the first copy is cached on the token (and the >= 40 check skipped)",
 'C15c-m2': "the same bad '.rad50' character in two assemblies of one process: a process-wide table learns it as a space",
 'C16c-m1': "two assemblies in one process including a '.once' file at the same resolved path: the counts are shared by all Compilers (same idea as C18-m2, found independently)",
 'C16c-m2': "a capitalised '.END' followed by text that does not parse: the parser no longer stops at it",
 'C17c-m1': "a diagnostic with spans in two linked files where the culprit's file name sorts after the other's: the spans are sorted by file name",
 'C17c-m2': 'a form feed, vertical tab, NEL, U+2028 or FS/GS/RS before the fault (str.splitlines breaks lines there, the assembler does not): line numbers off by one per such character',
 'C18c-m1': "a malformed radix number (^XG, ^B2) in the probe after an earlier parse in the process used the same prefix: the report's start position is the earlier number's",
 'C18c-m2': '--lst with two symbols of one file that have the same value, under different PYTHONHASHSEED: ties come out in set iteration order',
 'C19c-m1': "--lst with '-o NAME.EXT' where EXT is not bin/raw (prog.sav, PROG.BIN): the listing name loses the extension",
 'C19c-m2': 'two or more symbols with the same value in one section whose names order differently with the letter case folded (Zed/alpha, IOB/IO_BASE)',
 # ---- round 4
 'C01d-m1': "a NEGATIVE inline number of emt/trap/sys (emt -1, 'neg = -2' / 'emt neg', trap #-20): wrapped with 255 instead of 256",
 'C01d-m2': 'three or more files in one link whose earlier files are already plain bytes (no forward or base-dependent reference): the third file is placed by the length of the second only',
 'C02d-m1': "'.repeat' of three or more copies, fully computable body whose copies differ in length (.even/.odd/.align inside an odd-sized body), something in copy 3+ that looks at '.'",
 'C02d-m2': "an included file whose first size-producing statement has a position-dependent length ('.repeat 1 { .byte 1 / .even }') and a later '.repeat COUNT { }' with COUNT defined below: terms in front of the expanded base promise are dropped",
 'C03d-m1': "'.repeat' n>=2 whose body cannot be evaluated when met (a constant defined further down) and depends on its own address (PC-relative operand, branch, '.'): copies 2.. see a stale '.'",
 'C03d-m2': "a literal on the LEFT of a parenthesised sum with a non-zero constant over a lazily held symbol ('3 * <scale + 2>' with 'scale = unit' above 'unit = 5')",
 'C04d-m1': 'an FP-11 instruction whose relative operand is a symbol that begins like ac0..ac4 (ac1save): the length test of the accumulator-name check was dropped (same family as C01b-m1)',
 'C04d-m2': "an '.include' as first code-producing statement without '.link' (or as first statement of an included file) and a FORWARD PC-relative reference inside the included module: coefficient of the base applied twice",
 'C05d-m1': "an impure operator (/ % << >>) on an operand that depends on '.', inside a '.repeat' of 2+ copies: the value cache is keyed by the statement instead of the evaluation state",
 'C05d-m2': "two assemblies in one process with a bare number containing 8/9 at the same (file name, offset): the 'already reported' flag is a process-wide set, the second assembly silently reads it as decimal",
 'C06d-m1': "a statement that consists only of the name of a constant defined earlier ('five = 5' / 'five'): the implicit '.word' emits nothing",
 'C06d-m2': "a character literal as data operand under a non-default charset (cp866 '.byte 'я', utf-8, latin-1): always encoded with bk",
 'C07d-m1': '--lst and a global symbol with a dot in its name: generate_listing crashes after the outputs were written (exit 1 without an error diagnostic, files left)',
 'C07d-m2': 'graphical format and a displayed diagnostic on the last line of a source that does not end with a newline: KeyError in the handler (exit status depends on format and -W)',
 'C08d-m1': "a left shift with a negative count applied to a non-literal value (label, '.', pending symbol): TypeError after the arithmetic-error report",
 'C08d-m2': 'an included file that sets its own link base first and is then aborted by a compile-time error: the abort path settles the base twice (AssertionError)',
 'C09d-m1': "two top-level files, the first completely evaluated while it is assembled ('.link' first, no forward references): the second is laid out without the link base",
 'C09d-m2': "'.repeat' n>=2 with a fully known body that depends on its own address (PC-relative operand to an outside label, '#.'): copies 2.. are laid out at 'addr = len(chunk)'",
 'C10d-m1': "the one's-complement prefix spelled '^C' (upper case): KeyError (operator registry and Parser.literal both stopped folding case)",
 'C10d-m2': "'ldcld' (one of four synonymous mnemonics) with a bare register 6/7 as source: treated as a floating source, rejected",
 'C11d-m1': "'.extern all' written after code, with the same local label name defined in two scopes before it: local labels leak into the export list (false duplicate)",
 'C11d-m2': "an '.include' in the middle of a local-label region of the includer: the rest of the region continues in the included file's last scope",
 'C12d-m1': "'. = X' (the skip form) inside a '.repeat' body: rejected as unexpected-symbol-definition",
 'C12d-m2': "'.link K - end + start' where 'start' is the first label of an included file and a padding of unknown size precedes the include: false recursive-definition",
 'C13d-m1': "'MAKE_TURBO_WAV' not in lower case: written as a normal-speed tape",
 'C13d-m2': 'an older, LONGER file already exists at the output path: the new contents are written over its beginning (no truncation)',
 'C14d-m1': "a refused string that has a '$' (byte 0x24 has two glyphs) before the first or after the last refused character: the encoding error names the wrong positions",
 'C14d-m2': 'U+FEFF inside a quoted string: removed by the parser (a leading-BOM fix that replaces every occurrence), so the string is accepted',
 'C15d-m1': "'.rad50 /AB/<x>' with x defined below (or undefined): NotReadyError swallowed, the code silently becomes a space",
 'C15d-m2': "a '^R' literal whose packed word is >= 0o100000 where more than 16 bits matter (.dword, division): unpacked as a signed word",
 'C16d-m1': "'.EXTERN ALL' with a capital letter in the keyword: taken for the name of one symbol, nothing exported (linking no longer equals concatenation); same idea as C10-m2",
 'C16d-m2': "an operand-less '.word' inside a '.repeat' of 2+ copies: emitted by the first copy only (a once-per-statement flag guards the return)",
 'C17d-m1': "a fault reported at a prefix operator nested under another prefix operator ('mov #~200000', '.word -#5'): the start position is the outer operator's",
 'C17d-m2': "a multi-chunk '.rad50' operand with the bad character in a later chunk: reported at the whole operand",
 'C18d-m1': "a conversion of a huge integer outside get_as_int (5000-digit literal, 'emt 1 << 15000.') as the FIRST assembly of a process: the int-max-str-digits setting is switched on by the first operand evaluation only",
 'C18d-m2': 'nested caret groups with different delimiters, after an earlier parse used the inner delimiter at another nesting level: the terminator parser is memoised per closing character',
 'C19d-m1': "a file that defines symbols both before and after an '.include' of a file that also defines symbols: its name heads two sections (groupby of adjacent items)",
 'C19d-m2': "the announced size of '.ascii' counts characters (utf-8, non-ASCII text, pending chunk): every listed label behind the directive is at the wrong address",
}


# seeds that were confirmed and caught when made, and stopped manifesting after a later repair of /repo changed the mechanism they sat in
OBSOLETE = {
 "C09-m3": "confirmed and caught by C09 when made (commit 224e275); since the repairs 099ada9 / 9fe2a2f (LinearPolynomial.normalized) the mutated "
           "branch of BaseDeferred.__mul__ no longer decides the value in the demonstrated shape: demo.py passes on the patched tree, so the "
           "seed is kept for the record only",
}


def main():
    root = Path(__file__).resolve().parent.parent / "seeded"
    for d in sorted(root.iterdir()):
        mp = d / "meta.json"
        if not mp.exists():
            continue
        m = json.loads(mp.read_text())
        m["property"] = d.name.split("-")[0][:3]
        m["needs_to_manifest"] = NEEDS.get(d.name, m.get("needs_to_manifest", "see notes.md"))
        m["how_confirmed"] = ("tools/seed_eval.sh: scratch worktree of /repo HEAD, patch applied with git apply, pinned suite run with the hook guard off, "
                              "demo.py run against the clean and the patched tree, then each listed check run with PDPY11_REPO=<patched worktree> --tier quick")
        if d.name in OBSOLETE:
            m["obsolete"] = OBSOLETE[d.name]
        caught = [r["check"] for r in m.get("runs", []) if r["exit"] == 1 and r["violation_lines"] > 0]
        m["caught_by"] = caught
        mp.write_text(json.dumps(m, indent=1) + "\n")
        print(d.name, "confirmed" if m.get("confirmed") else "NOT CONFIRMED", "caught by", caught or "-")


if __name__ == "__main__":
    main()
