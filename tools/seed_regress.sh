#!/bin/bash
# tools/seed_regress.sh [jobs]  - re-run every kept seed against the checks that are recorded as catching it (meta.json: caught_by),
# in a scratch worktree each (tools/seed_eval.sh), and list the seeds that are no longer caught.  Properties run in parallel.
cd "$(dirname "$0")/.."
J=${1:-4}
LOG=/tmp/seed-regress; rm -rf $LOG; mkdir -p $LOG
ls seeded | sed 's/b\?-m.*//' | sort -u | xargs -P "$J" -I{} bash -c '
  for d in seeded/{}-m* seeded/{}b-m*; do
    [ -d "$d" ] || continue
    id=$(basename $d)
    checks=$(python3 -c "import json,sys; m=json.load(open(\"$d/meta.json\")); print(\" \".join(m.get(\"caught_by\") or [m[\"property\"]]))")
    ./tools/seed_eval.sh $d $id $checks > '$LOG'/$id.log 2>&1
    git -C /repo worktree remove --force /tmp/seedeval-$id >/dev/null 2>&1
  done'
python3 tools/seed_meta.py | grep -v "caught by \['" ; echo "regress done: $(python3 tools/seed_meta.py | grep -c "caught by \['") seeds caught"
