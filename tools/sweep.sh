#!/bin/bash
# tools/sweep.sh <tier> <seed>...   run every claimed check with each seed; print one line per run (false-alarm hunting)
cd "$(dirname "$0")/.." || exit 2
TIER=$1; shift
for seed in "$@"; do
  for c in $(python3 -c "import json; print(' '.join(x['property_id'] for x in json.load(open('MANIFEST.json'))['checks']))"); do
    out=$(./check $c --tier $TIER --seed $seed 2>&1); rc=$?
    echo "seed=$seed $c exit=$rc $(echo "$out" | tail -1 | sed 's/states=.*violations/violations/' | cut -c1-90)"
    if [ $rc -ne 0 ]; then echo "$out" | grep -A1 '^VIOLATION\|MACHINERY' | head -6 | cut -c1-400; fi
  done
done
echo SWEEPDONE
