#!/bin/bash
# run the thorough tier of the given checks one after the other (one line per check)
cd "$(dirname "$0")/.." || exit 2
for c in "$@"; do
  out=$(./check $c --tier thorough 2>&1); rc=$?
  echo "$c exit=$rc $(echo "$out" | tail -1 | cut -c1-200)"
  if [ $rc -ne 0 ]; then echo "$out" | grep -A1 '^VIOLATION\|MACHINERY' | head -12 | cut -c1-400; fi
done
echo THOROUGHDONE
